"""C19 - transformations leave their inputs untouched and record provenance.

Sub-checks
  transform  library chains of 1..4 (and 9..14 cheap) transformations on formulas with groups, names, custom
             header entries and pre-existing 'transformation i' entries
  cli        `cnfgen <family> -T t1 -T t2 ...` in-process: the comment lines of the output
  graphs     every graph-taking family / group constructor with cnfgen and networkx objects
  builders   list/tuple arguments of the constraint builders of CNF and OPB
  lists      charges, patterns, planted assignments, explicit flips/permutations, ranges
"""
import inspect
import itertools
import math
import random
import re

from hypothesis import strategies as st

from vlib.core import SubCheck, Violation, Outcome
from vlib import graphs_gen as gg
from vlib import snapshot as sn

PROPERTY = "C19"
ASSUMPTIONS = [
    "'unchanged' is judged through the public accessors: iteration and indexing of the clauses, number_of_variables(), all_variable_labels(), header items in order; for graphs vertex count, edge list, neighbour lists and name (networkx: class, node order, node/edge/graph attribute dictionaries key by key with the type of every value, edge order and keys, adjacency order, frozen flag)",
    "any networkx.Graph instance is a legal graph argument where the documentation says networkx.Graph (subclasses, multigraphs, frozen graphs included: the tree accepts them); the 'bipartite' attribute may be 0/1, '0'/'1' or False/True (all pass the documented membership test); planted assignments may be any container supporting `literal in assignment` (the documentation says 'iterable' of 'sequences of literals')",
    "nested values reachable from a networkx copy returned by normalize_networkx_labels / to_networkx are shared by networkx's own shallow copy semantics: only top-level changes of the result are required not to reach the argument",
    "the description of the result must contain the original text (Shuffle appends ' (reshuffled)'); every other earlier header entry keeps key, value and position",
    "pre-existing 'transformation i' entries are generated gap-free (1..p), as every chain of the tree produces them",
    "AndSubstitution is not exported by the package (and not reachable from the command line): not exercised",
    "'-T none' returns its argument (docs/transform.rst): it adds no entry and is only used on the command line",
    "size is bounded by construction: a step whose clause bound m*c^W exceeds the cap is not applied (label 'step-over-cap'), nothing depends on time",
    "temporary in-place changes that are undone before the call returns are not observable and not objected to; the argument is compared before and after the call, also when the call ends in ValueError",
]

# ---------------------------------------------------------------------------
# size bound of one transformation step (never an oracle: only decides what is run)

MAXC = 2500           # clauses
MAXL = 16000          # literal occurrences
MAXV = 400            # variables

ARITY = ['xor', 'or', 'maj', 'eq', 'neq', 'one']
LINEAR = {'exact': ('==', '!='), 'atleast': ('>=', '<'), 'atmost': ('<=', '>'), 'anybut': ('!=', '==')}
COMP = ['xorcomp', 'majcomp']


def _lin(k, op, K):
    """number of clauses of the usual encoding of x1+..+xk op K"""
    if op == '>=':
        if K <= 0:
            return 0
        if K > k:
            return 1
        return math.comb(k, k - K + 1)
    if op == '<=':
        return _lin(k, '>=', k - K)
    if op == '<':
        return _lin(k, '<=', K - 1)
    if op == '>':
        return _lin(k, '>=', K + 1)
    if op == '==':
        return _lin(k, '<=', K) + _lin(k, '>=', K)
    if op == '!=':
        return math.comb(k, K) if 0 <= K <= k else 0
    raise ValueError(op)


def gadget_size(t):
    """(clauses per literal (max over signs), clause width, extra clauses per variable, variables(n) -> n')"""
    name = t['name']
    k = t.get('k', 1)
    if name == 'xor':
        return 2 ** (k - 1), k, 0, lambda n: n * k
    if name == 'or':
        return k, k, 0, lambda n: n * k
    if name == 'maj':
        return max(_lin(k, '>=', (k + 1) // 2), _lin(k, '<=', (k - 1) // 2)), k, 0, lambda n: n * k
    if name in ('eq', 'neq'):
        return max(2, k), max(2, k), 0, lambda n: n * k
    if name == 'one':
        return max(_lin(k, '==', 1), k), k, 0, lambda n: n * k
    if name in LINEAR:
        a, b = LINEAR[name]
        return max(_lin(k, a, t['K']), _lin(k, b, t['K'])), k, 0, lambda n: n * k
    if name == 'ite':
        return 2, 2, 0, lambda n: 3 * n
    if name == 'lift':
        return k, 2, _lin(k, '==', 1), lambda n: 2 * k * n
    if name in ('flip', 'shuffle', 'none'):
        return 1, 1, 0, lambda n: n
    if name in COMP:
        d = min(t['deg'] if t.get('deg') is not None else 3, t['R'])
        c = 2 ** max(0, d - 1) if name == 'xorcomp' else max(1, math.comb(d, d // 2 + 1 if d else 0), math.comb(d, (d + 1) // 2))
        return max(1, c), max(1, d), 0, lambda n: t['R']
    raise ValueError(name)


def next_shape(shape, t):
    """upper bound on (variables, clauses, width) after the step; None when over the cap"""
    n, m, W = shape
    c, w, extra, nf = gadget_size(t)
    m2 = m * (max(1, c) ** W) + extra * n
    W2 = max(W * w, 2 if extra else 0)
    n2 = nf(n)
    if m2 > MAXC or m2 * max(1, W2) > MAXL or n2 > MAXV:
        return None
    return (n2, m2, W2)


def shape_of(F):
    W = 0
    for c in F:
        if len(c) > W:
            W = len(c)
    return (F.number_of_variables(), len(F), W)


# ---------------------------------------------------------------------------
# input formulas

def build_formula(fc):
    """Formula with groups, names, custom header entries and optional earlier transformation entries."""
    import cnfgen
    from cnfgen.graphs import Graph
    kind = fc['kind']
    if kind == 'hand':
        F = cnfgen.CNF(description=fc['desc']) if fc.get('desc') is not None else cnfgen.CNF()
        for g in fc['groups']:
            if g[0] == 'var':
                F.new_variable(g[1])
            elif g[0] == 'block':
                F.new_block(*g[1], label=g[2])
            elif g[0] == 'anon':
                F.update_variable_number(F.number_of_variables() + g[1])
            else:
                raise RuntimeError("harness: unknown group kind")
        n = F.number_of_variables()
        for c in fc['clauses']:
            F.add_clause([(1 if l > 0 else -1) * ((abs(l) - 1) % n + 1) for l in c] if n else [])
    elif kind == 'php':
        F = cnfgen.PigeonholePrinciple(fc['m'], fc['h'])
    elif kind == 'op':
        F = cnfgen.OrderingPrinciple(fc['n'])
    elif kind == 'tseitin':
        G = Graph(fc['n'], name='cycle')
        for i in range(1, fc['n']):
            G.add_edge(i, i + 1)
        if fc['n'] > 2:
            G.add_edge(1, fc['n'])
        F = cnfgen.TseitinFormula(G)
    elif kind == 'kcolor':
        F = cnfgen.GraphColoringFormula(Graph.complete_graph(fc['n']), fc['k'])
    elif kind == 'bphp':
        F = cnfgen.BinaryPigeonholePrinciple(fc['m'], fc['h'])
    else:
        raise RuntimeError("harness: unknown formula kind")
    if fc.get('nodesc'):
        del F.header['description']
    for k, v in fc.get('header', []):
        F.header[k] = v
    for i in range(1, fc.get('pre', 0) + 1):
        F.header['transformation {}'.format(i)] = 'earlier step number {}'.format(i)
    return F


def _seq(spec, n, start=1, flips=False):
    """explicit Shuffle argument from ['list'|'tuple', seed]"""
    data = sn.derived_flips(spec[1], n) if flips else sn.derived_permutation(spec[1], n, start)
    return tuple(data) if spec[0] == 'tuple' else data


def apply_step(F, t, watch):
    """Calls the library; `watch` collects (what, object, snapshot before) of the extra arguments."""
    import cnfgen
    name = t['name']
    k = t.get('k')
    if name == 'xor':
        return cnfgen.XorSubstitution(F, k)
    if name == 'or':
        return cnfgen.OrSubstitution(F, k)
    if name == 'maj':
        return cnfgen.MajoritySubstitution(F, k)
    if name == 'eq':
        return cnfgen.AllEqualSubstitution(F, k)
    if name == 'neq':
        return cnfgen.NotAllEqualSubstitution(F, k)
    if name == 'one':
        return cnfgen.ExactlyOneSubstitution(F, k)
    if name == 'exact':
        return cnfgen.ExactlyKSubstitution(F, k, t['K'])
    if name == 'atleast':
        return cnfgen.AtLeastKSubstitution(F, k, t['K'])
    if name == 'atmost':
        return cnfgen.AtMostKSubstitution(F, k, t['K'])
    if name == 'anybut':
        return cnfgen.AnythingButKSubstitution(F, k, t['K'])
    if name == 'ite':
        return cnfgen.IfThenElseSubstitution(F)
    if name == 'lift':
        return cnfgen.FormulaLifting(F, k)
    if name == 'flip':
        return cnfgen.FlipPolarity(F)
    if name in COMP:
        L = F.number_of_variables()
        g = {'L': L, 'R': t['R'], 'edges': sn.derived_left_regular(t['gseed'], L, t['R'], t['deg']),
             'as': t.get('as', 'cnfgen'), 'labels': t.get('labels', 'int'), 'name': 'the compression graph'}
        if t.get('nx') is not None:
            g['nx'] = t['nx']
        B = sn.build_graph('bipartite', g)
        watch.append(('bipartite graph of the compression', B, sn.snap_graph(B), 'graph'))
        return cnfgen.VariableCompression(F, B, function='xor' if name == 'xorcomp' else 'maj')
    if name == 'shuffle':
        N, M = F.number_of_variables(), len(F)
        args = []
        for key, n, start, fl in (('flips', N, 1, True), ('vars', N, 1, False), ('clauses', M, 0, False)):
            spec = t[key]
            if spec[0] in ('fixed', 'shuffle'):
                args.append(spec[0])
            else:
                a = _seq(spec, n, start, fl)
                watch.append(('explicit {} of Shuffle'.format(key), a, sn.freeze(a), 'value'))
                args.append(a)
        return cnfgen.Shuffle(F, polarity_flips=args[0], variables_permutation=args[1], clauses_permutation=args[2])
    raise RuntimeError("harness: unknown transformation " + name)


def check_watch(watch, when):
    for what, obj, before, kind in watch:
        after = sn.snap_graph(obj) if kind == 'graph' else sn.freeze(obj)
        if after != before:
            raise Violation("{} was modified by {}: {}".format(what, when, "; ".join(sn.differences(before, after))))


TRANSF_KEY = re.compile(r'^transformation ([1-9][0-9]*)$')


def check_header_step(prev_items, new_items, index, what):
    """header(result) = header(input) [description may gain a suffix] + ('transformation index', text)"""
    if len(new_items) != len(prev_items) + 1:
        raise Violation("{}: the header of the result has {} entries, the input had {} (one new entry expected): {} -> {}".format(
            what, len(new_items), len(prev_items), [k for k, _ in prev_items], [k for k, _ in new_items]))
    for (k0, v0), (k1, v1) in zip(prev_items, new_items):
        if k0 != k1:
            raise Violation("{}: header entries reordered or renamed: {!r} became {!r}".format(what, k0, k1))
        if k0 == 'description':
            if not (isinstance(v1, str) and str(v0) in v1):
                raise Violation("{}: the description {!r} does not contain the original {!r}".format(what, v1, v0))
        elif v0 != v1 or type(v0) is not type(v1):
            raise Violation("{}: header entry {!r} changed from {!r} to {!r}".format(what, k0, v0, v1))
    k, v = new_items[-1]
    if k != 'transformation {}'.format(index):
        raise Violation("{}: the new header entry is {!r}, expected 'transformation {}' (after {})".format(
            what, k, index, [x for x, _ in prev_items if TRANSF_KEY.match(str(x))]))
    if not (isinstance(v, str) and v.strip()):
        raise Violation("{}: the entry {!r} has the value {!r}, a describing text expected".format(what, k, v))


def _mutate(X, tag):
    """What a user may do with a formula he owns."""
    X.header['harness ' + tag] = 'added afterwards'
    X.header['description'] = 'overwritten afterwards ' + tag
    X.header.pop('generator', None)
    for k in [k for k in X.header if TRANSF_KEY.match(str(k))][:1]:
        X.header[k] = 'rewritten afterwards'
    n = X.number_of_variables()
    X.add_clause([1, -n] if n else [])
    X.add_clause([n + 1])
    X.new_variable('harness_' + tag)
    X.new_block(2, label='hb_{{{}}}')


def run_transform(case):
    fc, chain = case['F'], case['chain']
    F0 = build_formula(fc)
    pre = fc.get('pre', 0)
    formulas = [F0]                   # every formula of the chain, kept alive
    snaps = [sn.snap_formula(F0)]
    labels = [fc['kind']]
    if pre:
        labels.append('preexisting-entry')
    if fc.get('header'):
        labels.append('custom-header')
    if fc.get('nodesc'):
        labels.append('no-description')
    if fc['kind'] == 'hand' and any(g[0] != 'anon' for g in fc['groups']):
        labels.append('named-groups')
    applied = 0
    for pos, t in enumerate(chain):
        F = formulas[-1]
        if t['name'] == 'annotate':
            # what a user may do between two steps with the formula he holds: one more header entry of his own
            # (after it, the latest 'transformation' entry is no longer the last entry of the header)
            F.header[t['key']] = t['value']
            snaps[-1] = sn.snap_formula(F)
            labels.append('annotated-between-steps')
            continue
        if next_shape(shape_of(F), t) is None:
            labels.append('step-over-cap')
            continue
        what = "step {} ({}) of {}".format(pos + 1, t['name'], [x['name'] for x in chain])
        watch = []
        random.seed(case['rseed'] + pos)
        R = apply_step(F, t, watch)
        applied += 1
        # -- inputs: this one and every earlier formula of the chain
        for i, (X, S) in enumerate(zip(formulas, snaps)):
            now = sn.snap_formula(X)
            if now != S:
                raise Violation("{}: the {} was modified: {}".format(
                    what, 'input formula' if i == len(formulas) - 1 else 'formula {} steps back'.format(len(formulas) - 1 - i),
                    "; ".join(sn.differences(S, now))))
        check_watch(watch, what)
        # -- a new object
        if R is F or any(R is X for X in formulas):
            raise Violation("{}: returned one of its input formulas instead of a new one".format(what))
        if R.header is F.header or any(R.header is X.header for X in formulas):
            raise Violation("{}: the result shares its header dictionary with an input".format(what))
        shared = sn.row_ids(R) & set().union(*[sn.row_ids(X) for X in formulas])
        if shared:
            raise Violation("{}: {} clause list objects of the result are the very objects stored in an input".format(what, len(shared)))
        # -- provenance
        check_header_step(list(F.header.items()), list(R.header.items()), pre + applied, what)
        formulas.append(R)
        snaps.append(sn.snap_formula(R))
        labels.append(t['name'])
        if t['name'] in ARITY or t['name'] in LINEAR or t['name'] == 'lift':
            labels.append('arity{}'.format(t['k']))
        if t['name'] == 'shuffle':
            for key in ('flips', 'vars', 'clauses'):
                labels.append('shuffle-{}-{}'.format(key, t[key][0]))
        if t['name'] in COMP:
            labels.append('comp-' + t.get('as', 'cnfgen'))
            if t.get('as') == 'networkx' and t.get('nx') is not None:
                labels.append('comp-nx-sides-' + t['nx'].get('sides', 'int'))
    if applied == 0:
        return Outcome(labels=labels + ['nothing-applied'], nontrivial=False)
    # -- whole chain: original entries, then pre+1 .. pre+applied
    keys = [k for k, _ in formulas[-1].header.items() if TRANSF_KEY.match(str(k))]
    if keys != ['transformation {}'.format(i) for i in range(1, pre + applied + 1)]:
        raise Violation("after {} steps on a formula with {} earlier entries the header lists {}".format(applied, pre, keys))
    for i in range(1, pre + 1):
        if formulas[-1].header['transformation {}'.format(i)] != 'earlier step number {}'.format(i):
            raise Violation("the earlier entry 'transformation {}' was rewritten: {!r}".format(
                i, formulas[-1].header['transformation {}'.format(i)]))
    # -- no shared mutable state, both directions
    R = formulas[-1]
    _mutate(R, 'result')
    for i, (X, S) in enumerate(zip(formulas[:-1], snaps[:-1])):
        now = sn.snap_formula(X)
        if now != S:
            raise Violation("changing the header and adding clauses/variables to the result of {} changed formula {} of the chain: {}".format(
                [x['name'] for x in chain], i, "; ".join(sn.differences(S, now))))
    SR = sn.snap_formula(R)
    for i, X in enumerate(formulas[:-1]):
        _mutate(X, 'input{}'.format(i))
        now = sn.snap_formula(R)
        if now != SR:
            raise Violation("changing formula {} of the chain {} after the fact changed the result: {}".format(
                i, [x['name'] for x in chain], "; ".join(sn.differences(SR, now))))
    if applied >= 3:
        labels.append('chain>=3')
    if applied >= 11:
        labels.append('chain>=11')
    if pre + applied >= 11:
        labels.append('entries>=11')
    labels.append('chain{}'.format(applied))
    return Outcome(labels=labels, nontrivial=len(F0) >= 2 and applied >= 1)


# ---- strategy

_NAMES = st.sampled_from(['X', 'y_{1}', 'a{b', 'p}q', '{}', 'x1', 'Z^{2}_{i,j}', 'w 1', '{{u}}'])
_BLOCKS = st.sampled_from([[[2], 'b_{{{}}}'], [[1, 2], 'z_{{{},{}}}'], [[2, 1], 'm[{},{}]'], [[1], 'c({})'], [[0], 'e{}'],
                           [[2, 2], 'q_{{{0},{1}}}']])
_HKEYS = st.sampled_from(['author', 'note 1', 'transformation', 'transformation 0', 'transformation x', 'Transformation 1',
                          'random seed', 'command line', 'z', 'transformation 01'])
_HVALS = st.one_of(st.sampled_from(['hand made', '', 'with: colon', 'curly {0} braces', '(reshuffled)', 'x' * 30]),
                   st.integers(-3, 99))
_LIT = st.integers(1, 12).flatmap(lambda v: st.sampled_from([v, -v]))
_SEED = st.integers(0, 10 ** 6)
_K13 = st.integers(1, 3)
_BOOL = st.booleans()
_I09 = st.integers(0, 9)
_ONE_IN_10 = st.sampled_from([True] + [False] * 9)
_ONE_IN_3 = st.sampled_from([True, False, False])
_SHKIND = st.sampled_from(['fixed', 'shuffle', 'list', 'tuple'])
_STYLE = st.sampled_from(sn.LABEL_STYLES)
_AS = st.sampled_from(['cnfgen', 'networkx'])
_FAMILY_BASES = [{'kind': 'php', 'm': 3, 'h': 2}, {'kind': 'php', 'm': 2, 'h': 2}, {'kind': 'op', 'n': 3},
                 {'kind': 'tseitin', 'n': 3}, {'kind': 'tseitin', 'n': 4}, {'kind': 'kcolor', 'n': 3, 'k': 2},
                 {'kind': 'bphp', 'm': 3, 'h': 2}, {'kind': 'bphp', 'm': 2, 'h': 4}]
_T_EXPANDING = ARITY + list(LINEAR) + ['ite', 'lift'] + COMP
_T_NAMES = st.sampled_from(_T_EXPANDING + ['flip', 'shuffle', 'shuffle'])
_T_CHEAP = st.sampled_from(['flip', 'shuffle', 'shuffle', 'arity1', 'comp1', 'lift1'])


@st.composite
def hand_formulas(draw, maxw=4, maxm=10):
    groups = []
    for _ in range(draw(st.integers(0, 4))):
        kind = draw(st.sampled_from(['var', 'block', 'anon']))
        if kind == 'var':
            groups.append(['var', draw(_NAMES)])
        elif kind == 'block':
            b = draw(_BLOCKS)
            groups.append(['block', b[0], b[1]])
        else:
            groups.append(['anon', draw(st.integers(1, 2))])
    n = sum(1 if g[0] == 'var' else (g[1] if g[0] == 'anon' else math.prod(g[1])) for g in groups)
    if n == 0 and not draw(_ONE_IN_10):
        groups.append(['anon', 2])
    clauses = draw(st.lists(st.lists(_LIT, max_size=maxw), max_size=maxm))
    header = draw(st.lists(st.tuples(_HKEYS, _HVALS), max_size=3, unique_by=lambda kv: kv[0]))
    return {'kind': 'hand', 'groups': groups, 'clauses': clauses,
            'desc': draw(st.sampled_from([None, 'a formula made by hand', '', 'curly {} text (reshuffled)'])),
            'header': [list(kv) for kv in header], 'pre': draw(st.sampled_from([0, 0, 1, 2])), 'nodesc': draw(_ONE_IN_10)}


@st.composite
def shuffle_step(draw):
    def one():
        k = draw(_SHKIND)
        return [k] if k in ('fixed', 'shuffle') else [k, draw(_SEED)]
    return {'name': 'shuffle', 'flips': one(), 'vars': one(), 'clauses': one()}


_NX_DRAW = {dim: st.sampled_from(values) for dim, values in sn.NX_DIMENSIONS}
_TWO_IN_3 = st.sampled_from([True, True, False])


def draw_nx(draw):
    """the foreign-object parameters of a networkx argument (vlib/snapshot.py: nx_foreign)"""
    spec = {dim: draw(_NX_DRAW[dim]) for dim, _ in sn.NX_DIMENSIONS}
    spec['oseed'] = draw(_I09)
    return spec


def _foreign_step(draw, t):
    if t['as'] == 'networkx' and draw(_TWO_IN_3):
        t['nx'] = draw_nx(draw)
        t['labels'] = t['nx']['labels']
    return t


@st.composite
def any_step(draw, cheap=False):
    name = draw(_T_CHEAP if cheap else _T_NAMES)
    if name == 'arity1':
        name = draw(st.sampled_from(ARITY + list(LINEAR)))
        t = {'name': name, 'k': 1}
        if name in LINEAR:
            t['K'] = draw(st.integers(0, 2))
        return t
    if name == 'lift1':
        return {'name': 'lift', 'k': 1}
    if name == 'comp1':
        return _foreign_step(draw, {'name': draw(st.sampled_from(COMP)), 'R': draw(st.integers(1, 4)), 'deg': draw(st.integers(0, 1)),
                                    'gseed': draw(_SEED), 'as': draw(_AS), 'labels': draw(_STYLE)})
    if name == 'shuffle':
        return draw(shuffle_step())
    if name in ('flip', 'ite'):
        return {'name': name}
    if name in COMP:
        return _foreign_step(draw, {'name': name, 'R': draw(st.integers(1, 5)), 'deg': draw(st.integers(0, 3)), 'gseed': draw(_SEED),
                                    'as': draw(_AS), 'labels': draw(_STYLE)})
    t = {'name': name, 'k': draw(_K13)}
    if name in LINEAR:
        t['K'] = draw(st.integers(0, t['k'] + 1))
    return t


@st.composite
def strat_transform(draw):
    mode = draw(st.sampled_from(['one-expanding', 'one-expanding', 'free-small', 'family', 'long']))
    length = draw(st.integers(1, 4))
    if mode == 'long':
        # many cheap steps on a tiny formula, and/or many earlier entries: step numbers with two digits
        F = draw(hand_formulas(maxw=2, maxm=3))
        F['pre'] = draw(st.sampled_from([0, 0, 3, 8, 9, 10, 11, 19]))
        length = draw(st.integers(9, 14)) if F['pre'] == 0 or draw(_BOOL) else draw(st.integers(1, 4))
        chain = [draw(any_step(cheap=True)) for _ in range(length)]
    elif mode == 'free-small':
        F = draw(hand_formulas(maxw=2, maxm=4))
        chain = [draw(any_step()) for _ in range(length)]
    else:
        if mode == 'family':
            F = dict(draw(st.sampled_from(_FAMILY_BASES)))
            F['pre'] = draw(st.sampled_from([0, 0, 1]))
            F['header'] = [['note', 'from a family']] if draw(_BOOL) else []
        else:
            F = draw(hand_formulas())
        chain = [draw(any_step(cheap=True)) for _ in range(length)]
        pos = draw(st.integers(0, length - 1))
        chain[pos] = draw(any_step())
        # the one clause-expanding step has arity at most 2 when the clauses may be wide
        t = chain[pos]
        if t.get('k', 1) == 3 and not draw(_ONE_IN_3):
            t['k'] = 2
            if 'K' in t:
                t['K'] = min(t['K'], 3)
    if draw(_ONE_IN_3):
        # the user's own header entries between two steps
        for _ in range(draw(st.integers(1, 2))):
            at = draw(st.integers(0, len(chain)))
            chain.insert(at, {'name': 'annotate', 'key': draw(st.sampled_from(['note', 'remark 2', 'transformation', 'transformations', 'step'])),
                              'value': draw(st.sampled_from(['by hand', '', 'transformation 7']))})
    return {'F': F, 'chain': chain, 'rseed': draw(_SEED)}


TRANSFORM_LABELS = (ARITY + list(LINEAR) + ['ite', 'lift', 'flip', 'shuffle'] + COMP +
                    ['arity1', 'arity2', 'arity3', 'chain1', 'chain2', 'chain3', 'chain4', 'chain>=3', 'chain>=11', 'entries>=11', 'annotated-between-steps', 'preexisting-entry',
                     'custom-header', 'named-groups', 'no-description', 'comp-cnfgen', 'comp-networkx', 'hand', 'php', 'tseitin'] +
                    ['shuffle-{}-{}'.format(a, b) for a in ('flips', 'vars', 'clauses') for b in ('fixed', 'shuffle', 'list', 'tuple')] +
                    ['comp-nx-sides-' + x for x in sn.NX_SIDES])


# ---------------------------------------------------------------------------
# the command line: `cnfgen <family> -T t1 -T t2 ...`

CLI_BASES = [
    ['php', 3, 2], ['php', 2, 2], ['op', 3], ['parity', 4], ['and', 2, 2], ['or', 2, 1], ['ram', 3, 3, 4],
    ['vdw', 5, 2, 3], ['randkcnf', 3, 5, 6], ['bphp', 3, 2], ['kcolor', 2, 'complete', 3],
    ['tseitin', 'first', 'grid', 2, 2], ['peb', 'pyramid', 2], ['count', 4, 2], ['false'], ['true'],
    ['stone', 2, 'path', 2], ['ptn', 13],
]
_BASE_INFO = {}


def base_info(i):
    """(shape, description) of the untransformed family instance, built once per process"""
    if i not in _BASE_INFO:
        from vlib import cli as vcli
        random.seed(0)
        F = vcli.build('cnfgen', ['--seed', 0] + CLI_BASES[i])
        _BASE_INFO[i] = (shape_of(F), F.header['description'])
    return _BASE_INFO[i]


def step_tokens(t):
    name = t['name']
    if name in ARITY or name == 'lift':
        return [name, t['k']]
    if name in LINEAR:
        return [name, t['k'], t['K']]
    if name in ('ite', 'flip', 'none'):
        return [name]
    if name in COMP:
        return [name, t['R'], t['deg']] if t.get('deg') is not None else [name, t['R']]
    if name == 'shuffle':
        return [name] + [f for f, key in (('-p', 'flips'), ('-v', 'vars'), ('-c', 'clauses')) if t[key][0] == 'fixed']
    raise RuntimeError("harness: " + name)


def _ascii(text):
    return " ".join(str(text).splitlines()).encode('ascii', errors='replace').decode('ascii')


def header_lines(text, marker):
    """(key, value) pairs of the leading comment block, in order"""
    items = []
    for line in text.splitlines():
        if not line.startswith(marker.rstrip()):
            break
        body = line[len(marker):] if line.startswith(marker) else ''
        if ': ' in body:
            k, v = body.split(': ', 1)
            items.append((k, v))
        elif body.endswith(':'):
            items.append((body[:-1], ''))
    return items


def run_cli(case):
    from vlib import cli as vcli
    shape, base_descr = base_info(case['base'])
    steps = []
    labels = []
    for t in case['chain']:
        nxt = next_shape(shape, t)
        if nxt is None or (t['name'] in COMP and shape[0] == 0):     # 'N d' samples a graph: needs a variable
            labels.append('step-over-cap' if nxt is None else 'comp-without-variables')
            continue
        shape = nxt
        steps.append(t)
    fmt = case['fmt']
    marker = {'dimacs': 'c ', 'opb': '* '}[fmt]
    argv = ['--seed', case['seed']] + (['-of', 'opb'] if fmt == 'opb' else []) + list(CLI_BASES[case['base']])
    for t in steps:
        argv += ['-T'] + step_tokens(t)
    real = [t for t in steps if t['name'] != 'none']
    random.seed(case['seed'])
    res = vcli.run_main('cnfgen', argv)
    if res.exc is not None:
        raise res.exc
    if res.code != 0:
        raise Violation("cnfgen {} exits with {}: {}".format(argv, res.code, res.err[:300]))
    items = header_lines(res.out, marker)
    if fmt == 'opb' and items and items[0][0].startswith('#variable'):
        items = items[1:]
    got = [(k, v) for k, v in items if TRANSF_KEY.match(k)]
    want_keys = ['transformation {}'.format(i) for i in range(1, len(real) + 1)]
    if [k for k, _ in got] != want_keys:
        raise Violation("cnfgen {}: {} transformations applied but the comment lines are {}".format(
            " ".join(str(a) for a in argv), len(real), [k for k, _ in got]))
    if any(not v.strip() for _, v in got):
        raise Violation("cnfgen {}: empty transformation comment {}".format(argv, got))
    pos = [i for i, (k, _) in enumerate(items) if TRANSF_KEY.match(k)]
    if pos and pos != list(range(pos[0], pos[0] + len(pos))):
        raise Violation("cnfgen {}: the transformation comments are not consecutive lines: {}".format(argv, [k for k, _ in items]))
    descr = [v for k, v in items if k == 'description']
    if len(descr) != 1 or _ascii(base_descr) not in descr[0]:
        raise Violation("cnfgen {}: the description line {} does not contain the description of the family {!r}".format(
            argv, descr, base_descr))
    if pos and not [k for k, _ in items].index('description') < pos[0]:
        raise Violation("cnfgen {}: the description comes after the transformations".format(argv))
    # the object behind the same command line
    random.seed(case['seed'])
    F = vcli.build('cnfgen', argv)
    obj = [(k, _ascii(v)) for k, v in F.header.items() if TRANSF_KEY.match(str(k))]
    if obj != got:
        raise Violation("cnfgen {}: comment lines {} but the header of the formula has {}".format(argv, got, obj))
    # the library chain on the family instance
    if not any(t['name'] in COMP for t in real):
        random.seed(case['seed'])
        X = vcli.build('cnfgen', ['--seed', case['seed']] + list(CLI_BASES[case['base']]))
        for t in real:
            lt = dict(t)
            if t['name'] == 'shuffle':
                lt = {'name': 'shuffle', 'flips': [t['flips'][0]], 'vars': [t['vars'][0]], 'clauses': [t['clauses'][0]]}
            X = apply_step(X, lt, [])
        lib = [(k, _ascii(v)) for k, v in X.header.items() if TRANSF_KEY.match(str(k))]
        if lib != got:
            raise Violation("cnfgen {}: comment lines {} but the same chain of library calls records {}".format(argv, got, lib))
        labels.append('library-compared')
    labels += [t['name'] for t in steps] + [fmt, 'chain{}'.format(len(real))]
    if len(real) >= 3:
        labels.append('chain>=3')
    return Outcome(labels=labels, nontrivial=len(real) >= 1 and base_info(case['base'])[0][1] >= 2)


@st.composite
def cli_step(draw, cheap=False):
    if draw(_ONE_IN_10):
        return {'name': 'none'}
    t = draw(any_step(cheap=cheap))
    if t['name'] == 'shuffle':
        for key in ('flips', 'vars', 'clauses'):
            t[key] = [draw(st.sampled_from(['fixed', 'shuffle']))]
    if t['name'] in COMP:
        t = {'name': t['name'], 'R': max(1, t['R']), 'deg': max(1, min(t['deg'], t['R'], 2))}
        if draw(_ONE_IN_10) and t['R'] >= 3:
            t['deg'] = None                      # documented default arity 3
    if 'K' in t:
        t['K'] = max(1, t['K'])
    return t


@st.composite
def strat_cli(draw):
    length = draw(st.integers(1, 4))
    chain = [draw(cli_step(cheap=True)) for _ in range(length)]
    chain[draw(st.integers(0, length - 1))] = draw(cli_step())
    return {'base': draw(st.integers(0, len(CLI_BASES) - 1)), 'chain': chain, 'seed': draw(st.integers(0, 999)),
            'fmt': draw(st.sampled_from(['dimacs', 'dimacs', 'dimacs', 'opb']))}


# ---------------------------------------------------------------------------
# graph arguments of families, group constructors and VariableCompression

def _cls(name):
    import cnfgen
    from cnfgen.formula.opb import OPB
    return cnfgen.CNF if name == "CNF" else OPB


def _fam(fname):
    import cnfgen
    return getattr(cnfgen, fname)


# name -> (graph kinds of the graph arguments, caller(graphs, params, formula class))
GRAPH_CALLS = {
    'GraphColoringFormula': (['simple'], lambda g, p, c: _fam('GraphColoringFormula')(g[0], p['k'], p['flag'], formula_class=c)),
    'EvenColoringFormula': (['simple'], lambda g, p, c: _fam('EvenColoringFormula')(g[0], formula_class=c)),
    'PerfectMatchingPrinciple': (['simple'], lambda g, p, c: _fam('PerfectMatchingPrinciple')(g[0], formula_class=c)),
    'DominatingSet': (['simple'], lambda g, p, c: _fam('DominatingSet')(g[0], p['k'], alternative=p['flag'], formula_class=c)),
    'Tiling': (['simple'], lambda g, p, c: _fam('Tiling')(g[0], formula_class=c)),
    'GraphIsomorphism': (['simple', 'simple'], lambda g, p, c: _fam('GraphIsomorphism')(g[0], g[1], nontrivial=p['flag'], formula_class=c)),
    'GraphAutomorphism': (['simple'], lambda g, p, c: _fam('GraphAutomorphism')(g[0], formula_class=c)),
    'GraphOrderingPrinciple': (['simple'], lambda g, p, c: _fam('GraphOrderingPrinciple')(
        g[0], total=p['flag'], smart=p['flag2'], plant=p['k'] == 1, knuth=p['s'], formula_class=c)),
    'PebblingFormula': (['dag'], lambda g, p, c: _fam('PebblingFormula')(g[0], formula_class=c)),
    'StoneFormula': (['dag'], lambda g, p, c: _fam('StoneFormula')(g[0], p['k'], formula_class=c)),
    'SparseStoneFormula': (['dag', 'bipartite'], lambda g, p, c: _fam('SparseStoneFormula')(g[0], g[1], formula_class=c)),
    'GraphPigeonholePrinciple': (['bipartite'], lambda g, p, c: _fam('GraphPigeonholePrinciple')(
        g[0], functional=p['flag'], onto=p['flag2'], formula_class=c)),
    'SubgraphFormula': (['simple', 'simple'], lambda g, p, c: _fam('SubgraphFormula')(
        g[0], g[1], induced=p['flag'], symbreak=p['flag2'], formula_class=c)),
    'CliqueFormula': (['simple'], lambda g, p, c: _fam('CliqueFormula')(g[0], p['k'], symbreak=p['flag'], formula_class=c)),
    'BinaryCliqueFormula': (['simple'], lambda g, p, c: _fam('BinaryCliqueFormula')(g[0], p['k'], symbreak=p['flag'], formula_class=c)),
    'RamseyWitnessFormula': (['simple'], lambda g, p, c: _fam('RamseyWitnessFormula')(g[0], p['k'], p['s'], symbreak=p['flag'], formula_class=c)),
    'SubsetCardinalityFormula': (['bipartite'], lambda g, p, c: _fam('SubsetCardinalityFormula')(g[0], p['flag'], formula_class=c)),
    'TseitinFormula': (['simple'], lambda g, p, c: _fam('TseitinFormula')(
        g[0], None if p['flag'] else [(i + p['k']) % 2 for i in range(p['s'] + 2)], formula_class=c)),
    'VariableCompression': (['bipartite'], lambda g, p, c: _compress(g[0], p)),
    'new_graph_edges': (['simple'], lambda g, p, c: _use_group(c().new_graph_edges(g[0]))),
    'new_bipartite_edges': (['bipartite'], lambda g, p, c: _use_group(c().new_bipartite_edges(g[0]))),
    'new_digraph_edges': (['digraph'], lambda g, p, c: _use_group(c().new_digraph_edges(g[0], sortby='pred' if p['flag'] else 'succ'))),
    'new_sparse_mapping': (['bipartite'], lambda g, p, c: _sparse_mapping(c(), g[0], p)),
    # graph builders: networkx object -> cnfgen object (and back)
    'Graph.from_networkx': (['simple'], lambda g, p, c: _gcls('Graph').from_networkx(g[0])),
    'Graph.normalize': (['simple'], lambda g, p, c: _gcls('Graph').normalize(g[0], 'G')),
    'DirectedGraph.from_networkx': (['digraph'], lambda g, p, c: _gcls('DirectedGraph').from_networkx(g[0])),
    'DirectedGraph.normalize': (['digraph'], lambda g, p, c: _gcls('DirectedGraph').normalize(g[0], 'D')),
    'BipartiteGraph.from_networkx': (['bipartite'], lambda g, p, c: _gcls('BipartiteGraph').from_networkx(g[0])),
    'BipartiteGraph.normalize': (['bipartite'], lambda g, p, c: _gcls('BipartiteGraph').normalize(g[0], 'B')),
    'normalize_networkx_labels': (['simple'], lambda g, p, c: _gcls('normalize_networkx_labels')(g[0])),
    'normalize_networkx_labels/digraph': (['digraph'], lambda g, p, c: _gcls('normalize_networkx_labels')(g[0])),
    'Graph.to_networkx': (['simple'], lambda g, p, c: g[0].to_networkx()),
    'DirectedGraph.to_networkx': (['digraph'], lambda g, p, c: g[0].to_networkx()),
    'BipartiteGraph.to_networkx': (['bipartite'], lambda g, p, c: g[0].to_networkx()),
}
# calls that return a graph object: the result is changed afterwards and the argument looked at again
BUILDER_CALLS = {n for n in GRAPH_CALLS if '.' in n or n.startswith('normalize_')}
NX_ONLY = {n for n in BUILDER_CALLS if 'from_networkx' in n or n.startswith('normalize_')}
# catalogue (command line) name -> library functions that take its graph
CATALOGUE_TO_CALLS = {
    'php': ['GraphPigeonholePrinciple'], 'matching': ['PerfectMatchingPrinciple'], 'tseitin': ['TseitinFormula'],
    'subsetcard': ['SubsetCardinalityFormula'], 'kcolor': ['GraphColoringFormula'], 'ec': ['EvenColoringFormula'],
    'domset': ['DominatingSet'], 'tiling': ['Tiling'], 'iso': ['GraphIsomorphism', 'GraphAutomorphism'],
    'kclique': ['CliqueFormula'], 'kcliquebin': ['BinaryCliqueFormula'], 'ramlb': ['RamseyWitnessFormula'],
    'subgraph': ['SubgraphFormula'], 'op': ['GraphOrderingPrinciple'], 'peb': ['PebblingFormula'],
    'stone': ['StoneFormula', 'SparseStoneFormula'],
}
# documented for cnfgen graph objects only
CNFGEN_ONLY = {'new_graph_edges', 'new_bipartite_edges', 'new_digraph_edges', 'new_sparse_mapping',
               'Graph.to_networkx', 'DirectedGraph.to_networkx', 'BipartiteGraph.to_networkx'}
GRAPH_PARAM_NAMES = {'G', 'G1', 'G2', 'H', 'B', 'D', 'graph', 'digraph'}


def _gcls(name):
    import cnfgen.graphs
    return getattr(cnfgen.graphs, name)


def _change_result(R):
    """what a caller may do with a graph object he got back (top level only: a networkx copy shares attribute values)"""
    import networkx
    from cnfgen.graphs import Graph, DirectedGraph, BipartiteGraph
    if isinstance(R, networkx.Graph):
        R.graph['name'] = 'renamed afterwards'
        R.graph['harness'] = 1
        for u in list(R.nodes()):
            R.nodes[u]['bipartite'] = 'changed afterwards'
            R.nodes[u]['harness'] = 1
        for e in list(R.edges(keys=True) if R.is_multigraph() else R.edges()):
            R.edges[e]['harness'] = 1
        if not networkx.is_frozen(R):
            R.add_node('harness node')
            R.remove_edges_from(list(R.edges())[:1])
        return
    R.name = 'renamed afterwards'
    n = R.number_of_vertices()
    if isinstance(R, BipartiteGraph):
        for u in range(1, R.left_order() + 1):
            for v in range(1, R.right_order() + 1):
                R.add_edge(u, v)
    elif isinstance(R, Graph):
        R.update_vertex_number(n + 1)
        for u in range(1, n + 1):
            R.add_edge(u, n + 1)
    elif isinstance(R, DirectedGraph):
        for u in range(1, n):
            R.add_edge(u, n)


def _compress(B, p):
    import cnfgen
    from cnfgen.graphs import BipartiteGraph
    L = B.left_order() if isinstance(B, BipartiteGraph) else sn.nx_left_order(B)
    F = cnfgen.CNF()
    F.update_variable_number(L)
    for u in range(1, L + 1):
        F.add_clause([u, -((u % L) + 1)])
    return cnfgen.VariableCompression(F, B, function='xor' if p['flag'] else 'maj')


def _use_group(g):
    """exercise the accessors of a variable group built on the graph"""
    for v in g:
        g.to_index(v)
    list(g.indices())
    list(g.label())
    return g


def _sparse_mapping(F, B, p):
    f = F.new_sparse_mapping(B)
    _use_group(f)
    F.force_complete_mapping(f)
    if p['flag']:
        F.force_functional_mapping(f)
    if p['flag2']:
        F.force_injective_mapping(f)
    F.force_surjective_mapping(f)
    F.force_nondecreasing_mapping(f)
    return F


_COVERAGE_DONE = []


def uncovered_graph_callables():
    """public callables of the package with a graph parameter that GRAPH_CALLS does not model"""
    import cnfgen
    from vlib import catalog
    missing = []
    for name in dir(cnfgen):
        obj = getattr(cnfgen, name)
        if name.startswith('_') or not inspect.isfunction(obj):
            continue
        if not (obj.__module__ or '').startswith(('cnfgen.families', 'cnfgen.transformations')):
            continue
        params = set(inspect.signature(obj).parameters)
        if params & GRAPH_PARAM_NAMES and name not in GRAPH_CALLS:
            missing.append(name)
    for f in catalog.FAMILIES:
        if f.graph_kinds and not all(c in GRAPH_CALLS for c in CATALOGUE_TO_CALLS.get(f.name, ['?' + f.name])):
            missing.append('catalogue:' + f.name)
    return missing


def run_graphs(case):
    if not _COVERAGE_DONE:
        miss = uncovered_graph_callables()
        if miss:
            raise RuntimeError("harness: graph-taking callables without a model in GRAPH_CALLS: {}".format(miss))
        _COVERAGE_DONE.append(True)
    name = case['call']
    kinds, caller = GRAPH_CALLS[name]
    graphs = [sn.build_graph(k, g) for k, g in zip(kinds, case['graphs'])]
    if case.get('same') and len(graphs) == 2 and kinds[0] == kinds[1]:
        graphs[1] = graphs[0]                    # the same object passed twice
    before = [sn.snap_graph(G) for G in graphs]
    labels = [name, case['cls']]
    rejected = False
    random.seed(case['rseed'])
    result = None
    try:
        result = caller(graphs, case['p'], _cls(case['cls']))
    except ValueError:
        rejected = True                          # parameters outside the family's domain: the graph must still be intact

    def compare(then):
        for i, (G, S) in enumerate(zip(graphs, before)):
            now = sn.snap_graph(G)
            if now != S:
                raise Violation("{}({} as {} object{}) {}modified its graph argument {}{}: {}".format(
                    name, case['graphs'][i], case['graphs'][i]['as'], '' if case['graphs'][i]['as'] == 'cnfgen' else
                    ' with ' + case['graphs'][i].get('labels', 'int') + ' labels', 'raised ValueError and ' if rejected else '',
                    i + 1, then, "; ".join(sn.differences(S, now))))
    compare('')
    if name in BUILDER_CALLS and result is not None:
        if any(result is G for G in graphs):
            if not (name.endswith('.normalize') and case['graphs'][0]['as'] == 'cnfgen'):
                raise Violation("{} returned its argument instead of a new graph object".format(name))
            labels.append('returned-as-is')          # documented: a cnfgen object is handed back by normalize
        else:
            _change_result(result)
            compare(' (seen when the returned graph was changed afterwards)')
            labels.append('result-changed')
    for g in case['graphs']:
        labels.append(g['as'])
        if g['as'] == 'networkx':
            labels.append('nx-' + g.get('labels', 'int'))
            if g.get('nx') is not None:
                labels.append('nx-foreign')
                for dim, _ in sn.NX_DIMENSIONS:
                    if dim != 'labels' and (dim != 'sides' or 'L' in g):
                        labels.append('nx-{}-{}'.format(dim, g['nx'][dim]))
    if rejected:
        labels.append('rejected')
    size = sum(len(g['edges']) for g in case['graphs'])
    return Outcome(labels=labels, nontrivial=size >= 2 and not rejected, rejected=rejected)


_SG = gg.simple_graphs(nmin=0, nmax=5, kinds=('cnfgen',))
_SG_SMALL = gg.simple_graphs(nmin=0, nmax=3, kinds=('cnfgen',))
_DAG = gg.dags(nmin=1, nmax=5, max_edges=6, kinds=('cnfgen',))
_DIG = gg.digraphs(nmin=0, nmax=4, kinds=('cnfgen',), loops=False)
_BIP = gg.bipartite_graphs(Lmin=0, Lmax=4, Rmin=0, Rmax=4, kinds=('cnfgen',))
_GNAME = st.sampled_from([None, None, 'my graph', ''])
_CLS = st.sampled_from(['CNF', 'OPB'])
_CALLS = st.sampled_from(sorted(GRAPH_CALLS))
_I03 = st.integers(0, 3)


@st.composite
def strat_graphs(draw):
    name = draw(_CALLS)
    kinds = GRAPH_CALLS[name][0]
    graphs = []
    for i, k in enumerate(kinds):
        if k == 'simple':
            g = draw(_SG_SMALL if (len(kinds) == 2 and i == 1) else _SG)
        elif k == 'dag':
            g = draw(_DAG)
            if name in ('StoneFormula', 'SparseStoneFormula'):       # keep the formulas small: in-degree <= 2
                seen, edges = {}, []
                for u, v in g['edges']:
                    if seen.get(v, 0) < 2 and g['n'] <= 4:
                        seen[v] = seen.get(v, 0) + 1
                        edges.append([u, v])
                g = dict(g, edges=edges)
        elif k == 'digraph':
            g = draw(_DIG)
        else:
            g = draw(_BIP)
            if name == 'SparseStoneFormula' and not draw(_ONE_IN_10):
                g = dict(g, L=graphs[0]['n'], edges=[e for e in g['edges'] if e[0] <= graphs[0]['n']])
        g = dict(g)
        g['as'] = 'cnfgen' if name in CNFGEN_ONLY else ('networkx' if name in NX_ONLY else draw(_AS))
        if g['as'] == 'networkx':
            g['labels'] = draw(_STYLE)
            if draw(_TWO_IN_3):
                g['nx'] = draw_nx(draw)
                g['labels'] = g['nx']['labels']
        else:
            g['name'] = draw(_GNAME)
        graphs.append(g)
    p = {'k': draw(_I03), 's': draw(_I03), 'flag': draw(_BOOL), 'flag2': draw(_BOOL)}
    if name == 'DominatingSet':
        p['k'] = max(1, p['k'])
    if name == 'StoneFormula':
        p['k'] = max(1, min(p['k'], 2))
    return {'call': name, 'graphs': graphs, 'p': p, 'cls': draw(_CLS), 'same': draw(_ONE_IN_10), 'rseed': draw(_SEED)}


def enum_graphs(tier):
    """every modelled call x object kind x label style on two fixed graphs of each kind"""
    fixed = {
        'simple': [{'n': 4, 'edges': [[1, 2], [2, 3], [3, 4], [1, 4]]}, {'n': 3, 'edges': [[1, 3]]}],
        'dag': [{'n': 3, 'edges': [[1, 3], [2, 3]]}, {'n': 3, 'edges': [[1, 2]]}],
        'digraph': [{'n': 3, 'edges': [[3, 1], [1, 2], [2, 3]]}, {'n': 2, 'edges': []}],
        'bipartite': [{'L': 3, 'R': 3, 'edges': [[1, 3], [1, 1], [2, 2], [3, 1], [3, 2]]}, {'L': 3, 'R': 2, 'edges': [[2, 2], [1, 1], [3, 1]]}],
    }
    for name in sorted(GRAPH_CALLS):
        kinds = GRAPH_CALLS[name][0]
        for which in (0, 1):
            for how in [('cnfgen', None)] + [('networkx', s) for s in sn.LABEL_STYLES]:
                if (how[0] == 'networkx' and name in CNFGEN_ONLY) or (how[0] == 'cnfgen' and name in NX_ONLY):
                    continue
                graphs = []
                for i, k in enumerate(kinds):
                    g = dict(fixed[k][(which + i) % 2])
                    g['as'] = how[0]
                    if how[1]:
                        g['labels'] = how[1]
                    graphs.append(g)
                for cls in ('CNF', 'OPB'):
                    yield {'call': name, 'graphs': graphs, 'p': {'k': 2, 's': 2, 'flag': which == 0, 'flag2': which == 1},
                           'cls': cls, 'same': False, 'rseed': 1}
    # the foreign-object sweep: from two base objects, every value of every dimension of vlib/snapshot.py: nx_foreign
    bases = [dict(sn.NX_DEFAULT),
             {'sides': 'str', 'order': 'shuffled', 'cls': 'plain', 'labels': 'str', 'extra': 'deep', 'gname': 'absent', 'oseed': 3}]
    for name in sorted(GRAPH_CALLS):
        if name in CNFGEN_ONLY:
            continue
        kinds = GRAPH_CALLS[name][0]
        for which in (0, 1):
            specs = [dict(bases[which])]
            for dim, values in sn.NX_DIMENSIONS:
                if dim == 'sides' and 'bipartite' not in kinds:
                    continue
                specs += [dict(bases[which], **{dim: v}) for v in values if v != bases[which][dim]]
            for j, spec in enumerate(specs):
                graphs = []
                for i, k in enumerate(kinds):
                    g = dict(fixed[k][(which + i) % 2])
                    g['as'] = 'networkx'
                    g['nx'] = dict(spec, oseed=spec['oseed'] + i)
                    g['labels'] = spec['labels']
                    graphs.append(g)
                yield {'call': name, 'graphs': graphs, 'p': {'k': 2, 's': 2, 'flag': which == 0, 'flag2': j % 2 == 1},
                       'cls': ('CNF', 'OPB')[(j + which) % 2], 'same': False, 'rseed': 1}


# ---------------------------------------------------------------------------
# list / tuple arguments of the constraint builders

B_METHODS = ['add_linear', 'cardinality_geq', 'cardinality_leq', 'cardinality_eq', 'cardinality_neq',
             'add_loose_majority', 'add_strict_majority', 'add_loose_minority', 'add_strict_minority',
             'add_parity', 'add_clause', 'add_clauses_from', 'constructor', 'add_constraint']
B_OPS = ['<=', '>=', '<', '>', '==', '!=']
OPB_IN_OPS = ['>=', '<=', '>', '<', '==']


def _as(kind, data):
    return tuple(data) if kind == 'tuple' else list(data)


def run_builders(case):
    method, cname, kind = case['method'], case['cls'], case['container']
    cls = _cls(cname)
    lits = case['lits']
    F = cls()
    F.update_variable_number(case['nv'])
    F.add_clause([1, -case['nv']])
    S0 = sn.snap_formula(F)
    n0 = len(F)
    labels = [method, cname, kind, 'check' if case['check'] else 'nocheck']
    inner = None
    if method in ('add_clauses_from', 'constructor'):
        inner = [_as(kind, c) for c in case['rows']]
        arg = _as(case['outer'], inner)
    elif method == 'add_constraint':
        inner = [tuple(t) if kind == 'tuple' else list(t) for t in case['terms']]
        arg = inner + [case['op'], case['const']]
    else:
        arg = _as(kind, lits)
    before = sn.freeze(arg)
    rejected = False
    try:
        if method == 'add_linear':
            F.add_linear(arg, case['op'], case['const'], check=case['check'])
            labels.append('op' + case['op'])
        elif method.startswith('cardinality_') or method == 'add_parity':
            getattr(F, method)(arg, case['const'], check=case['check'])
            if method == 'cardinality_neq':
                labels.append('op!=')
        elif method == 'add_clause':
            F.add_clause(arg, check=case['check'])
        elif method == 'add_clauses_from':
            F.add_clauses_from(arg, check=case['check'])
        elif method == 'constructor':
            F = cls(arg)
            n0 = 0
        elif method == 'add_constraint':
            F.add_constraint(arg, check=case['check'])
        else:
            getattr(F, method)(arg, check=case['check'])
    except ValueError:
        if not case.get('invalid'):
            raise
        rejected = True
    after = sn.freeze(arg)
    if after != before:
        raise Violation("{}.{}({} {}, op={}, constant={}, check={}){} changed its argument: {}".format(
            cname, method, kind, lits if inner is None else arg, case.get('op'), case.get('const'), case['check'],
            ' (rejected with ValueError)' if rejected else '', "; ".join(sn.differences(before, after))))
    if rejected:
        return Outcome(labels=labels + ['rejected'], nontrivial=False, rejected=True)
    if method != 'constructor':
        head = sn.snap_formula(F)
        if head['rows'][:n0] != S0['rows'] or head['header'] != S0['header'] or head['labels'] != S0['labels']:
            raise Violation("{}.{} changed the constraints, names or header that were there before".format(cname, method))
    # the other direction: what the caller does with his lists afterwards is his business
    S1 = sn.snap_formula(F)
    touched = False
    for x in ([arg] if isinstance(arg, list) else []) + [r for r in (inner or []) if isinstance(r, list)]:
        if x and isinstance(x[0], int):
            x[0] = -x[0]
            x.append(7)
            touched = True
        elif x and isinstance(x[0], list) and x[0]:
            x[0][0] = 99
            touched = True
        else:
            x.append(5)
            touched = True
    # ... and with what the formula hands out on indexed access
    if len(F):
        r = F[len(F) - 1]
        if isinstance(r, list):
            r.append(3)
            if r and isinstance(r[0], int):
                r[0] = -r[0]
        if cname == 'CNF':
            v = F.clauses()[0]
            v.append(4)
        else:
            v = F.constraints()[0]
            v.append(4)
        labels.append('indexed-access')
    S2 = sn.snap_formula(F)
    if S2 != S1:
        raise Violation("{}.{}: the formula changed when the caller modified {} afterwards: {}".format(
            cname, method, 'his own list / a clause obtained by indexing' if touched else 'a clause obtained by indexing',
            "; ".join(sn.differences(S1, S2))))
    if touched:
        labels.append('caller-list-modified')
    L = len(lits) if inner is None else sum(len(r) for r in inner)
    if L == 0:
        labels.append('empty')
    if inner is None and len(set(lits)) < len(lits):
        labels.append('repeated-literal')
    return Outcome(labels=labels, nontrivial=L >= 2)


def _b_consts(method, L):
    if method == 'add_parity':
        return [0, 1]
    if method == 'add_linear' or method.startswith('cardinality_'):
        return list(range(-1, L + 2))
    return [None]


def enum_builders(tier):
    maxL = 3 if tier == 'quick' else 5
    for L in range(0, maxL + 1):
        for signs in itertools.product([1, -1], repeat=L):
            lits = [s * (i + 1) for i, s in enumerate(signs)]
            for cname in ('CNF', 'OPB'):
                for method in B_METHODS[:11]:
                    if cname == 'OPB' and method == 'add_linear':
                        continue
                    for op in (B_OPS if method == 'add_linear' else [None]):
                        for const in _b_consts(method, L):
                            for kind in ('list', 'tuple'):
                                for check in (True, False):
                                    yield {'cls': cname, 'method': method, 'lits': lits, 'nv': L + 1, 'container': kind,
                                           'op': op, 'const': const, 'check': check}


_LITS7 = st.lists(st.integers(1, 7).flatmap(lambda v: st.sampled_from([v, -v])), max_size=7)
_B_METH_CNF = st.sampled_from(B_METHODS[:13])
_B_METH_OPB = st.sampled_from([m for m in B_METHODS[1:] if m != 'constructor'])
_KIND = st.sampled_from(['list', 'tuple'])
_OPS = st.sampled_from(B_OPS)
_IN_OPS = st.sampled_from(OPB_IN_OPS)
_TERMS = st.lists(st.tuples(st.integers(-4, 4).filter(lambda c: c != 0),
                            st.integers(1, 7).flatmap(lambda v: st.sampled_from([v, -v]))), max_size=5)


@st.composite
def strat_builders(draw):
    cname = draw(_CLS)
    method = draw(_B_METH_CNF if cname == 'CNF' else _B_METH_OPB)
    lits = draw(_LITS7)
    case = {'cls': cname, 'method': method, 'lits': lits, 'nv': 7, 'container': draw(_KIND), 'op': None, 'const': None,
            'check': draw(_BOOL)}
    if method == 'add_linear':
        case['op'] = draw(_OPS)
    if method == 'add_parity':
        case['const'] = draw(st.integers(0, 1))
    elif method == 'add_linear' or method.startswith('cardinality_'):
        case['const'] = draw(st.integers(-2, len(lits) + 2))
    if method in ('add_clauses_from', 'constructor'):
        case['rows'] = draw(st.lists(_LITS7, max_size=4))
        case['outer'] = draw(_KIND)
        case['lits'] = []
    if method == 'add_constraint':
        case['terms'] = [list(t) for t in draw(_TERMS)]
        case['op'] = draw(_IN_OPS)
        case['const'] = draw(st.integers(-5, 9))
        case['lits'] = []
    if case['check'] and method not in ('add_constraint', 'add_clauses_from', 'constructor') and lits and draw(_ONE_IN_10):
        case['lits'] = list(lits)
        case['lits'][draw(st.integers(0, len(lits) - 1))] = 0       # an invalid literal: ValueError, and still no change
        case['invalid'] = True
    return case


# ---------------------------------------------------------------------------
# other list arguments: charges, patterns, planted assignments, explicit shuffles, ranges

LIST_WHATS = ['charges', 'pattern', 'planted-kcnf', 'planted-kxor', 'shuffle', 'ranges', 'vdw', 'edges', 'opb-constraints']
CHARGE_VALUES = {'int': lambda c: c, 'bool': lambda c: bool(c), 'float': lambda c: float(c), 'big': lambda c: c * 10 ** 20,
                 'mixed': lambda c: (c, bool(c), float(c), -c)[c % 4]}
INNER_KINDS = ('list', 'tuple', 'set', 'frozenset', 'dict')


def _inner(kind, data):
    """one planted assignment: any container that answers `literal in assignment`"""
    if kind in ('list', 'tuple'):
        return _as(kind, data)
    if kind == 'set':
        return set(data)
    if kind == 'frozenset':
        return frozenset(data)
    return {l: ['value of', l] for l in data}


def _outer(kind, rows):
    if kind == 'dict':                  # iterating a dictionary hands out its keys: the assignments are the (hashable) keys
        return {(r if isinstance(r, (tuple, frozenset)) else tuple(r)): ['note', i] for i, r in enumerate(rows)}
    return _as(kind, rows)


def run_lists(case):
    import cnfgen
    from cnfgen.graphs import bipartite_shift
    what, kind = case['what'], case['container']
    labels = [what, kind]
    watch = []
    rejected = False

    def keep(name, obj):
        watch.append((name, obj, sn.freeze(obj), 'value'))
        return obj
    random.seed(case['rseed'])
    try:
        if what == 'charges':
            G = sn.build_graph('simple', case['G'])
            SG = sn.snap_graph(G)
            conv = CHARGE_VALUES[case.get('values', 'bool' if case.get('bools') else 'int')]
            charges = keep('charges', _as(kind, [conv(c) for c in case['data']]))
            labels.append('charges-' + case.get('values', 'bool' if case.get('bools') else 'int'))
            if case['G'].get('nx') is not None:
                labels.append('charges-nx-foreign')
            cnfgen.TseitinFormula(G, charges, formula_class=_cls(case['cls']))
            if sn.snap_graph(G) != SG:
                raise Violation("TseitinFormula modified its graph: {}".format("; ".join(sn.differences(SG, sn.snap_graph(G)))))
            n = case['G']['n']
            labels.append('charges-short' if len(charges) < n else ('charges-long' if len(charges) > n else 'charges-exact'))
        elif what == 'pattern':
            pattern = keep('pattern', _as(kind, case['data']))
            B = bipartite_shift(case['N'], case['M'], pattern)
            B.name = 'renamed afterwards'
            if case['M'] >= 2:
                B.add_edge(1, 1)
                B.add_edge(1, 2)
            if pattern != sorted(pattern):
                labels.append('pattern-unsorted')
        elif what in ('planted-kcnf', 'planted-kxor'):
            inner = case.get('inner', kind)
            if case['outer'] == 'dict' and inner not in ('tuple', 'frozenset'):
                inner = 'tuple'                       # keys of a dictionary
            planted = keep('planted_assignments', _outer(case['outer'], [_inner(inner, a) for a in case['data']]))
            labels += ['planted-inner-' + inner, 'planted-outer-' + case['outer']]
            f = cnfgen.RandomKCNF if what == 'planted-kcnf' else cnfgen.RandomKXOR
            f(case['k'], case['n'], case['m'], seed=case['rseed'], planted_assignments=planted, formula_class=_cls(case['cls']))
            if planted:
                labels.append('planted-nonempty')
            if any(list(a) != sorted(a, key=abs) for a in case['data']):
                labels.append('planted-not-in-variable-order')
        elif what == 'shuffle':
            F = build_formula({'kind': 'hand', 'groups': [['anon', case['n']]], 'clauses': case['clauses'], 'desc': None})
            SF = sn.snap_formula(F)
            flips = keep('polarity_flips', _as(kind, case['flips']))
            perm = keep('variables_permutation', _as(kind, case['perm']))
            cperm = keep('clauses_permutation', _as(kind, case['cperm']))
            try:
                cnfgen.Shuffle(F, polarity_flips=flips, variables_permutation=perm, clauses_permutation=cperm)
            finally:
                if sn.snap_formula(F) != SF:
                    raise Violation("Shuffle with explicit arguments modified its input formula: {}".format(
                        "; ".join(sn.differences(SF, sn.snap_formula(F)))))
        elif what == 'ranges':
            F = _cls(case['cls'])()
            ranges = keep('ranges', _as(kind, case['data']))
            g = F.new_block(*ranges, label=case['label'])
            _use_group(g)
            list(F.all_variable_labels())
        elif what == 'vdw':
            ks = keep('ks', _as(kind, case['data']))
            cnfgen.VanDerWaerden(case['N'], *ks, formula_class=_cls(case['cls']))
        elif what == 'edges':
            # a nested list/tuple of pairs handed to a graph object of the package
            from cnfgen.graphs import Graph, DirectedGraph, BipartiteGraph
            G = {'simple': Graph, 'digraph': DirectedGraph}[case['gkind']](case['n']) if case['gkind'] != 'bipartite' \
                else BipartiteGraph(case['n'], case['n'])
            pairs = keep('edges', _as(case['outer'], [_as(kind, e) for e in case['data']]))
            G.add_edges_from(pairs)
            for e in pairs:
                G.has_edge(*e)
            list(G.edges())
            check_watch(watch, "{}.add_edges_from({})".format(type(G).__name__, case['data']))
            SG = sn.snap_graph(G)
            # the other direction: the caller's pairs are his
            changed = False
            for e in pairs:
                if isinstance(e, list):
                    e[0], e[1] = e[1] + 1, e[0] + 1
                    e.append(0)
                    changed = True
            if isinstance(pairs, list):
                pairs.append([1, 1])
                changed = True
            if changed:
                if sn.snap_graph(G) != SG:
                    raise Violation("{} object changed when the caller modified the list of pairs he had passed to add_edges_from: {}".format(
                        type(G).__name__, "; ".join(sn.differences(SG, sn.snap_graph(G)))))
                watch.pop()                   # the argument was changed by the harness from here on
                labels.append('caller-pairs-modified')
            labels.append('edges-' + case['gkind'])
        elif what == 'opb-constraints':
            from cnfgen.formula.opb import OPB
            F = OPB()
            F.update_variable_number(7)
            rows = []
            for terms, op, const in case['data']:
                row = [_as(kind, t) for t in terms] + [op, const]
                rows.append(row)                 # documented as a list: pairs, then relation and constant
            arg = keep('constraints', _as(case['outer'], rows))
            F.add_constraints_from(arg, check=case['check'])
            check_watch(watch, "OPB.add_constraints_from({}, check={})".format(case['data'], case['check']))
            SF = sn.snap_formula(F)
            changed = False
            for row in rows:
                for t in row[:-2]:
                    if isinstance(t, list):
                        t[0] += 1
                        changed = True
                if isinstance(row, list):
                    row[-1] = 77
                    changed = True
            if changed:
                if sn.snap_formula(F) != SF:
                    raise Violation("OPB formula changed when the caller modified the constraints he had passed to add_constraints_from: {}".format(
                        "; ".join(sn.differences(SF, sn.snap_formula(F)))))
                watch.pop()
                labels.append('caller-constraints-modified')
        else:
            raise RuntimeError("harness: " + what)
    except ValueError:
        if not case.get('maybe_invalid'):
            raise
        rejected = True
    check_watch(watch, "the call {}{}".format(
        {k: v for k, v in case.items() if k not in ('rseed',)}, ' (which was rejected with ValueError)' if rejected else ''))
    if rejected:
        labels.append('rejected')
    size = len(case.get('data', case.get('perm', [])))
    return Outcome(labels=labels, nontrivial=size >= 2 and not rejected, rejected=rejected)


_OFFS = st.lists(st.integers(-3, 9), max_size=5)
_CHARGE_VALUES = st.sampled_from(sorted(CHARGE_VALUES))
_INNER = st.sampled_from(INNER_KINDS)
_GKIND = st.sampled_from(['simple', 'digraph', 'bipartite'])
_PAIRS = st.lists(st.tuples(st.integers(1, 5), st.integers(1, 5)), max_size=6)
_OPB_ROWS = st.lists(st.tuples(_TERMS, _IN_OPS, st.integers(-5, 9)), max_size=4)
_WHAT = st.sampled_from(LIST_WHATS)


@st.composite
def strat_lists(draw):
    what = draw(_WHAT)
    case = {'what': what, 'container': draw(_KIND), 'rseed': draw(_SEED), 'cls': draw(_CLS)}
    if what == 'charges':
        g = dict(draw(_SG))
        g['as'] = draw(_AS)
        if g['as'] == 'networkx':
            g['labels'] = draw(_STYLE)
            if draw(_BOOL):
                g['nx'] = draw_nx(draw)
                g['labels'] = g['nx']['labels']
        case['G'] = g
        case['data'] = draw(st.lists(st.integers(0, 3), max_size=7))
        case['values'] = draw(_CHARGE_VALUES)
    elif what == 'pattern':
        case['N'] = draw(st.integers(1, 5))
        case['M'] = draw(st.integers(1, 6))
        case['data'] = draw(_OFFS)
    elif what in ('planted-kcnf', 'planted-kxor'):
        n = draw(st.integers(3, 6))
        k = draw(st.integers(1, 3))
        case.update(n=n, k=k, m=draw(st.integers(0, 5)), outer=draw(_KIND))
        nass = draw(st.integers(0, 2))
        data = []
        for _ in range(nass):
            bits = draw(st.integers(0, 2 ** n - 1))
            a = [(v if (bits >> (v - 1)) & 1 else -v) for v in range(1, n + 1)]
            if what == 'planted-kcnf' and draw(_BOOL):
                a = a[:draw(st.integers(1, n))]                       # partial assignment
            if draw(_BOOL):
                a = list(draw(st.permutations(a)))                    # literals in any order
                if draw(_ONE_IN_3):
                    a.append(a[draw(st.integers(0, len(a) - 1))])    # one literal listed twice
            data.append(a)
        case['data'] = data
        case['inner'] = draw(_INNER)
        if draw(_ONE_IN_3):
            case['outer'] = 'dict'
        case['maybe_invalid'] = True                                  # not enough clauses/parities left
    elif what == 'shuffle':
        n = draw(st.integers(0, 5))
        clauses = draw(st.lists(st.lists(_LIT, max_size=3), max_size=5))
        case.update(n=n, clauses=clauses)
        case['flips'] = sn.derived_flips(draw(_SEED), n)
        case['perm'] = sn.derived_permutation(draw(_SEED), n, 1)
        case['cperm'] = sn.derived_permutation(draw(_SEED), len(clauses), 0)
        bad = draw(st.sampled_from([0, 1, 2] + [9] * 9))
        if bad == 0 and n:
            case['perm'][0] = case['perm'][-1]                        # not a permutation
            case['maybe_invalid'] = True
        elif bad == 1 and n:
            case['flips'][0] = 0
            case['maybe_invalid'] = True
        elif bad == 2:
            case['cperm'] = case['cperm'] + [len(clauses)]
            case['maybe_invalid'] = True
    elif what == 'ranges':
        data = draw(st.lists(st.integers(0, 3), min_size=1, max_size=3))
        case['data'] = data
        case['label'] = 'r_{{' + ','.join(['{}'] * len(data)) + '}}'
    elif what == 'edges':
        n = draw(st.integers(2, 5))
        gkind = draw(_GKIND)
        pairs = [((u - 1) % n + 1, (v - 1) % n + 1) for u, v in draw(_PAIRS)]
        if gkind != 'bipartite':
            pairs = [p for p in pairs if p[0] != p[1]]
        case.update(n=n, gkind=gkind, data=[list(p) for p in pairs], outer=draw(_KIND))
    elif what == 'opb-constraints':
        rows = draw(_OPB_ROWS)
        case['data'] = [[[list(t) for t in terms], op, const] for terms, op, const in rows]
        case.update(outer=draw(_KIND), check=draw(_BOOL))
    else:
        case['N'] = draw(st.integers(0, 7))
        case['data'] = draw(st.lists(st.integers(1, 4), min_size=2, max_size=4))
    return case


SUBCHECKS = [
    SubCheck('transform', run_transform, strategy=strat_transform, quick=6000, thorough=200000,
             rule="hand-made CNFs (0..4 variable groups with names containing braces, 0..10 clauses of width <=4, custom header entries, 0..2 - in a fifth of the cases up to 19 - earlier 'transformation i' entries) and small family instances x chains of 1..4 steps (a tenth of the cases: 9..14 cheap steps, so that step numbers get two digits; a third of the cases: one or two header entries of the user's own inserted into the formula held between two steps, after which the latest step is no longer the last entry) over every exported substitution (arity 1..3), ite, lift, flip, xor/maj compression with an explicit bipartite graph (cnfgen and networkx) and Shuffle with 'fixed'/'shuffle'/list/tuple arguments; at most one clause-expanding step unless the formula is tiny, steps over the clause cap are not applied; oracle: snapshot of every earlier formula identical after each step, new object, no shared header/clause objects, header = input header (description contained) + next 'transformation i', mutation of result/inputs afterwards does not leak; non-trivial: input with >=2 clauses and >=1 applied step",
             required_labels=TRANSFORM_LABELS),
    SubCheck('cli', run_cli, strategy=strat_cli, quick=900, thorough=40000,
             rule="18 family command lines x 1..4 '-T' steps (all transformations of the tool incl. none, shuffle flags, compression 'N d') x dimacs/opb, in-process; oracle: comment lines 'transformation 1..t' consecutive and in order, equal to the header of the formula object of the same command line and to the entries recorded by the same chain of library calls; description line contains the family's description; non-trivial: >=1 real step on a formula with >=2 clauses",
             required_labels=['none', 'shuffle', 'flip', 'xor', 'lift', 'ite', 'xorcomp', 'majcomp', 'dimacs', 'opb', 'chain>=3',
                              'library-compared', 'chain1', 'chain2']),
    SubCheck('graphs', run_graphs, strategy=strat_graphs, enumerate_cases=enum_graphs, quick=4000, thorough=200000,
             rule="every public family/transformation with a graph parameter (checked by introspection against the model table and the catalogue), the four graph-based variable group constructors and the graph builders (from_networkx / normalize of Graph, DirectedGraph, BipartiteGraph; normalize_networkx_labels; to_networkx) x cnfgen objects and networkx objects x CNF/OPB; graphs with 0..5 vertices incl. empty and edgeless. A networkx argument is generated along every aspect its owner can observe (enumerated one value at a time from two base objects for every call, and drawn freely): 'bipartite' sides spelled as int / '0','1' strings / bool / mixed per node; nodes and edges inserted in natural / reversed / shuffled / interleaved order with either endpoint first; class Graph|DiGraph, a user subclass with an instance attribute, a multigraph with a parallel edge, a frozen graph; labels int, shifted int, strings, digit strings, tuples, mixed int/str (unsortable), negative ints; no / flat / nested attributes on nodes, edges and graph (lists, dicts, tuples, None, floats, non-string keys, a 'bipartite' key where the library does not look for it, the side not the first key); name set / absent / empty. Oracle: deep type-aware snapshot (class, node order, attribute dictionaries key by key in order with value types, edge order and keys, adjacency and predecessor order, graph attributes, frozen flag, instance attributes) identical after the call, also when the call ends in ValueError, and still identical after the returned graph object has been renamed / grown / re-attributed by the caller; a builder never returns its networkx argument; non-trivial: >=2 edges and not rejected",
             required_labels=sorted(GRAPH_CALLS) + ['cnfgen', 'networkx', 'CNF', 'OPB', 'rejected', 'nx-foreign', 'result-changed', 'returned-as-is'] +
             ['nx-' + s for s in sn.NX_LABELS] +
             ['nx-{}-{}'.format(d, v) for d, vs in sn.NX_DIMENSIONS if d != 'labels' for v in vs]),
    SubCheck('builders', run_builders, strategy=strat_builders, enumerate_cases=enum_builders, quick=3000, thorough=150000,
             rule="all sign patterns of 0..3 (thorough 0..5) literals x every builder of CNF and OPB (add_linear with six operators, cardinality_*, majorities, add_parity, add_clause) x constant -1..L+1 x list/tuple x check, enumerated; Hypothesis adds repeated literals, add_clauses_from/constructor with nested lists, OPB.add_constraint, invalid literals (ValueError expected); oracle: argument element-wise and type-wise identical after the call, earlier constraints intact, modifying the caller's list or an indexed clause afterwards leaves the formula intact; non-trivial: >=2 literals",
             required_labels=B_METHODS + ['CNF', 'OPB', 'list', 'tuple', 'op!=', 'op<', 'op>', 'op==', 'op<=', 'op>=',
                                          'caller-list-modified', 'indexed-access', 'rejected', 'repeated-literal', 'empty']),
    SubCheck('lists', run_lists, strategy=strat_lists, quick=4000, thorough=150000,
             rule="charges of TseitinFormula (short/exact/long; ints, bools, floats, integers beyond 64 bits, mixed; list/tuple; cnfgen graph and networkx graph incl. the foreign-object dimensions of the `graphs` sub-check), pattern of bipartite_shift (list/tuple; unsorted, repeated, negative offsets; the returned graph is changed afterwards), planted assignments of RandomKCNF/RandomKXOR (literals in variable order or in any order, sometimes one listed twice; outer list/tuple/dict-with-assignments-as-keys x inner list/tuple/set/frozenset/dict keyed by literal with list values), explicit flips/permutations of Shuffle (valid and invalid), ranges of new_block, lengths of VanDerWaerden, nested pair lists of add_edges_from on Graph/DirectedGraph/BipartiteGraph (list/tuple x list/tuple) and nested constraint lists of OPB.add_constraints_from (list/tuple of constraint lists of list/tuple pairs); oracle: argument deep-identical (element values, element types, container types, dictionary order) after the call, also after a ValueError, and for the two nested kinds the graph/formula is unchanged when the caller rewrites his inner lists afterwards; non-trivial: >=2 elements and not rejected",
             required_labels=LIST_WHATS + ['list', 'tuple', 'pattern-unsorted', 'planted-nonempty', 'planted-not-in-variable-order', 'charges-short', 'charges-long',
                                           'charges-exact', 'rejected', 'charges-nx-foreign', 'caller-pairs-modified',
                                           'caller-constraints-modified', 'planted-outer-dict', 'edges-simple', 'edges-digraph',
                                           'edges-bipartite'] + ['charges-' + v for v in sorted(CHARGE_VALUES)] +
             ['planted-inner-' + k for k in INNER_KINDS]),
]
