"""C06 - DIMACS output round-trips and the DIMACS reader never misreads.

Sub-checks
----------
writer  formulas (hand-built / library families + transformation chains / the cnfgen tool
        in-process) written through every DIMACS output path, with header entries and
        variable labels made of unusual text.  The output is read by the independent
        strict reader (vlib/rd_dimacs.py) and by the tree's own reader.
reader  arbitrary text (grammar of DIMACS-like documents + mutators, raw text) given to
        parse_dimacs / CNF.from_file(StringIO) / CNF.from_file(filename) / `cnfgen dimacs`;
        oracle = reference interpretation with an explicit gray class.
fuzz    the texts of tests/test_dimacsparser.py (both tiers) and, thorough tier only,
        coverage-guided atheris campaigns with the same oracle inside the fuzz target.
writer  also holds the *history* cases (kind=history): one formula object encoded, changed,
        encoded again ... against the harness's own model of the object (_run_history).
writer  also holds the *destination* cases (kind=dest): an explicit format request crossed with destinations whose
        NAME suggests another format (file names, open handles, user objects with a .name; library and tools' -o).
reader  also holds the *byte level* cases (cases with 'data', run_reader_bytes): files that are not clean UTF-8
        text (invalid bytes, BOMs, NULs, Latin-1 letters, cut multi-byte sequences inside comments, the problem line
        and the clause lines) given BY NAME to CNF.from_file / cnfgen dimacs / cnfshuffle -i, and through handles
        the caller opened with 14 encoding/error-handler pairs; the real programs under a UTF-8 and an ASCII locale.
reader  also holds the *trail* cases (byte cases with 'trail': lines of lone punctuation after the last clause) and
        the *stream* cases (cases with 'stream', run_reader_stream): seekable streams and the tools' standard input
        handed over at a position other than 0.
writer_large  large instances: formulas around the usual buffer sizes through the writers, and
        DIMACS texts of 1..4 MiB in every alignment with the powers of two through the readers
        (run_reader_big).
"""
import gc
import hashlib
import io
import json
import math
import os
import random
import shutil
import subprocess
import sys
import tempfile

from hypothesis import strategies as st

from vlib.core import SubCheck, Violation, Outcome, VERIF_DIR, REPO
from vlib import rd_dimacs as rd

PROPERTY = "C06"
ASSUMPTIONS = [
    "reference reading: lines end at LF (CRLF tolerated), blanks are space/tab, a line whose first non-blank character is 'c' is a comment, one 'p cnf n m' line before all clause tokens, tokens are 0 | -?[1-9][0-9]* and are cut at zeros",
    "gray (either ValueError or the permissive reading is accepted): integer spellings only Python's int() takes (+3, 1_0, 007, -0, non-ASCII digits, more than 18 digits), white space other than space/tab/LF/CRLF (lone CR, VT, FF, NBSP, Unicode separators - also as alternative line boundaries), a 4-field problem line whose first two fields are not exactly 'p cnf', clause tokens in front of the problem line",
    "comment lines of the writer are 'c' alone or begin with 'c ' (the mechanism named in the property); with export_header=False and export_varnames=False (-q, to_dimacs()) the output has no comment line",
    "the true variable/clause counts of a written formula are number_of_variables() and the clause list observed through the public API immediately before writing",
    "text files are UTF-8; text that cannot be encoded (lone surrogates) is only fed through StringIO",
    "a file given by name whose bytes are not valid UTF-8 may be refused (even when the damage is inside a comment) or read through any strict decoder of a usual encoding (utf-8, utf-8-sig, latin-1, cp1252, ascii, the locale's; utf-16/32 with BOM); a reading that no strict decoding of the bytes supports is a misreading. A handle opened by the caller carries the caller's choice of encoding and error handler: the reference reading is the one of the text that handle delivers (errors='ignore' chosen by the caller may glue digits - that is then the text)",
    "cnfshuffle -q -p -v -c (no polarity flips, no permutations) returns the formula it read",
    "stream cases: the reader reads from the CURRENT position of the stream it is handed (file objects, and the standard input of the tools when it is a regular file the caller has read from): what is in front of the position is the caller's business - the reference reading is the one of the text from the position to the end; the caller positions text streams by tell()/seek(), readline() or read(k) only, and an inherited descriptor by unbuffered reads",
    "trail cases: a line made of '%' alone is not an end-of-data mark of the format the tree documents (the SATLIB habit is not adopted): it is a token that is not an integer, so the text is refused; whatever the reader does with such lines, it must not return fewer clauses than the text closes",
    "the cnfgen tool is run in-process (cli()), stdout captured; CLIError is the tool-level form of the reader's ValueError",
    "transformation chains contain at most one substitution of arity 2, so sizes are bounded by construction",
]

TMPBASE = os.path.join(VERIF_DIR, "out", "tmp")
LINEBREAKS = ('\n', '\r')


class _Buf(io.StringIO):
    def close(self):          # the tools may close what they are given
        pass


class _Chunks(list):
    """a chunk collector: a legal destination (it has write) that is falsy as long as nothing was written"""
    write = list.append

    def getvalue(self):
        return ''.join(self)


class _WriteOnly:
    """the least a destination can be: an object with write() and nothing else"""

    def __init__(self):
        self._parts = []

    def write(self, text):
        self._parts.append(text)
        return len(text)

    def getvalue(self):
        return ''.join(self._parts)


def _tmpdir():
    os.makedirs(TMPBASE, exist_ok=True)
    return tempfile.mkdtemp(prefix="c06-", dir=TMPBASE)


def _reset_cli_state():
    import cnfgen.clitools.msg as msg
    msg._prefix = ''


def _run_cli(argv, mode, stdin_text=None):
    """In-process run of the cnfgen tool. Returns (result, captured stdout)."""
    from cnfgen.clitools.cnfgen import cli
    _reset_cli_state()
    old_out, old_in = sys.stdout, sys.stdin
    buf = _Buf()
    sys.stdout = buf
    if stdin_text is not None:
        sys.stdin = io.StringIO(stdin_text)
    try:
        res = cli(argv, mode=mode)
    finally:
        sys.stdout, sys.stdin = old_out, old_in
        _reset_cli_state()
    return res, buf.getvalue()


def _snapshot(F):
    return F.number_of_variables(), [list(c) for c in F]


# ---------------------------------------------------------------------------
# (a) writer

def _esc(text):
    return text.replace('{', '{{').replace('}', '}}')


def _family(case):
    import cnfgen
    from cnfgen.graphs import Graph
    name, p = case['family'], case['params']
    if name == 'php':
        return cnfgen.PigeonholePrinciple(p[0], p[1], functional=bool(p[2]), onto=bool(p[3]))
    if name == 'op':
        return cnfgen.OrderingPrinciple(p[0], total=bool(p[1]))
    if name == 'count':
        return cnfgen.CountingPrinciple(p[0], p[1])
    if name == 'tseitin':
        return cnfgen.TseitinFormula(Graph.complete_graph(p[0]))
    if name == 'kcolor':
        return cnfgen.GraphColoringFormula(Graph.complete_graph(p[0]), p[1])
    if name == 'vdw':
        return cnfgen.VanDerWaerden(p[0], p[1], p[2])
    if name == 'randkcnf':
        return cnfgen.RandomKCNF(p[0], p[1], p[2], seed=case['rseed'])
    if name == 'ram':
        return cnfgen.RamseyNumber(p[0], p[1], p[2])
    raise KeyError(name)


def _apply_chain(F, chain):
    import cnfgen
    for op in chain:
        if op[0] == 'flip':
            F = cnfgen.FlipPolarity(F)
        elif op[0] == 'shuffle':
            F = cnfgen.Shuffle(F)
        elif op[0] == 'xor':
            F = cnfgen.XorSubstitution(F, op[1])
        elif op[0] == 'or':
            F = cnfgen.OrSubstitution(F, op[1])
        elif op[0] == 'lift':
            F = cnfgen.FormulaLifting(F, op[1])
        elif op[0] == 'eq':
            F = cnfgen.AllEqualSubstitution(F, op[1])
        else:
            raise KeyError(op[0])
    return F


def _build(case):
    from cnfgen import CNF
    random.seed(case.get('rseed', 0))
    if case['kind'] == 'hand':
        F = CNF()
        for v in case['vars']:
            if v[0] == 'var':
                F.new_variable(label=v[1])
            elif v[0] == 'block':
                F.new_block(v[1], v[2], label=_esc(v[3]) + '[{},{}]')
            else:
                F.update_variable_number(F.number_of_variables() + v[1])
        for c in case['clauses']:
            F.add_clause(c)
    else:
        F = _family(case)
    F = _apply_chain(F, case.get('chain', []))
    for k, v in case.get('header', []):
        F.header[k] = v
    return F


def _render_independent(n, clauses):
    return 'p cnf {} {}\n'.format(n, len(clauses)) + ''.join(
        ' '.join(str(l) for l in c + [0]) + '\n' for c in clauses)


def _has_linebreak(x):
    return isinstance(x, str) and any(b in x for b in LINEBREAKS)


def _exports_linebreak(case, header_on, varnames_on):
    """Does the case put a CR/LF into a text that ends up in a comment?"""
    if header_on:
        for k, v in case.get('header', []):
            if _has_linebreak(k) or _has_linebreak(v):
                return True
        if _has_linebreak(case.get('fname')):
            return True
    if varnames_on:
        for v in case.get('vars', []):
            if v[0] == 'var' and _has_linebreak(v[1]):
                return True
            if v[0] == 'block' and _has_linebreak(v[3]):
                return True
    return False


def _verify_output(text, n, clauses, header_on, varnames_on, case, what, path=None):
    from cnfgen import CNF
    sig = 'newline-in-comment' if _exports_linebreak(case, header_on, varnames_on) else None
    s = rd.interpret(text, **rd.STRICT)
    if not s.ok:
        bad = rd.first_offending_line(text)
        bad = '' if bad is None else '; offending line {!r}'.format(bad[:60])
        raise Violation("{}: the strict reader rejects the DIMACS output ({}: {}){}; output starts {!r}".format(
            what, s.reason, s.detail, bad, text[:160]), signature=sig)
    if s.n != n or s.m != len(clauses):
        raise Violation("{}: problem line states {} variables / {} clauses, the formula has {} / {}".format(
            what, s.n, s.m, n, len(clauses)), signature=None)
    if s.clauses != clauses:
        i = next(i for i, (a, b) in enumerate(zip(s.clauses, clauses)) if a != b)
        raise Violation("{}: clause #{} written as {} but the formula has {}".format(
            what, i, s.clauses[i], clauses[i]))
    ncomments = 0
    lines = text.split('\n')
    if lines[-1] == '':
        lines.pop()
    for ln in lines:
        if ln.strip() == '':
            raise Violation("{}: blank line in the output (neither comment, problem line nor clause)".format(what),
                            signature=sig)
        if ln[:1] == 'c':
            ncomments += 1
            if not (ln.rstrip('\r') == 'c' or ln.startswith('c ')):
                raise Violation("{}: comment line {!r} does not start with 'c '".format(what, ln[:60]), signature=sig)
    if not header_on and not varnames_on and ncomments:
        raise Violation("{}: {} comment lines although header and variable names were switched off".format(
            what, ncomments))
    # the tree's own reader
    sources = [('CNF.from_file(StringIO)', lambda: CNF.from_file(io.StringIO(text)))]
    if path is not None:
        sources.append(('CNF.from_file(filename)', lambda: CNF.from_file(path)))
    for name, read in sources:
        try:
            G = read()
        except ValueError as e:
            raise Violation("{}: {} refuses the output of the writer: {}; output starts {!r}".format(
                what, name, e, text[:160]), signature=sig)
        gn, gc_ = _snapshot(G)
        if gn != n or gc_ != clauses:
            raise Violation("{}: {} reads back {} variables and clauses {}..., written formula had {} and {}...".format(
                what, name, gn, gc_[:6], n, clauses[:6]))
    return ncomments


def _text_labels(case):
    labels = set()
    texts = []
    for k, v in case.get('header', []):
        texts += [k, v]
    for v in case.get('vars', []):
        if v[0] == 'var':
            texts.append(v[1])
        elif v[0] == 'block':
            texts.append(v[3])
    if case.get('fname') is not None:
        texts.append(case['fname'])
    for t in texts:
        if not isinstance(t, str):
            labels.add('text-nonstring')
            continue
        if t == '':
            labels.add('text-empty')
        if '\n' in t:
            labels.add('text-lf')
        if '\r' in t:
            labels.add('text-cr')
        if any(ord(ch) > 127 for ch in t):
            labels.add('text-nonascii')
        if 'p cnf' in t:
            labels.add('text-problem-line')
        if t[:1] == 'c':
            labels.add('text-leading-c')
    return labels


def _encode(F, via, header_on, varnames_on, path=None):
    """One DIMACS encoding of F.  -> (text, header_on, varnames_on) with the flags as they apply."""
    if via == 'to_dimacs':
        return F.to_dimacs(), False, False
    if via == 'strio':
        buf = _Buf()
        F.to_file(buf, export_header=header_on, export_varnames=varnames_on)
        text = buf.getvalue()
    elif via == 'strio-explicit':
        buf = _Buf()
        F.to_file(buf, fileformat='dimacs', export_header=header_on, export_varnames=varnames_on)
        text = buf.getvalue()
    elif via == 'to_dimacs_file':
        from cnfgen.utils.parsedimacs import to_dimacs_file
        buf = _Buf()
        to_dimacs_file(F, buf, export_header=header_on, export_varnames=varnames_on)
        text = buf.getvalue()
    elif via in ('sink-falsy', 'sink-writeonly'):
        buf = _Chunks() if via == 'sink-falsy' else _WriteOnly()
        old = sys.stdout
        leak = _Buf()
        sys.stdout = leak
        try:
            F.to_file(buf, fileformat='dimacs', export_header=header_on, export_varnames=varnames_on)
        finally:
            sys.stdout = old
        if leak.getvalue():
            raise Violation("the formula was written to a user-defined destination ({}) but {} characters went to the standard output".format(
                type(buf).__name__, len(leak.getvalue())))
        text = buf.getvalue()
    elif via == 'handle':
        with open(path, 'w', encoding='utf-8', newline='') as fh:
            F.to_file(fh, fileformat='dimacs', export_header=header_on, export_varnames=varnames_on)
        with open(path, encoding='utf-8', newline='') as f:
            text = f.read()
    elif via == 'stdout':
        old = sys.stdout
        buf = _Buf()
        sys.stdout = buf
        try:
            F.to_file(None, export_header=header_on, export_varnames=varnames_on)
        finally:
            sys.stdout = old
        text = buf.getvalue()
    elif via == 'file':
        F.to_file(path, export_header=header_on, export_varnames=varnames_on)
        with open(path, encoding='utf-8', newline='') as f:
            text = f.read()
    else:
        raise KeyError(via)
    return text, header_on, varnames_on


def run_writer(case):
    kind = case['kind']
    labels = {'kind-' + kind}
    if kind == 'cli':
        return _run_writer_cli(case, labels)
    if kind == 'history':
        return _run_history(case, labels)
    if kind == 'dest':
        return _run_dest(case, labels)
    F = _build(case)
    n, clauses = _snapshot(F)
    via = case['via']
    header_on, varnames_on = bool(case['export_header']), bool(case['export_varnames'])
    what = "{} formula via {} (header={}, varnames={})".format(kind, via, header_on, varnames_on)
    tmp = None
    path = None
    try:
        if via in ('file', 'handle'):
            tmp = _tmpdir()
            path = os.path.join(tmp, case.get('fname') or 'formula.cnf')
        text, header_on, varnames_on = _encode(F, via, header_on, varnames_on, path)
        if _snapshot(F) != (n, clauses):
            raise Violation("{}: writing changed the formula".format(what))
        ncomments = _verify_output(text, n, clauses, header_on, varnames_on, case, what, path=path)
    finally:
        if tmp is not None:
            shutil.rmtree(tmp, ignore_errors=True)
    labels |= _text_labels(case)
    labels.add('via-' + via)
    labels.add('header-on' if header_on else 'header-off')
    labels.add('varnames-on' if varnames_on else 'varnames-off')
    return _writer_outcome(labels, n, clauses, header_on, case)


def _writer_outcome(labels, n, clauses, header_on, case):
    used = {abs(l) for c in clauses for l in c}
    unused = n - len(used)
    if n == 0 and not clauses:
        labels.add('empty-formula')
    if any(len(c) == 0 for c in clauses):
        labels.add('empty-clause')
    if unused:
        labels.add('unused-vars')
    if case.get('chain'):
        labels.add('chain')
    if len(clauses) >= 20:
        labels.add('clauses>=20')
    return Outcome(labels=sorted(labels), nontrivial=len(clauses) >= 1 and (header_on or unused >= 1))


def _run_writer_cli(case, labels):
    base = [str(a) for a in case['argv']]
    flags = list(case['flags'])
    header_on = '-q' not in flags
    varnames_on = '--varnames' in flags
    tmp = _tmpdir()
    path = None
    try:
        truth = None
        if base and base[0] == 'dimacs':
            # a hand-written formula in a file whose name is unusual text
            n0, cl0 = case['n'], [list(c) for c in case['clauses']]
            src = os.path.join(tmp, case['fname'])
            with open(src, 'w', encoding='utf-8', newline='') as f:
                f.write(_render_independent(n0, cl0))
            base = ['dimacs', src] + base[1:]
            if '-T' not in base:
                truth = (n0, cl0)
        seed = ['--seed', str(case['rseed'])]
        random.seed(case['rseed'])
        F, _ = _run_cli(['cnfgen'] + seed + base, 'formula')
        n, clauses = _snapshot(F)
        if truth is not None and truth != (n, clauses):
            raise Violation("cnfgen dimacs: file with {} variables, clauses {} read as {} variables, clauses {}".format(
                truth[0], truth[1][:6], n, clauses[:6]))
        argv = ['cnfgen'] + seed + flags
        if case['out'] == 'file':
            path = os.path.join(tmp, 'out.cnf')
            argv += ['-o', path]
        argv += base
        random.seed(case['rseed'])
        _, captured = _run_cli(argv, 'output')
        what = "cnfgen {} -> {}".format(' '.join(argv[1:])[:120], case['out'])
        if case['out'] == 'file':
            gc.collect()       # the tool never closes its argparse.FileType handle: flush it
            if captured != '':
                raise Violation("{}: {} characters on stdout although -o was given".format(what, len(captured)))
            with open(path, encoding='utf-8', newline='') as f:
                text = f.read()
        else:
            text = captured
        _verify_output(text, n, clauses, header_on, varnames_on, case, what, path=path)
    finally:
        shutil.rmtree(tmp, ignore_errors=True)
    labels |= _text_labels(case)
    labels.add('via-cli-' + case['out'])
    labels.add('header-on' if header_on else 'header-off')
    labels.add('varnames-on' if varnames_on else 'varnames-off')
    labels.add('cli-' + base[0])
    if '-T' in base:
        labels.add('chain')
    return _writer_outcome(labels, n, clauses, header_on, {})


# ---- (a'') explicit format request x name of the destination (kind=dest)

DEST_NAMES = ['f.cnf', 'f.dimacs', 'f.txt', 'f.gml', 'noext', 'f.opb', 'f.tex', 'a.tex.cnf', 'a.opb.cnf', 'a.cnf.opb',
              'a.cnf.tex', 'a.opb.tex', 'a.tex.opb', 'F.OPB', 'F.TEX', 'f.Opb', 'f.teX', 'F.CNF', '.opb', '.tex', 'f.opb.',
              'f.tex ', 'opb', 'tex', 'f.opbx', 'f.latex', 'd.opb/plain', 'd.tex/h.cnf', 'd.cnf/g.opb', 'a b.opb', 'é.tex']
DEST_LIB_PATHS = ['to_file-name', 'to_file-handle', 'to_file-handle-bytes', 'to_file-handle-fd', 'to_file-object',
                  'to_file-strio-named', 'to_dimacs_file-name', 'to_dimacs_file-handle', 'to_dimacs_file-object']
DEST_TOOL_PATHS = ['cnfgen', 'cnfshuffle', 'kthlist2pebbling']
DEST_NAMEOBJ = ['str', 'abs', 'bytes', 'int', 'none', 'list', 'missing']     # the .name of a user-defined destination
DEST_REQUESTS = [None, 'dimacs', 'opb', 'latex']
DEST_CLI = [['php', 3, 2], ['op', 3], ['and', 2, 1], ['or', 0, 3], ['true'], ['false'], ['peb', 'pyramid', 1],
            ['php', 2, 2, '-T', 'xor', 2]]
DEST_OSPELL = ['-o', '--output', '--output=', '-o-glued']
DEST_OFSPELL = ['-of', '--output-format', '--output-format=', 'flag']


class _NamedSink:
    """a user-defined destination: write() and a `name` attribute the user chose"""

    def __init__(self, *name):
        self._parts = []
        if name:
            self.name = name[0]

    def write(self, text):
        self._parts.append(text)
        return len(text)

    def getvalue(self):
        return ''.join(self._parts)


def _name_suggests(name):
    """-> (format the name suggests | None, documented?)  The documented guess: without a request the output is DIMACS
    unless the file name ends with '.tex' or '.opb' (lower case, something in front of the dot)."""
    if isinstance(name, bytes):
        try:
            return _name_suggests(name.decode('utf-8'))[0], False
        except UnicodeDecodeError:
            return None, False
    if not isinstance(name, str):
        return None, False
    base = name.replace(os.sep, '/').rsplit('/', 1)[-1]
    stem, dot, ext = base.rpartition('.')
    if not dot or ext not in ('tex', 'opb'):
        # 'ends with .tex or .opb' is said of the name as it is written: F.TEX, run.OPB, notes.Tex end with neither
        return None, False
    fmt = 'latex' if ext == 'tex' else 'opb'
    return fmt, stem.strip('.') != ''


def _dest_expected(request, name):
    """the set of formats the destination may hold"""
    if request is not None:
        return {request}
    fmt, documented = _name_suggests(name)
    if fmt is None:
        return {'dimacs'}
    return {fmt} if documented else {'dimacs', fmt}


def _dest_classify(text):
    if text.startswith('* #variable='):
        return 'opb'
    if any(ln.startswith('\\documentclass') for ln in text.split('\n')):
        return 'latex'
    return 'dimacs'


def _pebbling_reference(n, preds):
    clauses = [[-p for p in sorted(preds[v - 1])] + [v] for v in range(1, n + 1)]
    has_succ = {p for ps in preds for p in ps}
    return clauses + [[-v] for v in range(1, n + 1) if v not in has_succ]


def _dest_dag(rseed):
    R = random.Random(rseed)
    n = R.randint(1, 6)
    return n, [sorted(R.sample(range(1, v), R.randint(0, min(2, v - 1)))) for v in range(1, n + 1)]


def _run_tool(tool, argv, mode):
    if tool == 'cnfgen':
        return _run_cli(argv, mode)
    if tool == 'cnfshuffle':
        from cnfgen.clitools.cnfshuffle import cli
    else:
        from cnfgen.clitools.kthlist2pebbling import cli
    _reset_cli_state()
    old_out, old_in = sys.stdout, sys.stdin
    buf = _Buf()
    sys.stdout = buf
    try:
        res = cli(argv, mode=mode)
    finally:
        sys.stdout, sys.stdin = old_out, old_in
        _reset_cli_state()
    return res, buf.getvalue()


def _run_dest(case, labels):
    from cnfgen.utils.parsedimacs import to_dimacs_file
    how, name, request = case['path'], case['name'], case['request']
    header_on, varnames_on = bool(case['export_header']), bool(case['export_varnames'])
    tmp = _tmpdir()
    handle = None
    try:
        path = os.path.join(tmp, name)
        if os.path.dirname(path) != tmp:
            os.makedirs(os.path.dirname(path))
        seen = name              # the name the writer gets to see
        if how in DEST_LIB_PATHS:
            F = _build(dict(case, kind='hand'))
            n, clauses = _snapshot(F)
            if how.startswith('to_dimacs_file'):
                request = None
                expected = {'dimacs'}

                def write(dest):
                    to_dimacs_file(F, dest, export_header=header_on, export_varnames=varnames_on)
            else:
                def write(dest):
                    if request is not None and case.get('positional'):
                        F.to_file(dest, request, export_header=header_on, export_varnames=varnames_on)
                    else:
                        F.to_file(dest, fileformat=request, export_header=header_on, export_varnames=varnames_on)
            what_dest = repr(name)
            if how.endswith('-name'):
                seen = path
                write(path)
            elif how.endswith('-strio-named'):
                sink = _Buf()
                sink.name = name
                write(sink)
            elif how.endswith('-object'):
                kind = case['nameobj']
                seen = {'str': name, 'abs': path, 'bytes': os.fsencode(name), 'int': 7, 'none': None, 'list': [name]}.get(kind)
                sink = _NamedSink() if kind == 'missing' else _NamedSink(seen)
                what_dest = 'a user object with name {!r}'.format(seen) if kind != 'missing' else 'a user object without name'
                write(sink)
            else:
                if how.endswith('-fd'):
                    handle = os.fdopen(os.open(path, os.O_WRONLY | os.O_CREAT | os.O_TRUNC, 0o600), 'w', encoding='utf-8', newline='')
                elif how.endswith('-bytes'):
                    handle = open(os.fsencode(path), 'w', encoding='utf-8', newline='')
                else:
                    handle = open(path, 'w', encoding='utf-8', newline='')
                seen = handle.name
                what_dest = 'an open file with name {!r}'.format(name if not isinstance(seen, int) else seen)
                write(handle)
                handle.close()
            if how.endswith(('-object', '-strio-named')):
                text = sink.getvalue()
                path = None
            else:
                with open(path, encoding='utf-8', newline='') as f:
                    text = f.read()
            if not how.startswith('to_dimacs_file'):
                expected = _dest_expected(request, seen)
            what = "{}({}{})".format(how.split('-')[0], what_dest, '' if how.startswith('to_dimacs_file') else
                                     ', fileformat={!r}'.format(request))
            if _snapshot(F) != (n, clauses):
                raise Violation("{}: writing changed the formula".format(what))
        else:
            rseed = case['rseed']
            seen = path
            tail = []
            truth = None
            if how == 'cnfgen':
                front = ['cnfgen'] + list(case['flags'])
                core = ['--seed', str(rseed)]
                header_on, varnames_on = '-q' not in case['flags'], '--varnames' in case['flags']
                if request is not None:
                    sp = case['ofspell']
                    if sp == 'flag' and request == 'latex':
                        front += ['--latex']
                    elif sp.endswith('='):
                        front += [sp + request]
                    else:
                        front += ['-of' if sp == 'flag' else sp, request]
                tail = [str(a) for a in case['argv']]
            else:
                front = [how] + list(case['flags'])
                header_on, varnames_on = '-q' not in case['flags'], False
                request = 'dimacs'                # these tools always ask for DIMACS
                if how == 'cnfshuffle':
                    truth = (case['n'], [list(c) for c in case['clauses']])
                    src = os.path.join(tmp, 'source.cnf')
                    text = _render_independent(*truth)
                    core = SHUFFLE_FIXED[1:] + ['-i', src]
                else:
                    dn, preds = _dest_dag(rseed)
                    src = os.path.join(tmp, 'source.kthlist')
                    text = 'c a dag\n{}\n'.format(dn) + ''.join(
                        '{} : {}0\n'.format(v, ''.join('{} '.format(p) for p in preds[v - 1])) for v in range(1, dn + 1))
                    tail = [str(a) for a in case['tail']]
                    if not tail:
                        truth = (dn, _pebbling_reference(dn, preds))
                    core = ['-i', src]
                with open(src, 'w', encoding='utf-8', newline='') as f:
                    f.write(text)
            if how == 'cnfshuffle':
                n, clauses = truth                # -p -v -c: the tool hands back what it read
            else:
                random.seed(rseed)
                F, _ = _run_tool(how, [how] + core + tail, 'formula')
                n, clauses = _snapshot(F)
            if truth is not None and (truth[0], sorted(sorted(c) for c in truth[1])) != (n, sorted(sorted(c) for c in clauses)):
                raise Violation("{} {}: the tool's formula has {} variables and clauses {}, the source file holds {} and {}".format(
                    how, ' '.join(core[:-1] + tail), n, clauses[:8], truth[0], truth[1][:8]))
            osp = case['ospell']
            out = [osp + path] if osp.endswith('=') else ['-o' + path] if osp == '-o-glued' else [osp, path]
            argv = front + (out + core if case['o_first'] else core + out) + tail
            random.seed(rseed)
            _, captured = _run_tool(how, argv, 'output')
            gc.collect()            # the tools never close their argparse.FileType handles: flush them
            what = "`{}`".format(' '.join(argv).replace(tmp + os.sep, '')[:200])
            if captured != '':
                raise Violation("{}: {} characters on stdout although -o was given".format(what, len(captured)))
            with open(path, encoding='utf-8', newline='') as f:
                text = f.read()
            expected = _dest_expected(request, path)
        got = _dest_classify(text)
        suggests = _name_suggests(seen)[0]
        if got not in expected:
            raise Violation("{}: the destination holds {} text, {} (output starts {!r})".format(
                what, got.upper(),
                "DIMACS was asked for explicitly" if request == 'dimacs' else
                "{} was asked for explicitly".format(request) if request is not None else
                "without a request the documented guess for this name is {}".format('/'.join(sorted(expected))), text[:80]))
        if got == 'dimacs':
            _verify_output(text, n, clauses, header_on, varnames_on, case, what, path=path)
        elif got == 'opb':
            first = text.split('\n', 1)[0]
            if first != '* #variable= {} #constraint= {}'.format(n, len(clauses)):
                raise Violation("{}: OPB output opens with {!r} for a formula with {} variables and {} clauses".format(
                    what, first[:80], n, len(clauses)))
        else:
            if '\\begin{document}' not in text or '\\end{document}' not in text:
                raise Violation("{}: LaTeX output without document environment".format(what))
    finally:
        if handle is not None and not handle.closed:
            handle.close()
        shutil.rmtree(tmp, ignore_errors=True)
    labels |= {'dest', 'dest-path-' + how, 'dest-req-' + str(request), 'dest-got-' + got,
               'dest-name-suggests-' + str(suggests)}
    if len(expected) > 1:
        labels.add('dest-gray-name')
    if how.endswith('-object'):
        labels.add('dest-nameobj-' + case['nameobj'])
    if request is not None and suggests is not None and suggests != request:
        labels.add('dest-request-{}-against-name-{}'.format(request, suggests))
    if request is None and got != 'dimacs' and len(expected) == 1:
        labels.add('dest-guess-' + got)
    if '/' in name:
        labels.add('dest-dotted-directory')
    labels.add('header-on' if header_on else 'header-off')
    out = _writer_outcome(labels, n, clauses, header_on, {})
    return Outcome(labels=out.labels, nontrivial=len(clauses) >= 1 and (
        (request is not None and suggests not in (None, request)) or (request is None and suggests is not None)))


# ---- (a') history: one formula object, encoded again and again while it grows

HIST_VIAS = ['to_dimacs', 'strio', 'strio-explicit', 'to_dimacs_file', 'stdout', 'file', 'sink-falsy', 'sink-writeonly', 'handle']
HIST_CLI = [['php', 3, 2], ['php', 2, 2, '--functional'], ['op', 3], ['and', 2, 1], ['or', 0, 3], ['count', 4, 2],
            ['parity', 3], ['peb', 'pyramid', 1], ['tseitin', 'first', 'complete', 3], ['true'], ['false']]
HIST_GROUPS = ['combinations', 'cwr', 'permutations', 'words', 'mapping', 'binary', 'graph', 'bipartite', 'digraph']
LINEAR_OPS = ['<=', '>=', '<', '>', '==', '!=']


def _group_size(which, a, b):
    """Number of variables of a variable group, from its definition."""
    if which == 'combinations':
        return math.comb(a, b)
    if which == 'cwr':
        return 1 if b == 0 else (math.comb(a + b - 1, b) if a > 0 else 0)
    if which == 'permutations':
        return math.perm(a, b)
    if which == 'words':
        return a ** b
    if which == 'mapping':
        return a * b
    if which == 'binary':
        bits = 0
        while (1 << bits) < b:
            bits += 1
        return a * bits
    if which == 'graph':
        return a * (a - 1) // 2
    if which == 'bipartite':        # left side a+1, right side b+1, edges (i,j) with (i+j) even
        return sum(1 for i in range(1, a + 2) for j in range(1, b + 2) if (i + j) % 2 == 0)
    if which == 'digraph':          # a+1 vertices, arcs i -> i+1 and, when b is odd, the arc back to 1
        return a + (1 if b % 2 and a >= 1 else 0)
    raise KeyError(which)


def _new_group(F, which, a, b):
    from cnfgen.graphs import Graph, BipartiteGraph, DirectedGraph
    if which == 'combinations':
        return F.new_combinations(a, b)
    if which == 'cwr':
        return F.new_combinations_with_replacement(a, b)
    if which == 'permutations':
        return F.new_permutations(a, b)
    if which == 'words':
        return F.new_words(a, b)
    if which == 'mapping':
        return F.new_mapping(a, b)
    if which == 'binary':
        return F.new_binary_mapping(a, b)
    if which == 'graph':
        return F.new_graph_edges(Graph.complete_graph(a))
    if which == 'bipartite':
        B = BipartiteGraph(a + 1, b + 1)
        for i in range(1, a + 2):
            for j in range(1, b + 2):
                if (i + j) % 2 == 0:
                    B.add_edge(i, j)
        return F.new_bipartite_edges(B)
    if which == 'digraph':
        D = DirectedGraph(a + 1)
        for i in range(1, a + 1):
            D.add_edge(i, i + 1)
        if b % 2 and a >= 1:
            D.add_edge(a + 1, 1)
        return F.new_digraph_edges(D)
    raise KeyError(which)


def _hist_lits(spec, top):
    """[[position, sign], ...] -> literals over the variables 1..top (no literal when top == 0)"""
    return [(1 + pos % top) * sign for pos, sign in spec] if top > 0 else []


def _hist_start(start, rseed):
    """-> (F, model n, model clauses, texts that may reach a comment)"""
    from cnfgen import CNF
    kind = start[0]
    if kind == 'empty':
        return CNF(), 0, [], []
    if kind == 'described':
        return CNF(description=start[1]), 0, [], [start[1]]
    if kind == 'clauses':
        cl = [list(c) for c in start[1]]
        return CNF(cl), max([abs(l) for c in cl for l in c] + [0]), cl, []
    if kind == 'read':
        n, cl = start[1], [list(c) for c in start[2]]
        return CNF.from_file(io.StringIO(_render_independent(n, cl))), n, cl, []
    if kind == 'family':
        random.seed(rseed)
        F = _family({'family': start[1], 'params': start[2], 'rseed': rseed})
        n, cl = _snapshot(F)
        return F, n, cl, []
    if kind == 'cli':
        F, _ = _run_cli(['cnfgen'] + [str(a) for a in start[1]], 'formula')
        n, cl = _snapshot(F)
        return F, n, cl, []
    raise KeyError(kind)


def _run_history(case, labels):
    """Encodings of ONE formula object interleaved with legal changes of that object.

    The harness keeps its own model (number of variables, clause list) of the formula: every
    operation has a documented effect on it; every encoding must describe the model as it is at
    that moment."""
    F, n, clauses, texts = _hist_start(case['start'], case['rseed'])
    start_state = (n, [list(c) for c in clauses])
    labels.add('hist-start-' + case['start'][0])
    header, labelled = [], []
    last = {}                    # via -> (n, m, header entries, labelled variables) at its previous use
    tmp = path = None
    if any(st[0] == 'enc' and st[1] in ('file', 'handle') for st in case['steps']):
        tmp = _tmpdir()
        path = os.path.join(tmp, 'history.cnf')     # the same file is written again and again
    nenc = nmut = 0
    try:
        for k, st in enumerate(case['steps']):
            op = st[0]
            if op == 'enc':
                via, header_on, varnames_on = st[1], bool(st[2]), bool(st[3])
                what = "step {} of a history, {} after {}".format(k, via, [s[0] for s in case['steps'][:k]])
                if via == 'cli-string':
                    if case['start'][0] != 'cli':
                        continue
                    text = _run_cli(['cnfgen'] + [str(a) for a in case['start'][1]], 'string')[0]
                    fake = {'header': [], 'vars': []}
                    _verify_output(text, start_state[0], start_state[1], False, False, fake,
                                   what + " [the same command line asked again for a string]")
                    labels.add('hist-cli-string')
                    continue
                text, header_on, varnames_on = _encode(F, via, header_on, varnames_on, path)
                fake = {'header': header + [['description', t] for t in texts], 'vars': [['var', t] for t in labelled]}
                if _snapshot(F) != (n, clauses):
                    raise Violation("{}: the formula object holds {} variables and {} clauses, the operations applied "
                                    "to it give {} variables and {} clauses".format(
                                        what, F.number_of_variables(), len(F), n, len(clauses)))
                _verify_output(text, n, clauses, header_on, varnames_on, fake, what,
                               path=path if via in ('file', 'handle') else None)
                nenc += 1
                prev = last.get(via)
                if prev is not None:
                    labels.add('hist-again')
                    same_m, same_n = prev[1] == len(clauses), prev[0] == n
                    if same_m and not same_n:
                        labels.add('hist-again-vars-only')
                        if via == 'to_dimacs':
                            labels.add('hist-to_dimacs-again-vars-only')
                    elif not same_m:
                        labels.add('hist-again-clauses')
                    elif prev[2:] != (len(header), len(labelled)):
                        labels.add('hist-again-comments-only')
                    else:
                        labels.add('hist-again-unchanged')
                last[via] = (n, len(clauses), len(header), len(labelled))
                labels.add('via-' + via)
                continue
            nmut += 1
            labels.add('hist-op-' + op)
            if op == 'clause':
                lits = _hist_lits(st[1], n + st[2])
                check = bool(st[3]) or any(abs(l) > n for l in lits)
                F.add_clause(lits, check=check)
                clauses.append(lits)
                n = max([n] + [abs(l) for l in lits])
            elif op == 'clauses':
                new = [_hist_lits(c, n + st[2]) for c in st[1]]
                F.add_clauses_from(iter(new))
                clauses.extend(new)
                n = max([n] + [abs(l) for c in new for l in c])
            elif op == 'numvar':
                F.update_variable_number(max(0, n + st[1]))
                n = max(n, n + st[1])
            elif op == 'var':
                v = F.new_variable(label=st[1])
                n += 1
                if v != n:
                    raise Violation("new_variable() returned {} on a formula with {} variables".format(v, n - 1))
                if st[1] is not None:
                    labelled.append(st[1])
            elif op == 'block':
                F.new_block(st[1], st[2], label=_esc(st[3]) + '[{},{}]')
                n += st[1] * st[2]
                labelled.append(st[3])
            elif op == 'group':
                _new_group(F, st[1], st[2], st[3])
                n += _group_size(st[1], st[2], st[3])
            elif op == 'header':
                F.header[st[1]] = st[2]
                header.append([st[1], st[2]])
            elif op in ('parity', 'linear'):
                # clauses made by the library over existing variables: they are appended, nothing else changes
                lits = [v * (1 if (st[2] >> v) & 1 else -1) for v in range(1, min(n, st[1]) + 1)]
                before = len(F)
                if op == 'parity':
                    F.add_parity(lits, st[3] % 2)
                else:
                    F.add_linear(lits, LINEAR_OPS[st[3] % 6], st[4])
                n2, now = _snapshot(F)
                if n2 != n or now[:before] != clauses or len(now) < before:
                    raise Violation("add_{} over the variables {} changed the number of variables ({} -> {}) or the "
                                    "clauses already in the formula".format(op, lits, n, n2))
                clauses.extend(now[before:])
            else:
                raise KeyError(op)
    finally:
        if tmp is not None:
            shutil.rmtree(tmp, ignore_errors=True)
    labels.add('hist-enc>=3' if nenc >= 3 else 'hist-enc<3')
    labels.add('hist-ops-{}'.format(min(nmut, 6)))
    fake = {'header': header, 'vars': [['var', t] for t in labelled]}
    labels |= _text_labels(fake)
    out = _writer_outcome(labels, n, clauses, True, {})
    return Outcome(labels=out.labels, nontrivial=nenc >= 2 and nmut >= 1)


# ---- generators for (a)

VIAS = ['to_dimacs', 'strio', 'strio', 'strio-explicit', 'to_dimacs_file', 'stdout', 'file', 'file', 'sink-falsy', 'sink-writeonly', 'handle']
FILE_NAMES = ['formula.cnf', 'formula', 'f.dimacs', 'x.txt', 'UPPER.CNF', 'a b.cnf']


def _clean_filename(t):
    t = t.replace('/', '_').replace('\x00', '_')
    while len(t.encode('utf-8')) > 60:
        t = t[:-1]
    return t if t not in ('', '.', '..', '-') else 'f' + t


# every strategy object is built once (building them inside the composites costs more than drawing)
_U = rd.st_unusual_text()
_S_FILENAME = _U.map(_clean_filename)
_S_FLIPSHUF = st.lists(st.sampled_from([['flip'], ['shuffle']]), max_size=1)
_S_SUBST = st.sampled_from([[], [], [['xor', 2]], [['or', 2]], [['lift', 2]], [['eq', 2]], [['or', 1]]])
_S_CHAIN = st.tuples(_S_FLIPSHUF, _S_SUBST, _S_FLIPSHUF).map(lambda t: t[0] + t[1] + t[2])
_S_HEADER = st.lists(st.tuples(
    st.one_of(st.sampled_from(['description', 'comment', 'random seed', 'transformation 1']), _U),
    st.one_of(_U, _U, st.integers(-3, 99))).map(list), max_size=3)
_S_VARS = st.lists(st.one_of(
    st.tuples(st.just('var'), _U).map(list),
    st.tuples(st.just('block'), st.integers(1, 3), st.integers(1, 2), _U).map(list),
    st.tuples(st.just('anon'), st.integers(1, 3)).map(list)), max_size=4)
_S_SIGN = st.sampled_from([1, -1])
_S_CLAUSES = {}
for _top in range(0, 30):
    if _top == 0:
        _cl = st.just([])
    else:
        _cl = st.lists(st.builds(lambda v, s: v * s, st.integers(1, _top), _S_SIGN), max_size=4)
    _S_CLAUSES[_top] = (st.lists(_cl, max_size=6), st.lists(_cl, max_size=30))
_S_BIT, _S_TEN, _S_FOUR = st.integers(0, 1), st.integers(0, 9), st.integers(0, 3)
_S_BOOL = st.booleans()
_S_RSEED = st.integers(1, 10 ** 6)
_S_VIA = st.sampled_from(VIAS)
_S_FNAME = st.sampled_from(FILE_NAMES)
_I = {(a, b): st.integers(a, b) for a in range(0, 4) for b in range(0, 9) if a <= b}
_S_CAP = st.integers(0, 10 ** 6)


@st.composite
def _st_hand(draw):
    vars_ = draw(_S_VARS)
    N = sum(1 if v[0] == 'var' else v[1] * v[2] if v[0] == 'block' else v[1] for v in vars_)
    top = N + draw(_S_BIT)
    small, large = _S_CLAUSES[top]
    clauses = draw(large if draw(_S_TEN) == 0 else small)
    return {'kind': 'hand', 'vars': vars_, 'clauses': clauses}


_S_FAMNAME = st.sampled_from(['php', 'op', 'count', 'tseitin', 'kcolor', 'vdw', 'randkcnf', 'ram'])


def _randkcnf_params(draw):
    k = draw(_I[1, 3])
    n = k + draw(_S_CAP) % (7 - k)
    m = draw(_S_CAP) % (min(8, math.comb(n, k) * 2 ** k) + 1)
    return [k, n, m]


@st.composite
def _st_family(draw):
    name = draw(_S_FAMNAME)
    if name == 'php':
        p = [draw(_I[0, 4]), draw(_I[0, 3]), draw(_S_BIT), draw(_S_BIT)]
    elif name == 'op':
        p = [draw(_I[0, 4]), draw(_S_BIT)]
    elif name == 'count':
        p = [draw(_I[0, 6]), draw(_I[1, 3])]
    elif name == 'tseitin':
        p = [draw(_I[0, 4])]
    elif name == 'kcolor':
        p = [draw(_I[0, 4]), draw(_I[0, 3])]
    elif name == 'vdw':
        p = [draw(_I[0, 7]), draw(_I[2, 3]), draw(_I[2, 3])]
    elif name == 'ram':
        p = [draw(_I[2, 3]), draw(_I[2, 3]), draw(_I[1, 5])]
    else:
        p = _randkcnf_params(draw)
    return {'kind': 'family', 'family': name, 'params': p}


CLI_T = [[], [], ['-T', 'flip'], ['-T', 'shuffle'], ['-T', 'xor', 2], ['-T', 'or', 2], ['-T', 'lift', 2], ['-T', 'none'],
         ['-T', 'shuffle', '-T', 'xor', 2]]
_S_CLI_WHICH = st.sampled_from(['php', 'op', 'randkcnf', 'and', 'or', 'true', 'false', 'tseitin', 'kcolor',
                                'count', 'parity', 'peb', 'vdw', 'dimacs', 'dimacs'])
_S_CLI_T = st.sampled_from(CLI_T)
_S_CLI_FLAGS = st.sampled_from([[], ['-v'], ['-q'], ['-q'], ['--verbose'], ['--quiet']])
_S_CLI_OUT = st.sampled_from(['stdout', 'stdout', 'file'])


@st.composite
def _st_cli(draw):
    which = draw(_S_CLI_WHICH)
    case = {'kind': 'cli'}
    if which == 'php':
        a = ['php', draw(_I[1, 4]), draw(_I[1, 3])]
    elif which == 'op':
        a = ['op', draw(_I[1, 4])]
    elif which == 'randkcnf':
        a = ['randkcnf'] + _randkcnf_params(draw)
    elif which in ('and', 'or'):
        a = [which, draw(_I[0, 3]), draw(_I[0, 3])]
    elif which in ('true', 'false'):
        a = [which]
    elif which == 'tseitin':
        a = ['tseitin', 'first', 'complete', draw(_I[1, 4])]
    elif which == 'kcolor':
        a = ['kcolor', draw(_I[1, 3]), 'complete', draw(_I[1, 4])]
    elif which == 'count':
        a = ['count', draw(_I[1, 6]), draw(_I[1, 3])]
    elif which == 'parity':
        a = ['parity', draw(_I[1, 5])]
    elif which == 'peb':
        a = ['peb', 'pyramid', draw(_I[0, 2])]
    elif which == 'vdw':
        a = ['vdw', draw(_I[1, 7]), 2, draw(_I[2, 3])]
    else:
        h = draw(_st_hand())
        n = max([abs(l) for c in h['clauses'] for l in c] + [0]) + draw(_I[0, 2])
        a = ['dimacs']
        case.update({'n': n, 'clauses': h['clauses'], 'fname': draw(_S_FILENAME)})
    case['argv'] = a + draw(_S_CLI_T)
    flags = draw(_S_CLI_FLAGS)
    if draw(_S_BOOL):
        flags = flags + ['--varnames']
    if draw(_S_FOUR) == 0:
        flags = flags + ['-of', 'dimacs']
    case['flags'] = flags
    case['out'] = draw(_S_CLI_OUT)
    case['rseed'] = draw(_S_RSEED)
    return case


# history cases: a start, then 2..6 changes of the object with encodings before, between and after them
_S_POSLIT = st.tuples(_S_CAP, _S_SIGN).map(list)
_S_HCLAUSE = st.lists(_S_POSLIT, max_size=4)
_S_EXTRA = st.sampled_from([0, 0, 0, 1, 2])
_S_HKEY = st.one_of(st.sampled_from(['description', 'comment', 'note']), _U)
_S_HMUT = st.one_of(
    st.tuples(st.just('clause'), _S_HCLAUSE, _S_EXTRA, _S_BOOL),
    st.tuples(st.just('clause'), _S_HCLAUSE, _S_EXTRA, _S_BOOL),
    st.tuples(st.just('clauses'), st.lists(_S_HCLAUSE, max_size=3), _S_EXTRA),
    st.tuples(st.just('numvar'), st.integers(-2, 3)),
    st.tuples(st.just('numvar'), st.integers(1, 40)),
    st.tuples(st.just('var'), st.one_of(st.none(), _U)),
    st.tuples(st.just('block'), st.integers(1, 3), st.integers(1, 2), _U),
    st.tuples(st.just('group'), st.sampled_from(HIST_GROUPS), st.integers(0, 4), st.integers(0, 3)),
    st.tuples(st.just('header'), _S_HKEY, st.one_of(_U, st.integers(-3, 99))),
    st.tuples(st.just('parity'), st.integers(0, 4), st.integers(0, 31), _S_BIT),
    st.tuples(st.just('linear'), st.integers(0, 4), st.integers(0, 31), st.integers(0, 5), st.integers(-1, 5)),
).map(list)
_S_HVIA = st.sampled_from(['to_dimacs'] * 4 + ['strio', 'strio', 'strio-explicit', 'to_dimacs_file', 'stdout', 'file'])
_S_HENC = st.tuples(st.just('enc'), _S_HVIA, _S_BOOL, _S_BOOL).map(list)
_S_HENCS = st.lists(_S_HENC, min_size=0, max_size=2)
_S_HROUND = st.tuples(_S_HMUT, _S_HENCS)
_S_HROUNDS = st.lists(_S_HROUND, min_size=2, max_size=6)
_S_HSTARTKIND = st.sampled_from(['empty'] * 4 + ['described'] * 2 + ['clauses'] * 4 + ['read'] * 2 + ['family'] * 4 + ['cli'])
_S_HCLI = st.sampled_from(HIST_CLI)
_S_SMALLCNF = st.lists(st.lists(st.builds(lambda v, s: v * s, st.integers(1, 6), _S_SIGN), max_size=3), max_size=5)


@st.composite
def _st_history(draw):
    kind = draw(_S_HSTARTKIND)
    if kind == 'empty':
        start = ['empty']
    elif kind == 'described':
        start = ['described', draw(_U)]
    elif kind == 'clauses':
        start = ['clauses', draw(_S_SMALLCNF)]
    elif kind == 'read':
        cl = draw(_S_SMALLCNF)
        start = ['read', max([abs(l) for c in cl for l in c] + [0]) + draw(_I[0, 2]), cl]
    elif kind == 'family':
        f = draw(_ST_FAMILY)
        start = ['family', f['family'], f['params']]
    else:
        start = ['cli', draw(_S_HCLI)]
    cli = kind == 'cli'
    steps = [draw(_S_HENC)]
    if cli and draw(_S_BOOL):
        steps.append(['enc', 'cli-string', False, False])
    for mut, encs in draw(_S_HROUNDS):
        steps.append(mut)
        steps.extend(encs)
        if cli and draw(_S_FOUR) == 0:
            steps.append(['enc', 'cli-string', False, False])
    steps.append(draw(_S_HENC))
    return {'kind': 'history', 'start': start, 'steps': steps, 'rseed': draw(_S_RSEED)}


def enum_history(tier):
    """encode / one change / encode for every pair of output paths and every kind of change, from an empty
    and a non-empty formula; encode / change / encode / change / encode through one path for every ordered
    pair of changes"""
    lit = [[0, 1], [1, -1]]
    muts = [['clause', lit, 0, True], ['clause', lit, 0, False], ['clause', lit, 2, True], ['clause', [], 0, True],
            ['clauses', [lit, []], 1], ['clauses', [], 0],
            ['numvar', 1], ['numvar', 7], ['numvar', 0], ['numvar', -1],
            ['var', None], ['var', 'x'], ['block', 2, 2, 'b'],
            ['header', 'note', 'p cnf 1 1'], ['header', 'description', 'again'],
            ['parity', 2, 1, 1], ['linear', 3, 5, 0, 1]] + [['group', g, 3, 2] for g in HIST_GROUPS]
    starts = [['empty'], ['clauses', [[1, -2], [2, 3], []]], ['read', 5, [[1, -2], [4]]]]
    for start in starts:
        for mut in muts:
            for v1 in HIST_VIAS:
                for v2 in HIST_VIAS:
                    if v1 != v2 and 'to_dimacs' not in (v1, v2) and tier == 'quick':
                        continue
                    flags = (mut[0] == 'header', mut[0] in ('var', 'block'))
                    yield {'kind': 'history', 'start': start, 'rseed': 1,
                           'steps': [['enc', v1, flags[0], flags[1]], mut, ['enc', v2, flags[0], flags[1]]]}
    for via in ('to_dimacs', 'strio', 'file'):
        for m1 in muts:
            for m2 in muts:
                yield {'kind': 'history', 'start': starts[1], 'rseed': 1,
                       'steps': [['enc', via, False, False], m1, ['enc', via, True, True], m2, ['enc', via, False, False]]}
    for argv in HIST_CLI:
        for mut in (muts[(7, 11, 2)[len(argv) % 3]],):
            yield {'kind': 'history', 'start': ['cli', argv], 'rseed': 1,
                   'steps': [['enc', 'cli-string', False, False], ['enc', 'to_dimacs', False, False], mut,
                             ['enc', 'to_dimacs', False, False], ['enc', 'cli-string', False, False]]}


# destination cases: a name made of directory / stem / extension(s), a request, a writer path
_S_DEST_DIR = st.sampled_from([''] * 5 + ['d.opb/', 'd.tex/', 'd.cnf/'])
_S_DEST_STEM = st.sampled_from(['f', 'f', 'f', 'a.b', 'x y', 'é', '.h', 'a.opb', 'a.tex', 'a.cnf', '', '.', 'F', 'opb'])
_S_DEST_EXT = st.sampled_from(['.opb'] * 4 + ['.tex'] * 3 + ['', '.cnf', '.dimacs', '.txt', '.gml', '.OPB', '.TEX', '.Tex', '.oPb',
                               '.opb.', '.tex ', '.opbx', '.pb', '.latex', '.cnf.opb', '.tex.cnf', '.opb.tex'])
_S_DEST_REQ = st.sampled_from([None, None, 'dimacs', 'dimacs', 'dimacs', 'dimacs', 'opb', 'latex'])
_S_DEST_PATH = st.sampled_from(DEST_LIB_PATHS[:6] * 3 + DEST_LIB_PATHS[6:] + DEST_TOOL_PATHS)
_S_DEST_NAMEOBJ = st.sampled_from(['str'] * 3 + ['abs'] * 2 + DEST_NAMEOBJ)
_S_DEST_CLI = st.sampled_from(DEST_CLI)
_S_DEST_OSPELL = st.sampled_from(DEST_OSPELL)
_S_DEST_OFSPELL = st.sampled_from(DEST_OFSPELL)
_S_DEST_TAIL = st.sampled_from([[], [], ['xor', 2], ['or', 2], ['none']])
_S_QFLAG = st.sampled_from([[], ['-q']])


@st.composite
def _st_dest(draw):
    name = draw(_S_DEST_DIR) + (draw(_S_DEST_STEM) + draw(_S_DEST_EXT) or 'f')
    if name.rsplit('/', 1)[-1] in ('.', '..'):
        name += 'f'
    case = {'kind': 'dest', 'name': name, 'request': draw(_S_DEST_REQ), 'path': draw(_S_DEST_PATH),
            'rseed': draw(_S_RSEED), 'export_header': draw(_S_BOOL), 'export_varnames': draw(_S_BOOL)}
    how = case['path']
    if how in DEST_LIB_PATHS:
        # (header values are kept textual here: the LaTeX writer takes header['description'] for a string)
        case.update(draw(_ST_HAND), kind='dest', chain=[], positional=draw(_S_BOOL),
                    header=[[k, v if isinstance(v, str) else str(v)] for k, v in draw(_S_HEADER)])
        if how.endswith('-object'):
            case['nameobj'] = draw(_S_DEST_NAMEOBJ)
        return case
    case.update(ospell=draw(_S_DEST_OSPELL), o_first=draw(_S_BOOL), flags=draw(_S_QFLAG))
    if how == 'cnfgen':
        case.update(argv=draw(_S_DEST_CLI), ofspell=draw(_S_DEST_OFSPELL), o_first=True)    # the sub-command comes last
        if draw(_S_BOOL):
            case['flags'] = case['flags'] + ['--varnames']
    elif how == 'cnfshuffle':
        cl = draw(_S_SMALLCNF)
        case.update(n=max([abs(l) for c in cl for l in c] + [0]) + draw(_I[0, 2]), clauses=cl)
    else:
        case['tail'] = draw(_S_DEST_TAIL)
    return case


def enum_dest(tier):
    """every name x every request x every library path (two formulas, flags alternating); every name x every
    request through cnfgen -of/-o; every name through cnfshuffle -o and kthlist2pebbling -o"""
    forms = [([['anon', 6]], [[1, -2], [2, 3, -4], [], [-1]], [['note', 'p cnf 1 1']]),
             ([['var', 'x'], ['block', 2, 2, 'z']], [[1, 2], [3, 4], [-1, -3, 5]], [])]
    i = 0
    for name in DEST_NAMES:
        for how in DEST_LIB_PATHS:
            for request in (DEST_REQUESTS if how.startswith('to_file') else [None]):
                for nameobj in (DEST_NAMEOBJ if how.endswith('-object') else [None]):
                    if nameobj not in (None, 'str', 'abs', 'bytes') and name != 'f.opb' and tier == 'quick':
                        continue
                    i += 1
                    vars_, clauses, header = forms[i % 2]
                    case = {'kind': 'dest', 'name': name, 'request': request, 'path': how, 'rseed': 1,
                            'export_header': bool(i % 3), 'export_varnames': i % 4 == 1, 'positional': i % 5 == 0,
                            'vars': [list(v) for v in vars_], 'clauses': [list(c) for c in clauses], 'chain': [],
                            'header': [list(h) for h in header]}
                    if nameobj is not None:
                        case['nameobj'] = nameobj
                    yield case
    j = 0
    for name in DEST_NAMES:
        for request in DEST_REQUESTS:
            j += 1
            if tier == 'quick' and request in ('opb', 'latex') and name not in ('f.cnf', 'f.opb', 'f.tex', 'noext', 'F.TEX'):
                continue
            yield {'kind': 'dest', 'name': name, 'request': request, 'path': 'cnfgen', 'rseed': 1 + j, 'export_header': True,
                   'export_varnames': False, 'argv': DEST_CLI[j % len(DEST_CLI)], 'flags': [[], ['-q'], ['--varnames']][j % 3],
                   'ospell': DEST_OSPELL[(j // 4) % 4], 'ofspell': DEST_OFSPELL[(j // 3) % 4], 'o_first': True}
        j += 1
        yield {'kind': 'dest', 'name': name, 'request': None, 'path': 'cnfshuffle', 'rseed': 1 + j, 'export_header': True,
               'export_varnames': False, 'n': 6, 'clauses': [[1, -2], [2, 3, -4], [], [-1]], 'flags': [[], ['-q']][j % 2],
               'ospell': DEST_OSPELL[j % 4], 'o_first': bool(j % 3)}
        for tail in ([], ['xor', 2]):
            j += 1
            if tier == 'quick' and tail and name not in ('f.cnf', 'f.opb', 'f.tex'):
                continue
            yield {'kind': 'dest', 'name': name, 'request': None, 'path': 'kthlist2pebbling', 'rseed': 1 + j,
                   'export_header': True, 'export_varnames': False, 'flags': [[], ['-q']][j % 2], 'tail': tail,
                   'ospell': DEST_OSPELL[j % 4], 'o_first': bool(j % 3)}


_S_KIND = st.sampled_from(['hand'] * 5 + ['family'] * 3 + ['cli'] * 2 + ['history'] * 5 + ['dest'] * 3)
_ST_HAND, _ST_FAMILY, _ST_CLI, _ST_HISTORY = _st_hand(), _st_family(), _st_cli(), _st_history()
_ST_DEST = _st_dest()


@st.composite
def strat_writer(draw):
    kind = draw(_S_KIND)
    if kind == 'cli':
        return draw(_ST_CLI)
    if kind == 'history':
        return draw(_ST_HISTORY)
    if kind == 'dest':
        return draw(_ST_DEST)
    case = draw(_ST_HAND if kind == 'hand' else _ST_FAMILY)
    case['chain'] = draw(_S_CHAIN)
    case['rseed'] = draw(_S_RSEED)
    case['header'] = draw(_S_HEADER)
    case['export_header'] = draw(_S_BOOL)
    case['export_varnames'] = draw(_S_BOOL)
    case['via'] = draw(_S_VIA)
    if case['via'] == 'file':
        case['fname'] = draw(_S_FNAME)
    return case


def enum_writer(tier):
    """A small complete grid: corner formulas x flags x output paths x corner texts."""
    formulas = [
        ([], []),                                   # empty formula
        ([], [[]]),                                 # only an empty clause
        ([['anon', 3]], []),                        # variables, no clause
        ([['anon', 4]], [[1, -2], [], [-4]]),       # unused variable 3, empty clause
        ([['anon', 1]], [[2, -3]]),                 # clause extending the variable range
        ([['block', 2, 2, 'z']], [[1, 2], [3, 4], [-1, -3]]),
    ]
    texts = [None, '', '\n', 'a\nb', 'a\rb', 'a\r\nb', 'p cnf 1 1', 'c', '\np cnf 1 1\n1 0', 'é日本', 'x\n1 2 0\n']
    vias = ['to_dimacs', 'strio', 'strio-explicit', 'to_dimacs_file', 'stdout', 'file', 'sink-falsy', 'sink-writeonly', 'handle']
    for (vars_, clauses) in formulas:
        for t in texts:
            for where in ('header-value', 'header-key', 'label'):
                if t is None and where != 'header-value':
                    continue
                for eh in (False, True):
                    for ev in (False, True):
                        for via in vias:
                            case = {'kind': 'hand', 'vars': [list(v) for v in vars_], 'clauses': [list(c) for c in clauses],
                                    'chain': [], 'rseed': 0, 'header': [], 'export_header': eh,
                                    'export_varnames': ev, 'via': via}
                            if t is not None:
                                if where == 'header-value':
                                    case['header'] = [['description', t]]
                                elif where == 'header-key':
                                    case['header'] = [[t, 'value']]
                                else:
                                    case['vars'] = case['vars'] + [['var', t]]
                            if via == 'file':
                                case['fname'] = 'formula.cnf'
                            yield case
    yield from enum_history(tier)
    yield from enum_dest(tier)


# ---------------------------------------------------------------------------
# (b) reader

READER_MODES = ['parse', 'strio', 'file', 'cli-file', 'cli-stdin']


def _read_with_tree(text, mode):
    """-> ((n, clauses), None) or (None, exception)"""
    from cnfgen import CNF
    from cnfgen.utils.parsedimacs import parse_dimacs
    if mode == 'file' or mode == 'cli-file':
        try:
            data = text.encode('utf-8')
        except UnicodeEncodeError:
            mode = 'strio' if mode == 'file' else 'cli-stdin'
        if mode == 'cli-file' and not text.isascii():
            mode = 'cli-stdin'        # argparse opens the file with the locale's encoding
    if mode == 'parse':
        try:
            seq = list(parse_dimacs(io.StringIO(text)))
        except ValueError as e:
            return None, e, mode
        if len(seq) < 2 or seq[1] != len(seq) - 2:
            raise Violation("parse_dimacs yields m={} followed by {} clauses on {!r}".format(
                seq[1] if len(seq) > 1 else None, len(seq) - 2, text[:200]))
        return (seq[0], [list(c) for c in seq[2:]]), None, mode
    if mode == 'strio':
        try:
            F = CNF.from_file(io.StringIO(text))
        except ValueError as e:
            return None, e, mode
        return _snapshot(F), None, mode
    if mode == 'cli-stdin':
        from cnfgen.clitools.cmdline import CLIError
        try:
            F, _ = _run_cli(['cnfgen', '-q', 'dimacs'], 'formula', stdin_text=text)
        except (CLIError, ValueError) as e:
            return None, e, mode
        return _snapshot(F), None, mode
    tmp = _tmpdir()
    try:
        path = os.path.join(tmp, 'input.cnf')
        with open(path, 'wb') as f:
            f.write(data)
        if mode == 'file':
            try:
                F = CNF.from_file(path)
            except ValueError as e:
                return None, e, mode
            return _snapshot(F), None, mode
        from cnfgen.clitools.cmdline import CLIError
        try:
            F, _ = _run_cli(['cnfgen', '-q', 'dimacs', path], 'formula')
        except (CLIError, ValueError) as e:
            return None, e, mode
        return _snapshot(F), None, mode
    finally:
        shutil.rmtree(tmp, ignore_errors=True)


def run_reader(case):
    if 'data' in case:
        return run_reader_bytes(case)
    if 'stream' in case:
        return run_reader_stream(case)
    text, mode = case['text'], case['mode']
    verdict = rd.classify(text)
    got, exc, mode = _read_with_tree(text, mode)
    labels = ['mode-' + mode]
    for o in case.get('origin', []):
        labels.append('gen-' + o)
    if verdict.cls == 'accept':
        labels.append('accepted')
        s = verdict.strict
        if exc is not None:
            raise Violation("[{}] valid DIMACS text rejected ({}: {}); the text says {}; text={!r}".format(
                mode, type(exc).__name__, str(exc)[:120], s, text[:300]))
        if (got[0], got[1]) != (s.n, s.clauses):
            raise Violation("[{}] misread: returned {} variables and clauses {}, the text says {}; text={!r}".format(
                mode, got[0], got[1][:12], s, text[:300]))
        if len(s.clauses) > 1:
            labels.append('clauses>=2')
        if any(len(c) == 0 for c in s.clauses):
            labels.append('accepted-empty-clause')
    elif verdict.cls == 'reject':
        labels.append('rejected-' + verdict.strict.reason)
        if exc is None:
            raise Violation("[{}] malformed text accepted ({}: {}): returned {} variables and clauses {}; text={!r}".format(
                mode, verdict.strict.reason, verdict.strict.detail, got[0], got[1][:12], text[:300]))
    else:
        labels.append('gray')
        labels.append('gray-returned' if exc is None else 'gray-rejected')
        if exc is None and (got[0], tuple(tuple(c) for c in got[1])) not in verdict.allowed:
            raise Violation("[{}] gray text misread: returned {} variables and clauses {}; permissive readings are {}; text={!r}".format(
                mode, got[0], got[1][:12], verdict.lenient[:3], text[:300]))
    has_p = any(ln.strip()[:1] == 'p' for ln in text.split('\n'))
    ntok = sum(len(ln.split()) for ln in text.split('\n') if ln.strip()[:1] not in ('c', 'p', ''))
    return Outcome(labels=labels, nontrivial=has_p and ntok >= 1, rejected=exc is not None)


# ---- (b') the reader at scale: texts of 1..4 MiB, every alignment of the text with the powers of two

BIG_MODES = ['file', 'strio', 'handle', 'parse', 'stdin', 'handle-raw', 'cli-file']
BIG_SEPS = [' ', ' ', ' ', ' ', '  ', '\t', ' \t ', '\n', '\n', ' \n', '\r\n', '\nc 1 0\n']
BIG_HUGE_N = 10 ** 9 + 7
CUT_EXPONENTS = (16, 20, 21, 22)
_BIG_MEMO = {}


def _big_body(size, shape, salt):
    """-> (clause list, text of the clauses without problem line).  Pseudo-random clauses of width 0..5 over
    variables of 1..5 digits (log-uniform), rendered in the given shape, at least `size` characters."""
    key = (size, shape, salt)
    if key in _BIG_MEMO:
        return _BIG_MEMO[key]
    rng = random.Random(salt * 7919 + size)
    rnd = rng.random
    clauses, out, tot = [], [], 0
    nseps = len(BIG_SEPS)
    since_nl = 0
    while tot < size:
        c = []
        for _ in range(int(rnd() * 6)):
            v = int(10 ** (rnd() * 4.99))
            c.append(v if rnd() < .5 else -v)
        clauses.append(c)
        if shape == 'writer':
            ln = ''.join([str(l) + ' ' for l in c]) + '0\n'
        elif shape == 'free':
            ln = ''.join([str(l) + BIG_SEPS[int(rnd() * nseps)] for l in c]) + '0' + BIG_SEPS[int(rnd() * nseps)]
        elif shape == 'long':           # lines of about 100000 characters
            ln = ''.join([str(l) + ' ' for l in c]) + '0'
            since_nl += len(ln) + 1
            if since_nl > 100000:
                ln += '\n'
                since_nl = 0
            else:
                ln += ' '
        elif shape == 'oneline':        # every clause on one line
            ln = ''.join([str(l) + ' ' for l in c]) + '0 '
        else:
            raise KeyError(shape)
        out.append(ln)
        tot += len(ln)
    body = ''.join(out)
    if not body.endswith('\n'):
        body = body.rstrip(' \t') + '\n'
    _BIG_MEMO.clear()
    _BIG_MEMO[key] = (clauses, body)
    return clauses, body


def _filler(k, wide=0):
    """A piece of exactly k characters that adds nothing to the formula (blank line / comment line)."""
    if k <= 0:
        return ''
    if k == 1:
        return '\n'
    w = min(wide, k - 2)
    return 'c' + 'é' * w + 'x' * (k - 2 - w) + '\n'


def _cut_kind(text, B):
    a, b = text[B - 1], text[B]
    if a == '\n':
        return 'nl|'
    if b in '\r\n':
        return '|nl'
    if a == '-':
        return 'minus|digit'
    if a.isdigit():
        return 'tok|tok' if b.isdigit() else ('tok|blank' if b in ' \t' else 'other')
    if a in ' \t' and (b.isdigit() or b == '-'):
        return 'blank|tok'
    return 'other'


def _big_text(spec):
    """-> (text, n, clauses, valid).  spec: size, shape, salt, n ('tight'|'huge'), pad | align=[kind, exponent],
    wide, total (exact length of the whole text), eol, defect ('range'|'count+1'|'count-1'|'open') + where"""
    clauses, body = _big_body(spec['size'], spec['shape'], spec.get('salt', 1))
    top = max([abs(l) for c in clauses for l in c] + [0])
    n = top if spec.get('n', 'tight') == 'tight' else BIG_HUGE_N
    m = len(clauses)
    defect = spec.get('defect')
    if defect == 'range':
        # one literal of one clause is n+1: the clause number is given as a fraction of the text, or taken
        # next to the 2^e-th character
        clauses = list(clauses)
        if 'near' in spec:
            # the clause that holds character 2^near of the body (writer shape: one clause per line)
            i = body.count('\n', 0, 1 << spec['near'])
        else:
            i = int(spec.get('where', 0.5) * (m - 1))
        while not clauses[i]:
            i += 1
        lines = body.split('\n')
        if spec['shape'] != 'writer':
            raise KeyError('defect range needs the writer shape')
        clauses[i] = [n + 1] + clauses[i][1:]
        lines[i] = ''.join([str(l) + ' ' for l in clauses[i]]) + '0'
        body = '\n'.join(lines)
    elif defect == 'count+1':
        m += 1
    elif defect == 'count-1':
        m -= 1
    elif defect == 'open':
        body += '1 -2\n'             # a last clause without its closing 0
    head = 'p cnf {} {}\n'.format(n, m)
    T0 = head + body
    wide = spec.get('wide', 0)
    if 'align' in spec:
        kind, e = spec['align']
        B = 1 << e
        pad = 0
        for p in range(0, 65):
            if 1 <= B - p < len(T0) and _cut_kind(T0, B - p) == kind:
                pad = p
                break
    else:
        pad = spec.get('pad', 0)
    text = _filler(pad, wide) + T0
    if 'total' in spec:
        rest = spec['total'] - len(text)
        if rest < 0:
            text = None          # the body is already longer: the enumerator asked for too little
        else:
            text += _filler(rest)
    if text is not None and not spec.get('eol', True):
        text = text.rstrip('\r\n')
    return text, n, clauses, defect is None


def _read_big(text, mode):
    """-> ((n, clauses), None) or (None, exception)"""
    from cnfgen import CNF
    from cnfgen.utils.parsedimacs import parse_dimacs
    from cnfgen.clitools.cmdline import CLIError
    if mode == 'parse':
        try:
            seq = list(parse_dimacs(io.StringIO(text)))
        except ValueError as e:
            return None, e
        if len(seq) < 2 or seq[1] != len(seq) - 2:
            raise Violation("parse_dimacs yields m={} followed by {} clauses on a text of {} characters".format(
                seq[1] if len(seq) > 1 else None, len(seq) - 2, len(text)))
        return (seq[0], [list(c) for c in seq[2:]]), None
    if mode == 'strio':
        try:
            return _snapshot(CNF.from_file(io.StringIO(text))), None
        except ValueError as e:
            return None, e
    if mode == 'stdin':
        old = sys.stdin
        sys.stdin = io.StringIO(text)
        try:
            return _snapshot(CNF.from_file()), None
        except ValueError as e:
            return None, e
        finally:
            sys.stdin = old
    tmp = _tmpdir()
    try:
        path = os.path.join(tmp, 'big.cnf')
        with open(path, 'wb') as f:
            f.write(text.encode('utf-8'))
        try:
            if mode == 'file':
                return _snapshot(CNF.from_file(path)), None
            if mode == 'handle':
                with open(path, encoding='utf-8') as fh:
                    return _snapshot(CNF.from_file(fh)), None
            if mode == 'handle-raw':
                with open(path, encoding='utf-8', newline='', buffering=1 << 16) as fh:
                    return _snapshot(CNF.from_file(fh)), None
            if mode == 'cli-file':
                F, _ = _run_cli(['cnfgen', '-q', 'dimacs', path], 'formula')
                gc.collect()
                return _snapshot(F), None
        except (ValueError, CLIError) as e:
            return None, e
        raise KeyError(mode)
    finally:
        shutil.rmtree(tmp, ignore_errors=True)


def run_reader_big(case):
    spec, mode = case['big'], case['mode']
    text, n, clauses, valid = _big_text(spec)
    if text is None:
        return Outcome(labels=['big-spec-unmet'], nontrivial=False)
    labels = ['big', 'big-mode-' + mode, 'big-shape-' + spec['shape'], 'big-n-' + spec.get('n', 'tight'),
              'big>=2^{}'.format(min(22, len(text).bit_length() - 1))]
    for e in CUT_EXPONENTS:
        if (1 << e) < len(text):
            labels.append('cut{}-{}'.format(e, _cut_kind(text, 1 << e)))
    if len(text) in (1 << 16, 1 << 20, 1 << 21, 1 << 22):
        labels.append('big-length-power-of-two')
    if not spec.get('eol', True):
        labels.append('big-no-final-newline')
    what = "[{}] text of {} characters ({} shape, n {}, {} filler characters in front)".format(
        mode, len(text), spec['shape'], spec.get('n', 'tight'), text.index('p cnf'))
    if spec.get('ref', len(text) < (3 << 19) and (spec['shape'] != 'writer' or not valid or 'total' in spec)):
        # the generator is checked against the independent reader (and the reader against the generator)
        s = rd.interpret(text, **rd.STRICT)
        if valid and not (s.ok and s.n == n and s.clauses == clauses):
            raise RuntimeError("big-text generator and reference reader disagree: {}".format(repr(s)[:200]))
        if not valid and s.ok:
            raise RuntimeError("reference reader accepts a text built as malformed ({})".format(spec['defect']))
        labels.append('big-ref-checked')
    got, exc = _read_big(text, mode)
    if valid:
        labels.append('accepted')
        if exc is not None:
            raise Violation("{}: valid DIMACS rejected ({}: {}); the text has {} variables and {} well formed clauses; "
                            "characters around 2^20: {!r}".format(what, type(exc).__name__, str(exc)[:120], n, len(clauses),
                                                                 text[(1 << 20) - 20:(1 << 20) + 20]))
        if got[0] != n or got[1] != clauses:
            i = next((i for i, (a, b) in enumerate(zip(got[1], clauses)) if a != b), min(len(got[1]), len(clauses)))
            raise Violation("{}: misread: returned {} variables / {} clauses, the text has {} / {}; clause #{} read as {}, "
                            "written {}".format(what, got[0], len(got[1]), n, len(clauses), i,
                                                got[1][i] if i < len(got[1]) else None,
                                                clauses[i] if i < len(clauses) else None))
    else:
        labels.append('rejected-big-' + spec['defect'])
        if exc is None:
            raise Violation("{}: malformed text accepted (defect: {}): returned {} variables / {} clauses".format(
                what, spec['defect'], got[0], len(got[1])))
    return Outcome(labels=labels, nontrivial=True, rejected=exc is not None)


def enum_reader_big(tier):
    M = 1 << 20
    slack = 4096
    q = [   # quick tier: each kind of cut at the 2^20-th character, one text per block size 2^16 / 2^21 / 2^22
        ({'size': M + slack, 'shape': 'writer', 'n': 'huge', 'align': ['tok|blank', 20], 'ref': True}, 'file'),
        ({'size': 4 * M + slack, 'shape': 'writer', 'n': 'huge', 'align': ['tok|blank', 22], 'salt': 3}, 'strio'),
        ({'size': M + slack, 'shape': 'writer', 'n': 'tight', 'align': ['blank|tok', 20]}, 'strio'),
        ({'size': 2 * M + slack, 'shape': 'writer', 'n': 'huge', 'align': ['blank|tok', 21], 'wide': 5, 'salt': 2}, 'stdin'),
        ({'size': M + slack, 'shape': 'writer', 'n': 'huge', 'align': ['nl|', 20]}, 'handle'),
        ({'size': M + slack, 'shape': 'free', 'n': 'huge', 'align': ['tok|tok', 20]}, 'parse'),
        ({'size': M + slack, 'shape': 'writer', 'n': 'tight', 'align': ['minus|digit', 20]}, 'handle-raw'),
        ({'size': M + slack, 'shape': 'writer', 'n': 'huge', 'align': ['|nl', 20]}, 'cli-file'),
        ({'size': M + (1 << 17), 'shape': 'long', 'n': 'huge', 'align': ['tok|blank', 16]}, 'file'),
        ({'size': M + slack, 'shape': 'oneline', 'n': 'tight', 'align': ['blank|tok', 20]}, 'strio'),
        ({'size': M - 200, 'shape': 'writer', 'n': 'huge', 'total': M}, 'file'),
        ({'size': M + slack, 'shape': 'writer', 'n': 'tight', 'defect': 'range', 'near': 20, 'pad': 7}, 'file'),
        ({'size': M + slack, 'shape': 'free', 'n': 'huge', 'defect': 'count-1', 'pad': 3}, 'strio'),
        ({'size': M + slack, 'shape': 'free', 'n': 'tight', 'defect': 'open', 'pad': 0, 'eol': False}, 'parse'),
    ]
    for spec, mode in q:
        yield {'big': spec, 'mode': mode}
    if tier != 'thorough':
        return
    nm = len(BIG_MODES)
    for pad in range(65):           # the same body for 65 consecutive cases: it is built once per process
        for mode in ('file', 'strio'):
            yield {'big': {'size': M + slack, 'shape': 'writer', 'n': 'huge', 'pad': pad, 'wide': pad % 3}, 'mode': mode}
    for pad in range(65):
        yield {'big': {'size': M + slack, 'shape': 'writer', 'n': 'tight', 'pad': pad, 'salt': 5}, 'mode': BIG_MODES[pad % nm]}
    for pad in range(65):
        yield {'big': {'size': M + slack, 'shape': 'free', 'n': 'huge', 'pad': pad, 'salt': 4}, 'mode': BIG_MODES[(pad + 2) % nm]}
    for pad in range(65):
        yield {'big': {'size': 2 * M + slack, 'shape': 'writer', 'n': 'huge', 'pad': pad, 'salt': 2}, 'mode': BIG_MODES[(pad + 4) % nm]}
    for pad in range(0, 65, 3):
        yield {'big': {'size': 4 * M + slack, 'shape': 'writer', 'n': 'huge', 'pad': pad, 'salt': 3}, 'mode': BIG_MODES[pad % nm]}
    for shape in ('long', 'oneline'):
        for pad in range(0, 65, 2):
            yield {'big': {'size': M + (1 << 17), 'shape': shape, 'n': 'huge', 'pad': pad, 'salt': 6}, 'mode': BIG_MODES[pad % nm]}
    for e in (16, 20, 21):
        for d in (-2, -1, 0, 1, 2):     # the text ends at, just before, just after a block edge; with and without final LF
            for eol in (True, False):
                yield {'big': {'size': (1 << e) - 300, 'shape': 'writer', 'n': 'huge', 'total': (1 << e) + d, 'eol': eol,
                               'salt': 7}, 'mode': BIG_MODES[(d + e) % nm]}
    for kind in ('tok|blank', 'blank|tok', 'tok|tok', 'nl|', '|nl', 'minus|digit'):
        for i, defect in enumerate(('range', 'count+1', 'count-1', 'open')):
            spec = {'size': M + slack, 'shape': 'writer', 'n': 'tight', 'defect': defect, 'align': [kind, 20], 'salt': 8}
            if defect == 'range':
                spec['near'] = 20
            yield {'big': spec, 'mode': BIG_MODES[i % nm]}


# ---- (b'') the reader at the level of bytes: files that are not (clean) UTF-8 text
#
# A case is {'data': <the bytes of the file, one character U+0000..U+00FF per byte>, 'bmode': ..., 'origin': [...]}.
#   bmode 'name-lib' | 'name-cnfgen' | 'name-shuffle'  the file is given BY NAME to CNF.from_file(name),
#         cli(['cnfgen','-q','dimacs',name], mode='formula'), cnfshuffle's cli([... '-p','-v','-c','-i',name], 'formula')
#   bmode 'name-cnfgen-main' | 'name-shuffle-main'     the same through main() (exit status, stdout, stderr)
#   bmode 'handle'  + 'h': [encoding, errors, newline, via]: the CALLER opens the file; via from_file | parse |
#         stdin-lib | stdin-cnfgen | stdin-shuffle (the handle stands in for sys.stdin)
#   bmode 'proc'    + 'proc': [tool, env]: the real program in a process of its own; env utf8 | ascii (the file
#         by name under a UTF-8 / an ASCII locale), stdin-latin1 | stdin-utf8 (the bytes on the standard input,
#         PYTHONIOENCODING chosen by the caller)

BYTE_JUNK = [
    # (name, bytes, class)
    ('ff', b'\xff', 'invalid'), ('fe', b'\xfe', 'invalid'), ('80', b'\x80', 'invalid'), ('9f', b'\x9f', 'invalid'),
    ('bf', b'\xbf', 'invalid'), ('a0', b'\xa0', 'invalid'), ('85', b'\x85', 'invalid'), ('b2', b'\xb2', 'invalid'),
    ('c0', b'\xc0', 'invalid'), ('c3', b'\xc3', 'invalid'), ('e9', b'\xe9', 'latin1'), ('e4f6fc', b'\xe4\xf6\xfc', 'latin1'),
    ('d1', b'\xd1', 'latin1'), ('trunc3', b'\xe2\x82', 'invalid'), ('trunc4', b'\xf0\x9f\x98', 'invalid'),
    ('trunc3-1', b'\xe6', 'invalid'), ('surrogate', b'\xed\xa0\x80', 'invalid'), ('overlong', b'\xc0\xaf', 'invalid'),
    ('overlong-nul', b'\xc0\x80', 'invalid'), ('5byte', b'\xf8\x88\x80\x80\x80', 'invalid'),
    ('beyond', b'\xf4\x90\x80\x80', 'invalid'), ('bom16le', b'\xff\xfe', 'bom'), ('bom16be', b'\xfe\xff', 'bom'),
    ('bom8', b'\xef\xbb\xbf', 'bom'), ('nul', b'\x00', 'nul'), ('nuls', b'\x00\x00\x00', 'nul'),
    ('e-acute', 'é'.encode('utf-8'), 'valid'), ('nbsp', '\xa0'.encode('utf-8'), 'valid'),
    ('nel', '\x85'.encode('utf-8'), 'valid'), ('zwsp', '\u200b'.encode('utf-8'), 'valid'),
    ('fullwidth-1', '\uff11'.encode('utf-8'), 'valid'), ('arabic-3', '\u0663'.encode('utf-8'), 'valid'),
    ('linesep', '\u2028'.encode('utf-8'), 'valid'), ('emoji', '\U0001f600'.encode('utf-8'), 'valid'),
    ('del', b'\x7f', 'valid'), ('esc', b'\x1b', 'valid'),
]
BYTE_JUNK_BY_NAME = {j[0]: j for j in BYTE_JUNK}
BYTE_POS = ['start', 'comment-mid', 'comment-head', 'comment-front', 'comment-end', 'p-front', 'p-word', 'p-n', 'p-gap',
            'p-m', 'p-end', 'lit-digits', 'lit-sign', 'lit-front', 'lit-back', 'gap', 'alone', 'zero-front', 'zero-back',
            'eol', 'eof', 'eof-nonl']
BYTE_POS_HARMLESS = ('comment-mid', 'comment-head', 'comment-end')
HANDLE_CODECS = [['utf-8', 'strict'], ['latin-1', 'strict'], ['ascii', 'surrogateescape'], ['utf-8', 'surrogateescape'],
                 ['utf-8', 'ignore'], ['utf-8', 'replace'], ['ascii', 'ignore'], ['ascii', 'replace'],
                 ['utf-8-sig', 'strict'], ['cp1252', 'strict'], ['ascii', 'strict'], ['utf-8', 'backslashreplace'],
                 ['utf-16', 'strict'], ['latin-1', 'ignore']]
HANDLE_VIAS = ['from_file', 'from_file', 'from_file', 'parse', 'parse', 'stdin-lib', 'stdin-cnfgen', 'stdin-shuffle']
HANDLE_NEWLINES = [None, None, '', '\n']
NAME_BMODES = ['name-lib', 'name-cnfgen', 'name-shuffle', 'name-cnfgen-main', 'name-shuffle-main']
NAME_CODECS = ['utf-8', 'utf-8-sig', 'latin-1', 'cp1252', 'ascii']
PROC_ENVS = {
    'utf8': {'LC_ALL': 'C.UTF-8', 'LANG': 'C.UTF-8', 'PYTHONUTF8': '0'},
    'ascii': {'LC_ALL': 'C', 'LANG': 'C', 'PYTHONUTF8': '0', 'PYTHONCOERCECLOCALE': '0'},
    'stdin-latin1': {'PYTHONIOENCODING': 'latin-1'},
    'stdin-utf8': {'PYTHONIOENCODING': 'utf-8'},
}
SHUFFLE_FIXED = ['-q', '-p', '-v', '-c']       # no flips, no permutations: the tool hands back what it read


def _byte_base(n, clauses, head=(), mid=None, tail=None, eol=b'\n', m=None):
    """The bytes of a well formed document: comment lines, problem line, one clause per line."""
    lines = [c for c in head]
    lines.append('p cnf {} {}'.format(n, len(clauses) if m is None else m).encode('ascii'))
    for i, c in enumerate(clauses):
        if mid is not None and i == len(clauses) // 2:
            lines.append(mid)
        lines.append(' '.join(str(l) for l in list(c) + [0]).encode('ascii'))
    if tail is not None:
        lines.append(tail)
    return eol.join(lines) + eol


def _byte_positions(base):
    """kind -> list of (start, end, left, right): base[start:end] is replaced by left + junk + right"""
    pos = {k: [] for k in BYTE_POS}
    pos['start'].append((0, 0, b'', b''))
    off = 0
    seen_p = False
    lines = base.split(b'\n')
    nlines = len(lines) - 1 if lines[-1] == b'' else len(lines)
    for li, ln in enumerate(lines[:nlines]):
        end = off + len(ln.rstrip(b'\r'))
        if ln[:1] == b'c':
            pos['comment-front'].append((off, off, b'', b''))
            pos['comment-head'].append((off + 1, off + 1, b'', b''))
            pos['comment-mid'].append((min(end, off + 3), min(end, off + 3), b'', b''))
            pos['comment-end'].append((end, end, b'', b''))
        elif ln[:1] == b'p':
            seen_p = True
            f = ln.rstrip(b'\r').split(b' ')           # p cnf n m
            o_n = off + len(f[0]) + 1 + len(f[1]) + 1
            o_m = o_n + len(f[2]) + 1
            pos['p-front'].append((off, off, b'', b''))
            pos['p-word'].append((off + 3, off + 3, b'', b''))
            pos['p-n'].append((o_n + 1, o_n + 1, b'', b'') if len(f[2]) > 1 else (o_n, o_n, b'', b''))
            pos['p-gap'].append((o_m - 1, o_m, b'', b''))
            pos['p-m'].append((o_m + len(f[3]) - 1, o_m + len(f[3]) - 1, b'', b'') if len(f[3]) > 1 else (o_m, o_m, b'', b''))
            pos['p-end'].append((end, end, b'', b''))
        elif seen_p:
            o = off
            toks = ln.rstrip(b'\r').split(b' ')
            for ti, t in enumerate(toks):
                if t != b'0':
                    digits = t.lstrip(b'-')
                    d0 = o + len(t) - len(digits)
                    if len(digits) > 1:
                        pos['lit-digits'].append((d0 + 1, d0 + 1, b'', b''))
                    if t[:1] == b'-':
                        pos['lit-sign'].append((o + 1, o + 1, b'', b''))
                    pos['lit-front'].append((o, o, b'', b''))
                    pos['lit-back'].append((o + len(t), o + len(t), b'', b''))
                else:
                    pos['zero-front'].append((o, o, b'', b''))
                    pos['zero-back'].append((o + 1, o + 1, b'', b''))
                if ti + 1 < len(toks):
                    pos['gap'].append((o + len(t), o + len(t) + 1, b'', b''))
                    pos['alone'].append((o + len(t), o + len(t) + 1, b' ', b' '))
                o += len(t) + 1
            if li + 1 < nlines:
                pos['eol'].append((off + len(ln), off + len(ln) + 1, b'', b''))
        off += len(ln) + 1
    pos['eof'].append((len(base), len(base), b'', b''))
    if base.endswith(b'\n'):
        pos['eof-nonl'].append((len(base) - 1, len(base), b'', b''))
    return pos


def _byte_inject(base, edits):
    """edits: [[position kind, index, junk name], ...] applied to the base from the back to the front"""
    pos = _byte_positions(base)
    todo = []
    for kind, idx, junk in edits:
        where = pos[kind]
        if where:
            s, e, left, right = where[idx % len(where)]
            todo.append((s, e, left + BYTE_JUNK_BY_NAME[junk][1] + right))
    data = base
    for s, e, rep in sorted(todo, reverse=True):
        data = data[:s] + rep + data[e:]
    return data


# lines made of lone punctuation after the last clause, and what follows them: the reader never drops the end of a text
TRAIL_PUNCT = [b'%', b'0', b'c', b'p', b' % ', b'\t0', b'c%', b'%0', b'% 0']
TRAIL_AFTER = [[], [[2, -1]], [[1], [-2, 1]], [b'0'], [b'x y'], [b'%'], [b'c end'], [b'p cnf 1 1', [1]], [[]], [b'1 2'],
               [b'%', [1, 2]], [b'0', b'%']]
TRAIL_M = ['before', 'full']


def _byte_trail(n, clauses, punct, after, m_kind, head=(), eol=b'\n', final_eol=True):
    """-> (bytes, least number of clauses of any complete reading): the document, a lone-punctuation line, then `after`
    (lists = clause lines, bytes = literal lines).  m_kind: the problem line counts the clauses in front of the
    punctuation line ('before') or every closing 0 of the text ('full')."""
    lines = [punct] + [(' '.join(str(l) for l in list(a) + [0]).encode('ascii') if isinstance(a, list) else a) for a in after]
    zeros = sum(ln.split().count(b'0') for ln in lines if ln.strip()[:1] not in (b'c', b'p'))
    base = _byte_base(n, clauses, head, None, None, eol, m=len(clauses) + (zeros if m_kind == 'full' else 0))
    data = base + eol.join(lines) + (eol if final_eol else b'')
    return data, len(clauses) + zeros


def _strict_decodings(data, more=()):
    """text -> [codecs]: what the strict decoders of the usual encodings make of the bytes"""
    import codecs
    import locale
    names = list(NAME_CODECS) + list(more)
    names.append(codecs.lookup(locale.getpreferredencoding(False)).name)
    if data[:2] in (b'\xff\xfe', b'\xfe\xff'):
        names.append('utf-16')
    if data[:4] in (b'\xff\xfe\x00\x00', b'\x00\x00\xfe\xff'):
        names.append('utf-32')
    out = {}
    for c in names:
        try:
            t = data.decode(c)
        except UnicodeError:
            continue
        if c not in out.setdefault(t, []):
            out[t].append(c)
    return out


def _stream_decode(data, enc, errors):
    """The text a stream with this encoding and error handler delivers (None: it raises) - by the codec's
    incremental decoder, which is what a text stream uses (utf-16 without byte order mark is refused there)."""
    import codecs
    try:
        return codecs.getincrementaldecoder(enc)(errors).decode(data, True)
    except UnicodeError:
        return None


def _drop_sensitive(data):
    """Would a decoder that DROPS what it cannot decode (or NULs, or a BOM) turn the file into a well formed
    document although no strict decoding of it is one?  Such files expose a reader that glues digits."""
    texts = {data.decode('utf-8', 'ignore'), data.decode('ascii', 'ignore')}
    texts |= {t.replace('\x00', '').replace('\ufeff', '') for t in list(texts)}
    return any(rd.interpret(t, **rd.STRICT).ok for t in texts)


def _key(got):
    return (got[0], tuple(tuple(c) for c in got[1]))


def _judge_by_name(data, got, exc, required, what):
    """A file given by name: the reader chooses the decoding.  Whatever it chooses, it either refuses the file or
    returns the reference reading of the text that a STRICT decoder of a usual encoding makes of the bytes.
    `required`: the codec the entry point is known to use (a valid document in it may not be refused)."""
    decs = _strict_decodings(data)
    verdicts = {t: rd.classify(t) for t in decs}
    labels = []
    if exc is None:
        labels.append('bytes-returned')
        key = _key(got)
        if not any(v.cls != 'reject' and key in v.allowed for v in verdicts.values()):
            seen = ['{}: {}'.format('/'.join(cs), verdicts[t].strict if verdicts[t].cls != 'gray' else
                                    'gray {}'.format(verdicts[t].lenient[:2])) for t, cs in decs.items()]
            undec = [c for c in NAME_CODECS if not any(c in cs for cs in decs.values())]
            raise Violation("{}: returned {} variables and clauses {} - no strict decoding of the bytes reads so "
                            "({}{}); bytes={!r}".format(what, got[0], got[1][:12], '; '.join(seen)[:700],
                                                        '; not decodable as ' + '/'.join(undec) if undec else '',
                                                        data[:300]))
    else:
        labels.append('bytes-refused')
        try:
            t = data.decode(required) if required else None
        except UnicodeError:
            t = None
        if t is not None and verdicts.get(t, rd.classify(t)).cls == 'accept':
            raise Violation("{}: a file that is valid DIMACS text in {} is refused ({}: {}); the text says {}; bytes={!r}".format(
                what, required, type(exc).__name__, str(exc)[:120], rd.classify(t).strict, data[:300]))
    try:
        data.decode('utf-8')
        labels.append('bytes-utf8-valid')
    except UnicodeError:
        labels.append('bytes-utf8-invalid')
        if any(v.cls == 'accept' for v in verdicts.values()):
            labels.append('bytes-invalid-but-harmless')
    if all(v.cls == 'reject' for v in verdicts.values()) and _drop_sensitive(data):
        labels.append('bytes-drop-sensitive')        # must be refused; a reader that drops bytes would accept it
    return labels


def _judge_text(text, got, exc, what, data):
    """The caller decoded the bytes: the reference reading is that of the decoded text."""
    label, msg = rd.judge(text, got, exc is not None)
    if msg is not None:
        raise Violation("{}: {}; decoded text={!r}; bytes={!r}".format(what, msg, text[:300], data[:300]))
    return ['bytes-text-' + label.split('-')[0], 'bytes-returned' if exc is None else 'bytes-refused']


def _tool_formula(tool, args, stdin=None):
    """cli(argv, mode='formula') of a tool, in-process -> ((n, clauses), None) | (None, CLIError/ValueError)"""
    from cnfgen.clitools.cmdline import CLIError
    from vlib import cli as vcli
    mod = vcli._module(tool)
    _reset_cli_state()
    old = (sys.stdout, sys.stderr, sys.stdin)
    sys.stdout, sys.stderr = _Buf(), _Buf()
    sys.stdin = stdin if stdin is not None else io.StringIO('')
    try:
        F = mod.cli([tool] + [str(a) for a in args], mode='formula')
        return _snapshot(F), None
    except (CLIError, ValueError) as e:
        return None, e
    finally:
        sys.stdout, sys.stderr, sys.stdin = old
        _reset_cli_state()


def _stdout_reading(out, code, err, what, data):
    """What a finished program says: ((n, clauses), None) on exit 0 with a DIMACS document, (None, refusal) else"""
    if 'Traceback (most recent call last)' in err:
        raise Violation("{}: the program ends with a traceback: {!r}; bytes={!r}".format(what, err[-400:], data[:300]))
    if code != 0:
        if err.strip() == '':
            raise Violation("{}: exit status {} without a word on the standard error; bytes={!r}".format(what, code, data[:300]))
        return None, ValueError('exit status {}: {}'.format(code, err.strip()[:160]))
    s = rd.interpret(out, **rd.STRICT)
    if not s.ok:
        raise Violation("{}: exit status 0 but the standard output is not a DIMACS document ({}: {}): {!r}; bytes={!r}".format(
            what, s.reason, s.detail, out[:200], data[:300]))
    return (s.n, s.clauses), None


def _proc_run(tool, args, env_name, stdin_bytes):
    from vlib import cli as vcli
    env = {k: v for k, v in os.environ.items() if k not in ('PYTHONHASHSEED', 'LC_ALL', 'LC_CTYPE', 'LANG', 'PYTHONUTF8',
                                                            'PYTHONIOENCODING', 'PYTHONCOERCECLOCALE')}
    env.update({'PYTHONPATH': REPO, 'PYTHONHASHSEED': '0', 'PYTHONWARNINGS': 'ignore'})
    env.update(PROC_ENVS[env_name])
    code = "import sys; sys.argv[0]={!r}; from {} import main; main()".format(tool, vcli.TOOLS[tool])
    p = subprocess.run([sys.executable] + (['-O'] if sys.flags.optimize else []) + ['-c', code] + args,
                       input=stdin_bytes, stdout=subprocess.PIPE, stderr=subprocess.PIPE, cwd=REPO, env=env, timeout=300)
    return p.returncode & 0xFF, p.stdout.decode('latin-1'), p.stderr.decode('utf-8', 'replace')


def run_reader_bytes(case):
    import codecs
    import locale
    from cnfgen import CNF
    from cnfgen.utils.parsedimacs import parse_dimacs
    from vlib import cli as vcli
    data = case['data'].encode('latin-1')
    bmode = case['bmode']
    labels = ['bytes', 'bytes-mode-' + bmode]
    for o in case.get('origin', []):
        labels.append('bytes-' + o)
    os.makedirs(TMPBASE, exist_ok=True)
    fd, path = tempfile.mkstemp(prefix='c06-', suffix='.cnf', dir=TMPBASE)
    exc = None
    try:
        with os.fdopen(fd, 'wb') as f:
            f.write(data)
        if bmode.startswith('name-'):
            what = "[{}] file given by name".format(bmode)
            pref = codecs.lookup(locale.getpreferredencoding(False)).name
            required = 'utf-8'
            if bmode == 'name-lib':
                try:
                    got, exc = _snapshot(CNF.from_file(path)), None
                except ValueError as e:
                    got, exc = None, e
            else:
                # argparse opens the file: the encoding is the one of the locale
                required = pref if pref in ('utf-8', 'ascii') else 'ascii'
                tool = 'cnfgen' if 'cnfgen' in bmode else 'cnfshuffle'
                args = ['-q', 'dimacs', path] if tool == 'cnfgen' else SHUFFLE_FIXED + ['-i', path]
                if bmode.endswith('-main'):
                    r = vcli.run_main(tool, args)
                    if r.exc is not None:
                        raise Violation("{}: {} escapes from main(): {}; bytes={!r}".format(
                            what, type(r.exc).__name__, str(r.exc)[:160], data[:300]))
                    got, exc = _stdout_reading(r.out, r.code, r.err, what, data)
                else:
                    got, exc = _tool_formula(tool, args)
            labels += _judge_by_name(data, got, exc, required, what)
        elif bmode == 'handle':
            enc, errors, newline, via = case['h']
            what = "[handle {}/{} newline={!r} via {}]".format(enc, errors, newline, via)
            labels += ['bytes-handle-{}-{}'.format(enc, errors), 'bytes-via-' + via]
            text = _stream_decode(data, enc, errors)
            with open(path, 'r', encoding=enc, errors=errors, newline=newline) as fh:
                if via == 'from_file':
                    try:
                        got, exc = _snapshot(CNF.from_file(fh)), None
                    except ValueError as e:
                        got, exc = None, e
                elif via == 'parse':
                    try:
                        seq = list(parse_dimacs(fh))
                        if len(seq) < 2 or seq[1] != len(seq) - 2:
                            raise Violation("{}: parse_dimacs yields m={} followed by {} clauses; bytes={!r}".format(
                                what, seq[1] if len(seq) > 1 else None, len(seq) - 2, data[:300]))
                        got, exc = (seq[0], [list(c) for c in seq[2:]]), None
                    except ValueError as e:
                        got, exc = None, e
                elif via == 'stdin-lib':
                    old = sys.stdin
                    sys.stdin = fh
                    try:
                        got, exc = _snapshot(CNF.from_file()), None
                    except ValueError as e:
                        got, exc = None, e
                    finally:
                        sys.stdin = old
                elif via == 'stdin-cnfgen':
                    got, exc = _tool_formula('cnfgen', ['-q', 'dimacs'], stdin=fh)
                elif via == 'stdin-shuffle':
                    got, exc = _tool_formula('cnfshuffle', SHUFFLE_FIXED, stdin=fh)
                else:
                    raise KeyError(via)
            if text is None:
                labels.append('bytes-handle-cannot-decode')
                if exc is None:
                    raise Violation("{}: the handle cannot decode the bytes, yet {} variables and clauses {} are returned; "
                                    "bytes={!r}".format(what, got[0], got[1][:12], data[:300]))
                labels.append('bytes-refused')
            else:
                labels += _judge_text(text, got, exc, what, data)
                if text != data.decode('latin-1'):
                    labels.append('bytes-handle-decoding-matters')
        elif bmode == 'proc':
            tool, env_name = case['proc']
            what = "[process {} {}]".format(tool, env_name)
            labels.append('bytes-proc-' + env_name)
            by_name = not env_name.startswith('stdin')
            if tool == 'cnfgen':
                args = ['-q', 'dimacs'] + ([path] if by_name else [])
            else:
                args = SHUFFLE_FIXED + (['-i', path] if by_name else [])
            code, out, err = _proc_run(tool, args, env_name, None if by_name else data)
            got, exc = _stdout_reading(out, code, err, what, data)
            if by_name:
                labels += _judge_by_name(data, got, exc, 'utf-8' if env_name == 'utf8' else 'ascii', what)
            else:
                text = _stream_decode(data, PROC_ENVS[env_name]['PYTHONIOENCODING'], 'strict')
                if text is None:
                    if exc is None:
                        raise Violation("{}: the standard input cannot be decoded, yet {} variables and clauses {} are "
                                        "returned; bytes={!r}".format(what, got[0], got[1][:12], data[:300]))
                    labels.append('bytes-refused')
                else:
                    labels += _judge_text(text, got, exc, what, data)
        else:
            raise KeyError(bmode)
    finally:
        os.unlink(path)
    if case.get('trail') is not None:
        # (stated apart from the reference reading) a text is refused or read to its end: what follows a line of lone
        # punctuation is never dropped
        labels.append('bytes-trail-returned' if exc is None else 'bytes-trail-refused')
        if exc is None and len(got[1]) < case['trail']:
            raise Violation("[{}] the end of the text is dropped: {} clauses returned ({}), the text closes {} clauses; "
                            "bytes={!r}".format(bmode, len(got[1]), got[1][:12], case['trail'], data[:300]))
    has_p = b'p' in data
    ntok = sum(len(ln.split()) for ln in data.split(b'\n') if ln.strip()[:1] not in (b'c', b'p', b''))
    return Outcome(labels=labels, nontrivial=has_p and ntok >= 1, rejected=exc is not None)


# documents the byte cases start from: literals of one to three digits, so that two neighbours glued together are
# still below the declared number of variables when that number is generous
BYTE_DOCS = [
    (9999, [[1, -2], [12, 3, -45], [-7, 120], [], [5]], [b'c sample file', b'c'], b'c 1 2 0', b'c end'),
    (120, [[1, -2], [12, 3, -45], [-7, 120]], [], None, None),
    (20000, [[31, 4, -15], [9, -2, 6]], ['c résumé 日本'.encode('utf-8')], None, 'c fin é'.encode('utf-8')),
]


def _byte_case(data, bmode, origin, h=None, proc=None, trail=None):
    case = {'data': data.decode('latin-1'), 'bmode': bmode, 'origin': origin}
    if trail is not None:
        case['trail'] = trail          # the least number of clauses a reading of the whole text has
    if h is not None:
        case['h'] = list(h)
    if proc is not None:
        case['proc'] = list(proc)
    return case


def enum_reader_bytes(tier):
    """every junk x every position on a sample document, each file by name and through handles; whole documents
    in other encodings; the real programs under two locales.  Quick tier: one document, every file through
    CNF.from_file(name), every third through one of the tools, two handles each; thorough tier: the full product."""
    quick = tier != 'thorough'
    k = 0
    lib_vias = ['from_file', 'parse', 'stdin-lib', 'from_file', 'parse']
    for di, (n, clauses, head, mid, tail) in enumerate(BYTE_DOCS[:1] if quick else BYTE_DOCS):
        for eol in ((b'\n',) if quick else (b'\n', b'\r\n')):
            base = _byte_base(n, clauses, head, mid, tail, eol)
            for junk, _, jclass in BYTE_JUNK:
                for posk in BYTE_POS:
                    for idx in ((1,) if quick else (0, 1, 2)):
                        data = _byte_inject(base, [[posk, idx, junk]])
                        origin = ['junk-' + jclass, 'at-' + posk]
                        k += 1
                        if not quick:
                            modes = NAME_BMODES
                        else:
                            modes = ['name-lib'] + [['name-cnfgen'], ['name-shuffle'], [], ['name-cnfgen'], [], [],
                                                    ['name-cnfgen-main'], [], [], ['name-shuffle'], [], [],
                                                    ['name-cnfgen'], [], [], ['name-shuffle-main'], [], []][k % 18]
                        for bm in modes:
                            yield _byte_case(data, bm, origin)
                        for j in range(2 if quick else len(HANDLE_CODECS)):
                            c = HANDLE_CODECS[(k + j * 5) % len(HANDLE_CODECS)]
                            if quick and (k + j) % 12:
                                via = lib_vias[(k // 3 + j) % len(lib_vias)]
                            else:
                                via = HANDLE_VIAS[(k // 3 + j) % len(HANDLE_VIAS)]
                            yield _byte_case(data, 'handle', origin, h=c + [HANDLE_NEWLINES[(k + j) % 4], via])
    # whole documents in another encoding, with and without byte order mark, cut short, padded
    n, clauses, head, mid, tail = BYTE_DOCS[2]
    text = _byte_base(n, clauses, head, mid, tail).decode('utf-8')
    whole = [(enc, text.encode(enc)) for enc in ('utf-8', 'utf-8-sig', 'utf-16', 'utf-16-le', 'utf-16-be', 'utf-32')]
    ltext = text.replace('\u65e5\u672c', '\xfc')
    whole += [('latin-1', ltext.encode('latin-1')), ('cp1252', ltext.replace('fin', 'fin \u20ac').encode('cp1252')),
              ('utf-8-nul-padded', text.encode('utf-8') + b'\x00' * 16),
              ('utf-8-cut', text.encode('utf-8')[:-2]), ('utf-8-cut2', text.encode('utf-8').rstrip(b'\n')[:-1])]
    for enc, data in whole:
        origin = ['whole-' + enc]
        for bm in NAME_BMODES:
            yield _byte_case(data, bm, origin)
        for i, c in enumerate(HANDLE_CODECS):
            for via in ('from_file', 'parse', 'stdin-cnfgen', 'stdin-shuffle', 'stdin-lib'):
                if quick and via.startswith('stdin') and (i >= 4 or via != 'stdin-cnfgen'):
                    continue
                yield _byte_case(data, 'handle', origin, h=c + [None, via])
    # lone punctuation after the last clause x what follows x what the problem line counts
    tk = 0
    for punct in TRAIL_PUNCT:
        for after in TRAIL_AFTER:
            for m_kind in TRAIL_M:
                for eol in ((b'\n',) if quick else (b'\n', b'\r\n')):
                    tk += 1
                    n, clauses = [(9999, [[1, -2], [12, 3, -45]]), (2, [[1, -2], [2]]), (3, [])][tk % 3]
                    data, least = _byte_trail(n, clauses, punct, after, m_kind, head=[b'c trail'][:tk % 2], eol=eol,
                                              final_eol=bool(tk % 5))
                    origin = ['trail', 'trail-' + {b'%': 'percent', b'0': 'zero', b'c': 'c', b'p': 'p'}.get(punct.strip(), 'other'),
                              'trail-m-' + m_kind, 'trail-after-' + ('nothing' if not after else 'clause' if isinstance(after[0], list)
                                                                     else 'line')]
                    if not quick:
                        modes = NAME_BMODES
                    else:
                        modes = ['name-lib'] + [['name-cnfgen'], [], ['name-shuffle'], ['name-cnfgen-main'], [],
                                                ['name-shuffle-main'], []][((tk - 1) // 2) % 7]
                    for bm in modes:
                        yield _byte_case(data, bm, origin, trail=least)
                    for j in range(2 if quick else len(HANDLE_CODECS)):
                        c = HANDLE_CODECS[(tk + j * 5) % len(HANDLE_CODECS)]
                        vias = lib_vias if quick and (tk + j) % 8 else HANDLE_VIAS
                        via = vias[(tk // 3 + j) % len(vias)]
                        yield _byte_case(data, 'handle', origin, h=c + [HANDLE_NEWLINES[(tk + j) % 4], via], trail=least)
    for i, (tool, env_name, punct, after, m_kind) in enumerate(
            [('cnfgen', 'utf8', b'%', [[2, -1]], 'before'), ('cnfshuffle', 'stdin-utf8', b'%', [b'0'], 'before'),
             ('cnfshuffle', 'ascii', b'0', [[1]], 'full'), ('cnfgen', 'stdin-latin1', b'c', [[1, 2]], 'full')] if quick else
            [(t, e, p, a, mk) for t in ('cnfgen', 'cnfshuffle') for e in PROC_ENVS for p in TRAIL_PUNCT[:4]
             for a in TRAIL_AFTER[:5] for mk in TRAIL_M]):
        data, least = _byte_trail(2, [[1, -2], [2]], punct, after, m_kind)
        yield _byte_case(data, 'proc', ['trail', 'trail-m-' + m_kind], proc=[tool, env_name], trail=least)
    # the real programs
    base = _byte_base(*BYTE_DOCS[0])
    procs = [('cnfgen', 'utf8', 'lit-digits', 'ff'), ('cnfgen', 'ascii', 'lit-digits', 'e9'), ('cnfshuffle', 'utf8', 'lit-sign', '80'),
             ('cnfshuffle', 'ascii', 'comment-mid', 'e-acute'), ('cnfgen', 'utf8', 'comment-mid', 'e-acute'),
             ('cnfgen', 'stdin-latin1', 'lit-digits', 'ff'), ('cnfshuffle', 'stdin-latin1', 'comment-mid', 'e9'),
             ('cnfgen', 'stdin-utf8', 'p-n', '9f')]
    if not quick:
        procs = [(t, e, p, j) for t in ('cnfgen', 'cnfshuffle') for e in PROC_ENVS
                 for p in ('start', 'comment-mid', 'p-n', 'lit-digits', 'lit-sign', 'gap', 'eof-nonl')
                 for j in ('ff', '80', 'e9', 'trunc3', 'bom8', 'nul', 'e-acute', 'nbsp', 'a0')]
    for tool, env_name, posk, junk in procs:
        yield _byte_case(_byte_inject(base, [[posk, 1, junk]]), 'proc',
                         ['junk-' + BYTE_JUNK_BY_NAME[junk][2], 'at-' + posk], proc=[tool, env_name])


_S_BLIT = st.builds(lambda v, s: v * s, st.one_of(st.integers(1, 9), st.integers(10, 99), st.integers(100, 140)), _S_SIGN)
_S_BCLAUSES = st.lists(st.lists(_S_BLIT, max_size=4), min_size=1, max_size=5)
_S_BN = st.sampled_from(['tight', 'tight', 99, 9999, 20000])
_S_BCOMMENT = st.sampled_from([b'c', b'c note', b'c p cnf 3 4', b'c 1 2 0', 'c café'.encode('utf-8'),
                               'c 日本語'.encode('utf-8'), b'c\tx', b'c  two  blanks'])
_S_BHEAD = st.lists(_S_BCOMMENT, max_size=2)
_S_BOPT = st.one_of(st.none(), _S_BCOMMENT)
_S_BEOL = st.sampled_from([b'\n', b'\n', b'\n', b'\r\n'])
_S_BEDIT = st.tuples(st.sampled_from(BYTE_POS), _S_CAP, st.sampled_from([j[0] for j in BYTE_JUNK])).map(list)
_S_BEDITS = st.lists(_S_BEDIT, min_size=1, max_size=2)
_S_BMODE = st.sampled_from(['name-lib'] * 8 + ['name-cnfgen'] * 2 + ['name-shuffle'] * 2 +
                           ['name-cnfgen-main', 'name-shuffle-main'] + ['handle'] * 14)
_S_TRAIL_PUNCT = st.sampled_from(TRAIL_PUNCT[:4] * 3 + TRAIL_PUNCT[4:])
_S_TRAIL_AFTER = st.one_of(st.sampled_from(TRAIL_AFTER), st.lists(st.one_of(
    st.lists(_S_BLIT, max_size=3), st.sampled_from([b'0', b'%', b'c', b'p', b'x', b'1 2', b'c 1 0', b'p cnf 1 1'])), max_size=3))
_S_TRAIL_M = st.sampled_from(TRAIL_M)
_S_BH = st.tuples(st.sampled_from(HANDLE_CODECS), st.sampled_from(HANDLE_NEWLINES),
                  st.sampled_from(HANDLE_VIAS[:6] * 3 + HANDLE_VIAS[6:])).map(lambda t: t[0] + [t[1], t[2]])


@st.composite
def _st_reader_bytes(draw):
    clauses = draw(_S_BCLAUSES)
    n = draw(_S_BN)
    top = max([abs(l) for c in clauses for l in c] + [0])
    n = top if n == 'tight' or n < top else n
    bmode = draw(_S_BMODE)
    if draw(_S_SIX) < 3:
        # a quarter of the byte cases: lone punctuation after the last clause (no other damage: the text is plain ASCII
        # apart from its comments, so that every decoding agrees on the clause lines)
        punct, after, m_kind = draw(_S_TRAIL_PUNCT), draw(_S_TRAIL_AFTER), draw(_S_TRAIL_M)
        data, least = _byte_trail(n, clauses, punct, after, m_kind, head=draw(_S_BHEAD), eol=draw(_S_BEOL), final_eol=draw(_S_SIX) > 1)
        origin = ['trail', 'trail-' + {b'%': 'percent', b'0': 'zero', b'c': 'c', b'p': 'p'}.get(punct.strip(), 'other'),
                  'trail-m-' + m_kind, 'trail-after-' + ('nothing' if not after else 'clause' if isinstance(after[0], list) else 'line')]
        return _byte_case(data, bmode, origin, h=draw(_S_BH) if bmode == 'handle' else None, trail=least)
    base = _byte_base(n, clauses, draw(_S_BHEAD), draw(_S_BOPT), draw(_S_BOPT), draw(_S_BEOL))
    edits = draw(_S_BEDITS)
    data = _byte_inject(base, edits)
    origin = sorted({'junk-' + BYTE_JUNK_BY_NAME[e[2]][2] for e in edits} | {'at-' + e[0] for e in edits})
    return _byte_case(data, bmode, origin, h=draw(_S_BH) if bmode == 'handle' else None)


_S_MODE = st.sampled_from(['parse'] * 12 + ['strio'] * 12 + ['file'] * 4 + ['cli-file', 'cli-stdin'])
_ST_READER_BYTES = _st_reader_bytes()
_ST_READER_TEXTS0 = st.tuples(rd.st_reader_text(), _S_MODE).map(
    lambda p: {'text': p[0][0], 'mode': p[1], 'origin': p[0][1]})


# ---- (b3) the state of the stream the reader is handed: seekable streams that are NOT at position 0
#
# case['stream'] = {
#   'carrier':  strio | tmpfile (tempfile.TemporaryFile('w+'), its .name is a descriptor) | named (open(path, 'w+')) |
#               reopened (written through one handle, closed, opened again for reading by the caller)
#   'prefix':   ['none'] | ['record', text] | ['comments', text] | ['junk', text] | ['formula', n, clauses, header]
#               what the stream holds in front (a whole formula is written by the tree's writer)
#   'skip':     seek (tell() before the formula is written, seek() back to it) | readline (rewind, read the lines of
#               the prefix one by one) | read (rewind, read(len(prefix)))   - how the caller gets behind the prefix
#   'n', 'clauses', 'header', 'varnames':  the formula, written AT THE CURRENT POSITION by the tree's writer
#   'suffix':   None | [n, clauses]  another whole formula written behind it
#   'consume':  none | comments (the caller reads the comment lines in front of the problem line) | pline (all lines
#               up to and including the problem line) | all (everything)  - read by the caller before handing over
#   'via':      from_file | parse | stdin-lib | stdin-cnfgen | stdin-shuffle (in-process, the stream stands in for
#               sys.stdin) | proc-cnfgen | proc-shuffle (the real program; its standard input is the file, opened
#               unbuffered by the caller who read the first part from it)
# }
# Oracle: the reference reading of the text from the current position to the end.

STREAM_CARRIERS = ['strio', 'tmpfile', 'named', 'reopened']
STREAM_PREFIXES = ['none', 'record', 'comments', 'junk', 'formula']
STREAM_SKIPS = ['seek', 'readline', 'read']
STREAM_CONSUMES = ['none', 'comments', 'pline', 'all']
STREAM_VIAS = ['from_file', 'parse', 'stdin-lib', 'stdin-cnfgen', 'stdin-shuffle', 'proc-cnfgen', 'proc-shuffle']
STREAM_RECORDS = ['run 17, php 3 2, seed 42\n', 'id;n;m\n7;3;2\n', '# formulas of the experiment\n\n', 'x\n',
                  '1 2 0\n', 'résultat 日本 3\n', '%\n', '{"n": 3, "m": 2}\n']
STREAM_COMMENTS = ['c\n', 'c first part\nc\n', 'c p cnf 3 4\n', 'c 1 2 0\ncé\n']
STREAM_JUNK = ['p cnf 1 1\n1 0\n', 'p cnf 2 5\n1', 'p cnf', '0\n', '1 -2 0\n0\n', 'p cnf 3 1\n1 2 3', '\n\n', '\x00\x01\n',
               '-', 'p cnf 1 0\n%\n', 'c unfinished comment', ' ']
STREAM_FORMULAS = [(4, [[1, -2], [3], [-1, 2, -3]]), (3, []), (2, [[]]), (1, [[1]]), (12, [[10, -12], [11], [], [1, 2, 3, 4]])]


def _stream_formula(n, clauses, header):
    from cnfgen import CNF
    F = CNF(description='formula in a stream')
    F.update_variable_number(n)
    for c in clauses:
        F.add_clause(list(c), check=False)
    if header:
        F.header['note'] = 'second entry'
    return F


def _stream_call(via, stream, what):
    """-> (got, exc): the tree reads from the stream as it is"""
    from cnfgen import CNF
    from cnfgen.utils.parsedimacs import parse_dimacs
    if via == 'from_file':
        try:
            return _snapshot(CNF.from_file(stream)), None
        except ValueError as e:
            return None, e
    if via == 'parse':
        try:
            seq = list(parse_dimacs(stream))
        except ValueError as e:
            return None, e
        if len(seq) < 2 or seq[1] != len(seq) - 2:
            raise Violation("{}: parse_dimacs yields m={} followed by {} clauses".format(
                what, seq[1] if len(seq) > 1 else None, len(seq) - 2))
        return (seq[0], [list(c) for c in seq[2:]]), None
    if via == 'stdin-lib':
        old = sys.stdin
        sys.stdin = stream
        try:
            return _snapshot(CNF.from_file()), None
        except ValueError as e:
            return None, e
        finally:
            sys.stdin = old
    if via == 'stdin-cnfgen':
        return _tool_formula('cnfgen', ['-q', 'dimacs'], stdin=stream)
    if via == 'stdin-shuffle':
        return _tool_formula('cnfshuffle', SHUFFLE_FIXED, stdin=stream)
    raise KeyError(via)


def _stream_proc(tool, path, nbytes, by_lines):
    """The real program with the FILE as standard input, the caller having read `nbytes` bytes (`by_lines` lines when
    not None) from the same open file before."""
    from vlib import cli as vcli
    env = {k: v for k, v in os.environ.items() if k not in ('PYTHONHASHSEED', 'LC_ALL', 'LC_CTYPE', 'LANG', 'PYTHONUTF8',
                                                            'PYTHONIOENCODING', 'PYTHONCOERCECLOCALE')}
    env.update({'PYTHONPATH': REPO, 'PYTHONHASHSEED': '0', 'PYTHONWARNINGS': 'ignore'})
    env.update(PROC_ENVS['utf8'])
    code = "import sys; sys.argv[0]={!r}; from {} import main; main()".format(tool, vcli.TOOLS[tool])
    args = ['-q', 'dimacs'] if tool == 'cnfgen' else list(SHUFFLE_FIXED)
    with open(path, 'rb', buffering=0) as f:
        if by_lines is not None:
            for _ in range(by_lines):
                f.readline()
        else:
            f.read(nbytes)
        if f.tell() != nbytes:
            raise RuntimeError("harness: the file is at {} instead of {}".format(f.tell(), nbytes))
        p = subprocess.run([sys.executable] + (['-O'] if sys.flags.optimize else []) + ['-c', code] + args,
                           stdin=f, stdout=subprocess.PIPE, stderr=subprocess.PIPE, cwd=REPO, env=env, timeout=300)
    return p.returncode & 0xFF, p.stdout.decode('utf-8', 'replace'), p.stderr.decode('utf-8', 'replace')


def run_reader_stream(case):
    sp = case['stream']
    carrier, skip, consume, via = sp['carrier'], sp['skip'], sp['consume'], sp['via']
    prefix = sp['prefix']
    n, clauses = sp['n'], [list(c) for c in sp['clauses']]
    proc = via.startswith('proc-')
    if proc:
        carrier = 'reopened'
    labels = ['stream', 'stream-carrier-' + carrier, 'stream-prefix-' + prefix[0], 'stream-consume-' + consume,
              'stream-via-' + via]
    what = "[stream {} prefix={} skip={} consumed={} via {}]".format(carrier, prefix[0], skip, consume, via)
    F = _stream_formula(n, clauses, sp['header'])
    os.makedirs(TMPBASE, exist_ok=True)
    path = None
    stream = None
    exc = None
    eaten = ''
    try:
        if carrier == 'strio':
            stream = io.StringIO()
        elif carrier == 'tmpfile':
            stream = tempfile.TemporaryFile('w+', encoding='utf-8', dir=TMPBASE)
        else:
            fd, path = tempfile.mkstemp(prefix='c06-', suffix='.txt', dir=TMPBASE)
            os.close(fd)
            stream = open(path, 'w+', encoding='utf-8')
        # -- what the stream holds in front
        if prefix[0] == 'formula':
            _stream_formula(prefix[1], prefix[2], prefix[3]).to_file(stream, export_header=prefix[3], export_varnames=False)
        elif prefix[0] != 'none':
            stream.write(prefix[1])
        start = stream.tell()
        stream.seek(0)
        pre_text = stream.read()
        if skip == 'readline' and pre_text and not pre_text.endswith('\n'):
            stream.write('\n')
            pre_text += '\n'
            start = stream.tell()
        stream.seek(start)
        # -- the formula, by the tree's writer, at the current position
        F.to_file(stream, fileformat='dimacs', export_header=sp['header'], export_varnames=sp['varnames'])
        if sp.get('suffix') is not None:
            _stream_formula(sp['suffix'][0], sp['suffix'][1], False).to_file(stream, export_header=False)
            labels.append('stream-suffix')
        stream.seek(start)
        body = stream.read()
        lines = body.split('\n')
        lines = [ln + '\n' for ln in lines[:-1]] + ([lines[-1]] if lines[-1] else [])
        if consume == 'none':
            k = 0
        elif consume == 'comments':
            k = 0
            while k < len(lines) and lines[k][:1] == 'c':
                k += 1
        elif consume == 'pline':
            k = next(i for i, ln in enumerate(lines) if ln[:1] == 'p') + 1
        else:
            k = len(lines)
        rest = ''.join(lines[k:])
        eaten = pre_text + ''.join(lines[:k])
        if eaten:
            labels.append('stream-pos>0')
        if k:
            labels.append('stream-lines-consumed')
        # -- the caller gets to the position
        if proc:
            stream.close()
            nlines = None
            if skip == 'readline' and '\r' not in eaten and (eaten == '' or eaten.endswith('\n')):
                nlines = eaten.count('\n')
            code, out, err = _stream_proc(via[5:].replace('shuffle', 'cnfshuffle'), path, len(eaten.encode('utf-8')), nlines)
            got, exc = _stdout_reading(out, code, err, what, eaten.encode('utf-8'))
        else:
            if carrier == 'reopened':
                stream.close()
                stream = open(path, 'r', encoding='utf-8')
            if skip == 'seek':
                if carrier == 'reopened':
                    stream.read(len(pre_text))
                    start = stream.tell()
                    stream.seek(0)
                stream.seek(start)
            elif skip == 'readline':
                stream.seek(0)
                for _ in range(pre_text.count('\n')):
                    stream.readline()
            else:
                stream.seek(0)
                stream.read(len(pre_text))
            for _ in range(k):
                stream.readline()
            labels.append('stream-skip-' + skip)
            got, exc = _stream_call(via, stream, what)
        # -- the reference reading of the rest
        label, msg = rd.judge(rest, got, exc is not None)
        if msg is not None:
            raise Violation("{}: the stream was handed over at character {} of {}; from there on: {}; "
                            "in front of the position={!r}; rest={!r}".format(what, len(eaten), len(eaten) + len(rest), msg,
                                                                          eaten[-200:], rest[:300]))
        if consume in ('none', 'comments') and sp.get('suffix') is None:
            # by construction: what the tree's writer put at the position is read back as the same formula
            if exc is not None or (got[0], got[1]) != (n, clauses):
                raise Violation("{}: a formula with {} variables and clauses {} written at character {} of the stream and read "
                                "back from there gives {}; text at the position={!r}".format(
                                    what, n, clauses[:12], len(eaten), '{}: {}'.format(type(exc).__name__, str(exc)[:120])
                                    if exc is not None else '{} variables and clauses {}'.format(got[0], got[1][:12]), rest[:300]))
        elif consume in ('pline', 'all') and sp.get('suffix') is None and exc is None:
            raise Violation("{}: a remainder without problem line is accepted as {} variables and clauses {}; rest={!r}".format(
                what, got[0], got[1][:12], rest[:300]))
        labels.append('stream-returned' if exc is None else 'stream-refused')
        if exc is not None and eaten:
            labels.append('stream-refused-remainder')
        if exc is None and eaten and prefix[0] in ('record', 'junk', 'formula'):
            labels.append('stream-returned-behind-' + prefix[0])
    finally:
        if stream is not None:
            try:
                stream.close()
            except (OSError, ValueError):
                pass
        if path is not None:
            os.unlink(path)
    return Outcome(labels=labels, nontrivial=len(eaten) > 0, rejected=exc is not None)


def _stream_case(carrier, prefix, skip, consume, via, n, clauses, header=True, varnames=False, suffix=None):
    return {'stream': {'carrier': carrier, 'prefix': list(prefix), 'skip': skip, 'consume': consume, 'via': via, 'n': n,
                       'clauses': clauses, 'header': header, 'varnames': varnames, 'suffix': suffix}}


def enum_reader_stream(tier):
    """carriers x prefixes x ways to get behind the prefix x lines consumed x entry points; quick tier: the library
    entry points in full, the in-process tools on every sixth combination, 8 runs of the real programs"""
    quick = tier != 'thorough'
    k = 0
    for carrier in STREAM_CARRIERS:
        for pk in STREAM_PREFIXES:
            for skip in STREAM_SKIPS:
                for consume in STREAM_CONSUMES:
                    for via in STREAM_VIAS[:5]:
                        k += 1
                        if quick and via in ('stdin-cnfgen', 'stdin-shuffle') and k % 6:
                            continue
                        n, clauses = STREAM_FORMULAS[k % len(STREAM_FORMULAS)]
                        if pk == 'none':
                            prefix = ['none']
                        elif pk == 'formula':
                            fn, fc = STREAM_FORMULAS[(k // 3) % len(STREAM_FORMULAS)]
                            prefix = ['formula', fn, fc, bool(k % 2)]
                        else:
                            pool = {'record': STREAM_RECORDS, 'comments': STREAM_COMMENTS, 'junk': STREAM_JUNK}[pk]
                            prefix = [pk, pool[(k // 5) % len(pool)]]
                        suffix = list(STREAM_FORMULAS[(k // 7) % len(STREAM_FORMULAS)]) if k % 11 == 0 else None
                        yield _stream_case(carrier, prefix, skip, consume, via, n, clauses, header=bool((k // 2) % 3),
                                           varnames=bool(k % 4 == 1), suffix=suffix)
    procs = [('proc-cnfgen', ['record', STREAM_RECORDS[0]], 'readline', 'none'),
             ('proc-shuffle', ['record', STREAM_RECORDS[1]], 'read', 'none'),
             ('proc-cnfgen', ['formula', 2, [[1, 2], [-1]], False], 'read', 'comments'),
             ('proc-shuffle', ['formula', 3, [[1, -3]], True], 'readline', 'none'),
             ('proc-cnfgen', ['none'], 'readline', 'pline'), ('proc-shuffle', ['junk', STREAM_JUNK[0]], 'readline', 'pline'),
             ('proc-cnfgen', ['comments', STREAM_COMMENTS[1]], 'readline', 'all'),
             ('proc-shuffle', ['none'], 'readline', 'comments')]
    if not quick:
        procs = [(v, p, s, c) for v in ('proc-cnfgen', 'proc-shuffle')
                 for p in (['none'], ['record', STREAM_RECORDS[0]], ['record', STREAM_RECORDS[5]], ['comments', STREAM_COMMENTS[1]],
                           ['junk', STREAM_JUNK[0]], ['junk', STREAM_JUNK[5]], ['formula', 2, [[1, 2], [-1]], False],
                           ['formula', 3, [[1, -3]], True])
                 for s in ('readline', 'read') for c in STREAM_CONSUMES]
    for i, (via, prefix, skip, consume) in enumerate(procs):
        n, clauses = STREAM_FORMULAS[i % 2 * 4]
        yield _stream_case('reopened', prefix, skip, consume, via, n, clauses, header=bool(i % 3), varnames=False)


_S_STREAM_CARRIER = st.sampled_from(STREAM_CARRIERS)
_S_STREAM_SKIP = st.sampled_from(STREAM_SKIPS)
_S_STREAM_CONSUME = st.sampled_from(['none'] * 4 + ['comments'] * 2 + ['pline'] * 2 + ['all'])
_S_STREAM_VIA = st.sampled_from(['from_file'] * 8 + ['parse'] * 6 + ['stdin-lib'] * 4 + ['stdin-cnfgen', 'stdin-shuffle'])
_S_STREAM_PK = st.sampled_from(['none', 'record', 'record', 'comments', 'junk', 'junk', 'formula', 'formula', 'text', 'text'])
_S_STREAM_RECORD = st.lists(st.one_of(st.sampled_from(STREAM_RECORDS),
                                      st.text(alphabet='abc xyz,;=0123-%\té', min_size=1, max_size=12).map(lambda t: 'r' + t + '\n')),
                            min_size=1, max_size=3).map(''.join)
_S_STREAM_COMMENT = st.lists(st.sampled_from(STREAM_COMMENTS), min_size=1, max_size=3).map(''.join)
_S_STREAM_JUNK = st.one_of(st.sampled_from(STREAM_JUNK), st.text(alphabet='pcnf 0123-+\n\n\t%_', min_size=1, max_size=30))
_S_STREAM_SUFFIX = st.sampled_from([False] * 5 + [True])
_S_STREAM_NEXTRA = st.sampled_from([0, 0, 1, 3])
_S_STREAM_CLAUSES = st.lists(st.lists(st.builds(lambda v, s: v * s, st.integers(1, 9), _S_SIGN), max_size=3), max_size=6)


@st.composite
def _st_reader_stream(draw):
    clauses = draw(_S_STREAM_CLAUSES)
    n = max([abs(l) for c in clauses for l in c] + [0]) + draw(_S_STREAM_NEXTRA)
    pk = draw(_S_STREAM_PK)
    if pk == 'none':
        prefix = ['none']
    elif pk == 'formula':
        pc = draw(_S_STREAM_CLAUSES)
        prefix = ['formula', max([abs(l) for c in pc for l in c] + [0]) + draw(_S_STREAM_NEXTRA), pc, draw(_S_BOOL)]
    elif pk == 'text':
        # any text of the reader's generators (valid documents included); the files are opened with universal newlines
        text = draw(_ST_READER_TEXTS0)['text'].replace('\r', '')
        try:
            text.encode('utf-8')
        except UnicodeEncodeError:
            text = 'p cnf 1 1\n1 0\n'
        prefix = ['junk', text]
    else:
        prefix = [pk, draw({'record': _S_STREAM_RECORD, 'comments': _S_STREAM_COMMENT, 'junk': _S_STREAM_JUNK}[pk])]
    suffix = None
    if draw(_S_STREAM_SUFFIX):
        sc = draw(_S_STREAM_CLAUSES)
        suffix = [max([abs(l) for c in sc for l in c] + [0]), sc]
    return _stream_case(draw(_S_STREAM_CARRIER), prefix, draw(_S_STREAM_SKIP), draw(_S_STREAM_CONSUME), draw(_S_STREAM_VIA),
                        n, clauses, header=draw(_S_BOOL), varnames=draw(_S_BOOL), suffix=suffix)


_ST_READER_STREAM = _st_reader_stream()


_ST_READER_TEXTS = _ST_READER_TEXTS0
_S_SIX = st.sampled_from(list(range(12)))


@st.composite
def _st_reader(draw):
    # (one_of() drops repeated arguments: the share of the byte cases is drawn instead; 1 in 12 draws gives about
    # one byte case in five, the text cases being discarded as duplicates more often)
    k = draw(_S_SIX)
    return draw(_ST_READER_BYTES if k == 11 else _ST_READER_STREAM if k == 10 else _ST_READER_TEXTS)


_ST_READER = _st_reader()


def strat_reader():
    return _ST_READER


def _corpus():
    texts = list(rd.corpus_from_tests(REPO))
    for t in rd.EXTRA_TEXTS:
        if t not in texts:
            texts.append(t)
    return texts


def enum_reader(tier):
    for t in _corpus():
        for mode in READER_MODES:
            yield {'text': t, 'mode': mode, 'origin': ['corpus']}
    yield from enum_reader_bytes(tier)
    yield from enum_reader_stream(tier)


# ---------------------------------------------------------------------------
# (c) atheris campaigns (thorough) + the test-suite's texts (both tiers)

FUZZ_DICT = ['"p cnf "', '"c "', '" 0\\x0a"', '"\\x0a"', '"-"', '" 1"', '" 2"', '"0"', '"p cnf 2 1\\x0a"', '"\\x0d\\x0a"',
             '"+"', '"_"', '"\\x09"', '"\\x0b"', '"\\xd9\\xa3"']
CAMPAIGNS = 16
RUNS_PER_CAMPAIGN = 320000


def _still_fails(mode):
    def f(t):
        try:
            run_reader({'text': t, 'mode': mode})
        except Violation:
            return True
        except Exception as e:      # noqa - an unexpected exception type from the tree is the failure
            from vlib.core import exception_in_tree
            return exception_in_tree(e)
        return False
    return f


def _campaign(case):
    idx, target, corpus_kind, runs, fseed = (case['campaign'], case['target'], case['corpus'],
                                             case['runs'], case['fseed'])
    base = os.path.join(VERIF_DIR, 'out', 'fuzz', 'C06', 'seed{}-campaign{:02d}-{}'.format(fseed, idx, os.getpid()))
    shutil.rmtree(base, ignore_errors=True)
    corpus = os.path.join(base, 'corpus')
    os.makedirs(corpus)
    if corpus_kind == 'seeded':
        for i, t in enumerate(rd.corpus_from_tests(REPO)):
            with open(os.path.join(corpus, 'seed{:03d}'.format(i)), 'wb') as f:
                f.write(t.encode('utf-8'))
    dictfile = os.path.join(base, 'dimacs.dict')
    with open(dictfile, 'w') as f:
        f.write('\n'.join(FUZZ_DICT) + '\n')
    cmd = [sys.executable, '-m', 'vlib.rd_dimacs', '--fuzz', target, base, corpus,
           '-runs={}'.format(runs), '-seed={}'.format(fseed), '-max_len=160', '-dict=' + dictfile,
           '-print_final_stats=1', '-artifact_prefix=' + base + os.sep, '-timeout=30', '-rss_limit_mb=4096']
    log = os.path.join(base, 'log.txt')
    with open(log, 'wb') as lf:
        proc = subprocess.run(cmd, cwd=VERIF_DIR, stdout=lf, stderr=subprocess.STDOUT, timeout=3000)
    finding = os.path.join(base, 'finding.json')
    if os.path.exists(finding):
        with open(finding) as f:
            rec = json.load(f)
        text, mode = rec['text'], rec['mode']
        fails = _still_fails(mode)
        if fails(text):
            text = rd.shrink_text(text, fails)
        found = {'text': text, 'mode': mode, 'origin': ['atheris']}
        d = os.path.join(VERIF_DIR, 'out', 'replays')
        os.makedirs(d, exist_ok=True)
        h = hashlib.sha1(text.encode('utf-8', 'replace')).hexdigest()[:10]
        rp = os.path.join(d, 'C06-reader-fuzz{}.json'.format(h))
        with open(rp, 'w') as f:
            json.dump({'property': 'C06', 'subcheck': 'reader', 'case': found, 'message': rec['message']}, f, indent=1)
        case['found'] = found       # makes the replay of this campaign case a seconds-long re-evaluation
        run_reader(found)           # raises the Violation with the oracle's own message when it reproduces
        raise Violation("atheris campaign {} ({}, {} corpus) reported: {} [input saved as {}]".format(
            idx, target, corpus_kind, rec['message'], rp))
    with open(log, 'rb') as lf:
        tail = lf.read()[-1500:].decode('utf-8', 'replace')
    if proc.returncode != 0:
        raise RuntimeError("atheris campaign {} exited with {} and no finding: {}".format(idx, proc.returncode, tail))
    try:
        with open(os.path.join(base, 'stats.json')) as f:
            stats = json.load(f)
    except OSError:
        raise RuntimeError("atheris campaign {} left no statistics: {}".format(idx, tail))
    import re
    mm = re.search(r'stat::number_of_executed_units:\s*(\d+)', tail)
    executed = int(mm.group(1)) if mm else 0
    if executed < runs or stats.get('execs', 0) < runs - 2000:
        raise RuntimeError("atheris campaign {} executed {} (target counted {}) of {} runs: {}".format(
            idx, executed, stats.get('execs'), runs, tail))
    stats['execs'] = executed
    if not stats.get('accepted'):
        raise RuntimeError("atheris campaign {} never produced a well-formed document (stats {})".format(idx, stats))
    ncorp = len(os.listdir(corpus))
    labels = ['campaign', 'target-' + target, 'corpus-' + corpus_kind]
    for k, v in stats.items():
        if k != 'execs' and v:
            labels.append('fuzz-' + k)
    labels.append('fuzz-execs>=300k' if stats['execs'] >= 300000 else 'fuzz-execs<300k')
    with open(os.path.join(base, 'summary.json'), 'w') as f:
        json.dump({'case': case, 'stats': stats, 'corpus_files': ncorp}, f, indent=1)
    shutil.rmtree(corpus, ignore_errors=True)
    return Outcome(labels=labels, nontrivial=True)


def run_fuzz(case):
    if 'found' in case:
        out = run_reader(case['found'])
        return Outcome(labels=list(out.labels) + ['fuzz-finding-not-reproduced'], nontrivial=True)
    if 'campaign' in case:
        return _campaign(case)
    return run_reader(case)


def enum_fuzz(tier):
    if tier == 'thorough':
        seed = int(os.environ.get('VERIF_SEED', '1'))
        for i in range(CAMPAIGNS):
            yield {'campaign': i, 'target': 'parse' if i % 2 == 0 else 'strio',
                   'corpus': 'empty' if (i // 2) % 2 == 0 else 'seeded',
                   'runs': RUNS_PER_CAMPAIGN, 'fseed': seed * 1000 + i + 1}
    for t in rd.corpus_from_tests(REPO):
        for mode in ('parse', 'strio'):
            yield {'text': t, 'mode': mode, 'origin': ['tests']}


SUBCHECKS = [
    SubCheck('writer', run_writer, strategy=strat_writer, enumerate_cases=enum_writer,
             quick=3000, thorough=75000,
             rule="hand-built CNFs (0..12 variables from singleton/block/anonymous groups with unusual labels, 0..30 clauses of width 0..4, empty clauses, unused variables), 8 library families and 14 cnfgen command lines (incl. `dimacs <file with unusual name>`), chains flip/shuffle/one arity-2 substitution, 0..3 header entries with unusual keys/values, export_header x export_varnames, via to_dimacs/to_file(StringIO)/to_file(None)/to_file(filename)/to_dimacs_file/cnfgen -q|-v [--varnames] [-o]; plus a complete grid of 6 corner formulas x 11 corner texts x 3 positions x flags x 6 paths. Oracle: independent strict reader accepts, one problem line with the true counts, same clauses in order, comment lines start with 'c ', the tree's reader returns the same formula. Non-trivial: >=1 clause and (header on or >=1 unused variable). "
                  "HISTORY (1/3 of the generated cases, kind=history): ONE formula object (CNF(), CNF(description), CNF(clauses), CNF.from_file(...), one of 8 library families, cli(argv, mode='formula') for 11 command lines) is encoded, then changed 2..6 times by add_clause(check=True|False, literals over the current variables or up to 2 beyond, empty clause) / add_clauses_from / update_variable_number(n-2..n+40) / new_variable / new_block / new_combinations, _with_replacement, permutations, words, mapping, binary_mapping, graph_edges, bipartite_edges, digraph_edges / header[k]=v / add_parity / add_linear, with 0..2 encodings after every change and one at the end, each through to_dimacs() (40%), to_file(StringIO|None|the same file name again), to_dimacs_file, with any export flags, and for cli starts cli(argv, mode='string') asked again in between; plus enumerated: encode/change/encode for 3 starts x 26 changes x pairs of paths (all 36 in the thorough tier), encode/change/encode/change/encode for 26 x 26 ordered pairs of changes x 3 paths, 11 command lines x 1 change (new variable / raise of the variable number / clause). Oracle: the harness's own model of the object (n and clause list updated by the documented effect of each operation; group sizes from their combinatorial definition) - every encoding must pass the writer oracle above against the model as it is at that moment, so all paths agree with each other and read back equal; the object must hold the model. Non-trivial: >=2 encodings and >=1 change. "
                  "DESTINATION (1/6 of the generated cases and an enumerated grid, kind=dest): EXPLICIT FORMAT REQUEST x NAME OF THE DESTINATION. Names: 31 fixed ones (f.cnf f.dimacs f.txt f.gml noext f.opb f.tex a.tex.cnf a.opb.cnf a.cnf.opb a.cnf.tex a.opb.tex a.tex.opb F.OPB F.TEX f.Opb f.teX F.CNF .opb .tex 'f.opb.' 'f.tex ' opb tex f.opbx f.latex d.opb/plain d.tex/h.cnf d.cnf/g.opb 'a b.opb' é.tex) and generated ones [d.opb/|d.tex/|d.cnf/] + stem (f a.b 'x y' é .h a.opb a.tex a.cnf '' . F opb) + one of 22 extensions (several dots, upper/mixed case, trailing dot/blank). Requests: none, 'dimacs', 'opb', 'latex' (keyword or positional). Writer paths: to_file(file name), to_file(handle opened by str name / by bytes name / os.fdopen with an int name), to_file(user object with write() and .name = the name | absolute path | bytes | 7 | None | [name] | no attribute), to_file(StringIO given a .name), to_dimacs_file(name | handle | user object), `cnfgen [-q] [--varnames] [-of|--output-format[=]|--latex <fmt>] -o|--output[=]|-o<glued> <name> <8 command lines>`, `cnfshuffle [-q] -p -v -c -i <harness-written DIMACS> -o <name>`, `kthlist2pebbling [-q] -i <harness-written dag of 1..6 vertices> -o <name> [xor 2|or 2|none]` (-o before or after -i), all in-process. Oracle: an explicit request decides the format whatever the name looks like - for 'dimacs' (and always for to_dimacs_file, cnfshuffle, kthlist2pebbling) the destination passes the full writer oracle above against the formula (for cnfshuffle: the formula of the harness-written source; for kthlist2pebbling without transformation also the harness's own pebbling clauses), for 'opb'/'latex' it opens with '* #variable= n #constraint= m' / holds a LaTeX document; WITHOUT a request the documented guess applies (docstring of CNF.to_file / guess_output_format: DIMACS unless the file name ends with '.tex' -> LaTeX or '.opb' -> OPB; that is what the unchanged tree does, on the last extension of a str name, case-sensitive): names whose last extension is exactly 'tex'/'opb' after a non-empty stem must give that format, all other names DIMACS, upper/mixed-case extensions (.TEX, .Opb) end with neither and give DIMACS, except the gray names (a bare '.opb'/'.tex', bytes names) where DIMACS or the suggested format is accepted; nothing goes to stdout. Non-trivial: >=1 clause and the name suggests a format other than the requested one, or a guess from the name.",
             required_labels=['dest', 'dest-request-dimacs-against-name-opb', 'dest-request-dimacs-against-name-latex',
                              'dest-request-opb-against-name-latex', 'dest-request-latex-against-name-opb',
                              'dest-guess-opb', 'dest-guess-latex', 'dest-gray-name', 'dest-dotted-directory',
                              'dest-got-dimacs', 'dest-got-opb', 'dest-got-latex'] +
                             ['dest-path-' + p for p in DEST_LIB_PATHS + DEST_TOOL_PATHS] +
                             ['dest-nameobj-' + k for k in DEST_NAMEOBJ] +
                             ['kind-hand', 'kind-family', 'kind-cli', 'empty-formula', 'empty-clause', 'unused-vars',
                              'header-on', 'header-off', 'varnames-on', 'varnames-off', 'via-to_dimacs', 'via-strio',
                              'via-file', 'via-stdout', 'via-cli-stdout', 'via-cli-file', 'text-lf', 'text-cr',
                              'text-nonascii', 'text-problem-line', 'text-leading-c', 'text-empty', 'chain',
                              'clauses>=20', 'cli-dimacs',
                              'kind-history', 'hist-again-vars-only', 'hist-to_dimacs-again-vars-only',
                              'hist-again-clauses', 'hist-again-comments-only', 'hist-again-unchanged',
                              'hist-cli-string', 'hist-enc>=3', 'hist-ops-2', 'hist-ops-6',
                              'hist-start-empty', 'hist-start-clauses', 'hist-start-read', 'hist-start-family',
                              'hist-start-cli', 'hist-start-described'] +
                             ['hist-op-' + o for o in ('clause', 'clauses', 'numvar', 'var', 'block', 'group', 'header',
                                                       'parity', 'linear')]),
    SubCheck('reader', run_reader, strategy=strat_reader, enumerate_cases=enum_reader,
             quick=20000, thorough=600000,
             rule="grammar of DIMACS-like documents (n<=6, <=6 clauses, comments anywhere, blank lines, several clauses per line, clauses spanning lines, tabs, CRLF) composed with 0..2 of 17 mutators, raw st.text(), text over the alphabet 'pcnf 0123-+_\\n\\t\\r'; every text through parse_dimacs, CNF.from_file(StringIO), CNF.from_file(filename), cnfgen dimacs <file>|<stdin>; plus the texts of tests/test_dimacsparser.py and 41 corner texts x 5 modes. Oracle: reference interpretation (accept => identical formula; reject => ValueError; gray => ValueError or a permissive reading). Non-trivial: problem line and >=1 clause token. "
                  "BYTES (about 1/5 of the generated cases and an enumerated grid, cases with 'data'): FILES THAT ARE NOT CLEAN UTF-8 TEXT - a well formed document (1..5 clauses of width 0..4 over literals of 1..3 digits, declared variables = the largest one or 99 / 9999 / 20000 so that two glued neighbours stay in range, 0..2 comment lines in front, optional comment between and after the clauses, ASCII or UTF-8 comments, LF or CRLF) into which 1..2 pieces out of 36 are put: bytes that are not UTF-8 (0xff 0xfe 0x80 0x9f 0xbf 0xa0 0x85 0xb2 0xc0 0xc3, Latin-1 accented letters, sequences cut after 1, 2, 3 of their bytes, an encoded surrogate, overlong forms, a 5-byte form, a code beyond U+10FFFF), byte order marks (UTF-8, UTF-16 LE/BE), NUL bytes, and valid but odd UTF-8 (e-acute, NBSP, NEL, zero width space, fullwidth and Arabic-Indic digits, U+2028, an emoji, DEL, ESC) at 22 kinds of position: start of the file, inside / right after the 'c' of / in front of / at the end of a comment line, in the problem line (in front, inside 'cnf', between the digits of n, instead of the blank between n and m, in m, at the end), in a clause line (between two digits of a literal, between sign and digits, glued in front of / behind a literal, instead of the blank between two literals, as a token of its own, in front of / behind the closing 0, instead of the line end), at the end of the file with and without the final newline; whole documents encoded in UTF-8, UTF-8 with BOM, UTF-16 (BOM, LE, BE), UTF-32, Latin-1, cp1252, padded with NULs, cut inside the last multi-byte character. Entry points: BY NAME CNF.from_file(name), cli(['cnfgen','-q','dimacs',name]), cnfshuffle's cli(['-q','-p','-v','-c','-i',name]) (nothing is shuffled), the main() of both tools (exit status, stdout, stderr), and the real programs in a process of their own under a UTF-8 and an ASCII locale; HANDLES the caller opened with 14 encoding/error-handler pairs (utf-8 strict|surrogateescape|ignore|replace|backslashreplace, latin-1 strict|ignore, ascii strict|surrogateescape|ignore|replace, utf-8-sig, cp1252, utf-16) x newline None|''|'\\n', given to CNF.from_file(handle), parse_dimacs(handle) or standing in for sys.stdin of CNF.from_file(), cnfgen dimacs, cnfshuffle; the real programs with the bytes on stdin under PYTHONIOENCODING latin-1 / utf-8. Enumerated: 36 pieces x 22 positions on one document (thorough: 3 documents x LF/CRLF x 3 places per kind x all entry points x all 14 handles), 11 whole-document encodings x all entry points x 14 handles, 8 (thorough 504) runs of the real programs. "
                  "Oracle BY NAME: the reader chooses the decoding; it either refuses the file (ValueError / CLIError / non-zero exit with a message and no traceback) or returns a reading that the reference interpretation allows for the text which a STRICT decoder of utf-8, utf-8-sig, latin-1, cp1252, ascii, the locale's encoding (utf-16/32 when the file starts with their BOM) makes of the bytes - so bytes are never dropped with the neighbouring digits glued together, no clause and no variable count is made up; a file that is valid DIMACS text in the encoding the entry point uses (UTF-8 for the library, the locale's for the tools) may not be refused. Oracle HANDLE: the caller chose the decoding; the reference interpretation of the text the codec's incremental decoder yields (accept => identical formula, reject => ValueError, gray => either); when that decoder raises, the reader must refuse with ValueError/CLIError. "
                  "TRAIL (a quarter of the byte cases and an enumerated grid, cases with 'trail'): LINES OF LONE PUNCTUATION AFTER THE LAST CLAUSE - a well formed document (0..5 clauses, no other damage) followed by one line out of '%' '0' 'c' 'p' ' % ' '<tab>0' 'c%' '%0' '% 0' and then by nothing / 1..2 more clause lines / a lone 0 / a junk line / another '%' / a comment / a second document / an empty clause / an open clause / mixtures (generated: 0..3 lines out of clause lines of width 0..3 and '0' '%' 'c' 'p' 'x' '1 2' 'c 1 0' 'p cnf 1 1'), the problem line counting either the clauses in front of the punctuation line or every closing 0 of the text, LF or CRLF, with and without final newline, through all the by-name, handle and process entry points above (enumerated: 9 x 12 x 2 texts, 4 (thorough 320) runs of the real programs). Oracle: the by-name / handle oracle above, and stated apart from it: a text is refused or read to its end - a returned formula never has fewer clauses than the text closes (nothing behind a '%' or any other lone line is dropped silently). "
                  "STREAM (about 1/5 of the generated cases and an enumerated grid, cases with 'stream'): THE STATE OF THE STREAM THE READER IS HANDED - seekable streams that are NOT at position 0. Carriers: io.StringIO, tempfile.TemporaryFile('w+') (its .name is a descriptor), open(path,'w+'), a file written through one handle and opened again for reading by the caller. In front of the position: nothing / 1..3 record lines (8 fixed ones, generated lines over 'abc xyz,;=0123-%<tab>e-acute') / 1..3 comment-like lines / junk (12 fixed pieces such as a complete small document, 'p cnf 2 5<LF>1', 'p cnf', '0', NUL bytes, an unfinished line; generated text over 'pcnf 0123-+<LF><tab>%_'; any text of the reader's own generators, valid documents included) / another whole formula written by the tree's writer (0..6 clauses of width 0..3 over 1..9 variables, with or without header). The caller gets behind it by tell()+seek(), by readline() per line or by read(len). THEN a formula (0..6 clauses of width 0..3 over 1..9 variables plus 0..3 unused ones, header and variable comments on or off) is written at the current position by the tree's writer (to_file, format dimacs), in 1 case of 6 followed by another whole formula; before handing the stream over the caller reads from it: nothing / the comment lines in front of the problem line / everything through the problem line / everything. Entry points: CNF.from_file(stream), parse_dimacs(stream), the stream standing in for sys.stdin of CNF.from_file(), of cli(['cnfgen','-q','dimacs']) and of cnfshuffle's cli(['-q','-p','-v','-c']); and the REAL programs `cnfgen -q dimacs` / `cnfshuffle -q -p -v -c` in a process of their own whose standard input is the regular file, opened unbuffered by the caller who has read the first lines (readline per line, or read(k bytes)) from the same open file. Enumerated: 4 carriers x 5 kinds of prefix x 3 ways to skip x 4 amounts consumed x 5 in-process entry points (quick: the tools on every sixth combination) over 5 corner formulas (no clause, the empty clause, one unit clause, two-digit variables), every 11th with a second formula behind; 8 (thorough 128) runs of the real programs. Oracle: the reader reads FROM THE CURRENT POSITION - its answer is judged by the reference interpretation of the text from the position to the end (accept => identical formula, reject => ValueError / CLIError / non-zero exit with a message, gray => either), and stated apart from it: with nothing or only comment lines consumed and nothing behind, the formula written at the position is read back identical (same number of variables, same clauses in order); with the problem line consumed the remainder is refused. Non-trivial: position > 0",
             required_labels=['accepted', 'rejected-range', 'rejected-count', 'rejected-open', 'rejected-syntax', 'gray',
                              'gray-returned', 'mode-parse', 'mode-strio', 'mode-file', 'mode-cli-file', 'mode-cli-stdin',
                              'gen-grammar', 'gen-raw', 'gen-alphabet', 'clauses>=2', 'accepted-empty-clause'] +
                             ['gen-' + m for m in rd.MUTATORS] +
                             ['bytes', 'bytes-drop-sensitive', 'bytes-invalid-but-harmless', 'bytes-utf8-valid', 'bytes-utf8-invalid',
                              'bytes-returned', 'bytes-refused', 'bytes-text-accepted', 'bytes-text-rejected', 'bytes-text-gray',
                              'bytes-handle-cannot-decode', 'bytes-handle-decoding-matters', 'bytes-proc-utf8', 'bytes-proc-ascii',
                              'bytes-proc-stdin-latin1', 'bytes-whole-utf-16', 'bytes-whole-latin-1', 'bytes-whole-utf-8-cut'] +
                             ['bytes-mode-' + m for m in NAME_BMODES + ['handle', 'proc']] +
                             ['bytes-junk-' + c for c in ('invalid', 'latin1', 'bom', 'nul', 'valid')] +
                             ['bytes-at-' + p for p in BYTE_POS] + ['bytes-via-' + v for v in sorted(set(HANDLE_VIAS))] +
                             ['bytes-handle-{}-{}'.format(*c) for c in HANDLE_CODECS] +
                             ['bytes-trail', 'bytes-trail-percent', 'bytes-trail-zero', 'bytes-trail-c', 'bytes-trail-p',
                              'bytes-trail-other', 'bytes-trail-m-before', 'bytes-trail-m-full', 'bytes-trail-after-nothing',
                              'bytes-trail-after-clause', 'bytes-trail-after-line', 'bytes-trail-returned', 'bytes-trail-refused',
                              'stream', 'stream-pos>0', 'stream-lines-consumed', 'stream-suffix', 'stream-returned',
                              'stream-refused', 'stream-refused-remainder', 'stream-returned-behind-record',
                              'stream-returned-behind-junk', 'stream-returned-behind-formula'] +
                             ['stream-carrier-' + c for c in STREAM_CARRIERS] + ['stream-prefix-' + c for c in STREAM_PREFIXES] +
                             ['stream-skip-' + c for c in STREAM_SKIPS] + ['stream-consume-' + c for c in STREAM_CONSUMES] +
                             ['stream-via-' + c for c in STREAM_VIAS]),
    SubCheck('fuzz', run_fuzz, strategy=None, enumerate_cases=enum_fuzz, quick=0, thorough=0, opt_pass=False,
             rule="thorough: 16 atheris (libFuzzer) campaigns x 320000 runs on parse_dimacs / from_dimacs_file, 8 from an empty corpus and 8 seeded with the texts of tests/test_dimacsparser.py, fresh corpus directory under out/fuzz/C06, dictionary of DIMACS tokens, max_len 160, the reference-interpretation oracle evaluated inside the fuzz target; both tiers: the test-suite texts themselves",
             required_labels=['accepted', 'rejected-syntax']),
]


# ---------------------------------------------------------------------------
# large formulas: size thresholds of buffers / block writers (added after a seeded change that only
# misbehaved above 4096 clauses was missed by the small-formula writer check)

THRESHOLDS = [4095, 4096, 4097, 8191, 8192, 8193, 10000, 16385, 32769, 65537]


def run_writer_large(case):
    if 'big' in case:
        return run_reader_big(case)
    from cnfgen import CNF
    from checks.c18 import dimacs_problem
    from checks.c17 import parse_dimacs
    m, n, width = case['m'], case['n'], case['width']
    F = CNF(description='large formula {} {}'.format(m, n))
    F.update_variable_number(n)
    clauses = []
    x = case['salt']
    for i in range(m):
        c = []
        for j in range(width if i % 7 else (i % 3)):       # every 7th clause is short (possibly empty)
            x = (x * 1103515245 + 12345) & 0x7FFFFFFF
            v = x % n + 1
            c.append(v if (x >> 16) & 1 else -v)
        clauses.append(c)
        F.add_clause(c, check=False)
    header, varnames = case['header'], case['varnames']
    texts = {}
    buf = io.StringIO()
    F.to_file(buf, fileformat='dimacs', export_header=header, export_varnames=varnames)
    texts['to_file(StringIO)'] = buf.getvalue()
    if not header and not varnames:
        texts['to_dimacs()'] = F.to_dimacs()
    d = tempfile.mkdtemp(prefix='c06L_')
    try:
        path = os.path.join(d, 'big.cnf')
        F.to_file(path, export_header=header, export_varnames=varnames)
        with open(path, encoding='utf-8') as fh:
            texts['to_file(filename)'] = fh.read()
        for how, text in texts.items():
            what = "{} of a formula with {} variables and {} clauses".format(how, n, m)
            prob = dimacs_problem(text)
            if prob is not None:
                raise Violation("{}: not a well formed DIMACS document: {}".format(what, prob))
            n2, m2, cls2, _ = parse_dimacs(text)
            if n2 != n or m2 != m or cls2 != clauses:
                bad = next((i for i, (a, b) in enumerate(zip(cls2, clauses)) if a != b), min(len(cls2), len(clauses)))
                raise Violation("{}: the text holds {} variables / {} clauses, first difference at clause {}".format(what, n2, len(cls2), bad))
        G = CNF.from_file(path)
        if G.number_of_variables() != n or [list(c) for c in G] != clauses:
            raise Violation("round trip through a file changes a formula with {} clauses".format(m))
    finally:
        shutil.rmtree(d, ignore_errors=True)
    return Outcome(labels=['m>=4096' if m >= 4096 else 'm<4096', 'header' if header else 'noheader'], nontrivial=True)


def enum_writer_large(tier):
    ths = THRESHOLDS[:7] if tier == 'quick' else THRESHOLDS
    i = 0
    for m in ths:
        for n, width in ((50, 3), (5000, 2)):
            i += 1
            yield {'m': m, 'n': n, 'width': width, 'salt': i, 'header': bool(i % 2), 'varnames': i % 4 == 0}
    yield from enum_reader_big(tier)


SUBCHECKS.append(
    SubCheck('writer_large', run_writer_large, enumerate_cases=enum_writer_large,
             rule="WRITER: formulas with m in {4095,4096,4097,8191,8192,8193,10000(,16385,32769,65537)} pseudo-random clauses (every 7th short or empty) over 50 or 5000 variables, written by to_file(StringIO), to_file(filename), to_dimacs(); oracle: strict reader accepts, counts and every clause in order equal, CNF.from_file returns the same formula. "
                  "READER: DIMACS texts of 2^20+4096, 2^21+4096 and 2^22+4096 characters (pseudo-random clauses of width 0..5 over variables of 1..5 digits; shapes: exactly the writer's layout / free layout with tabs, double blanks, CRLF, clauses spanning lines, several clauses per line, comment lines in between / lines of 100000 characters / one single line), declared variables = largest variable or 10^9+7, shifted by a comment line of 0..64 characters in front (0..2 or 5 of them two-byte characters) so that the 2^16-th, 2^20-th, 2^21-th and 2^22-th character falls on every position of a clause line; texts whose total length is 2^16, 2^20, 2^21 (+-2), with and without final newline; malformed variants (literal n+1 next to the 2^20-th character, clause count off by one, last clause open); read through CNF.from_file(name | handle | handle opened with newline='' and a 64 KiB buffer | StringIO | stdin), parse_dimacs, cnfgen dimacs <file>. Quick tier: 14 texts - each kind of cut (token|blank, blank|token, inside a token, after '-', before and after the line end) placed at the 2^20-th character by choosing the shift, one text per 2^16/2^21/2^22, one of length exactly 2^20, three malformed; thorough tier: all 65 shifts for five size/shape combinations and every second or third shift for the others (about 490 texts), 24 malformed texts with each kind of cut. Oracle: the clause list the text was rendered from (cross-checked with the independent strict reader vlib/rd_dimacs.py on texts below 1.5 MiB that are not in plain writer layout); valid => identical number of variables and clauses, malformed => ValueError/CLIError. Non-trivial: all",
             required_labels=['m>=4096', 'big', 'big>=2^20', 'big>=2^21', 'big>=2^22', 'cut20-tok|blank', 'cut20-blank|tok',
                              'cut20-tok|tok', 'cut20-nl|', 'cut20-|nl', 'cut20-minus|digit', 'cut16-tok|blank',
                              'cut21-blank|tok', 'cut22-tok|blank', 'big-length-power-of-two', 'big-ref-checked',
                              'big-shape-writer', 'big-shape-free', 'big-shape-long', 'big-shape-oneline',
                              'big-n-tight', 'big-n-huge', 'rejected-big-range', 'rejected-big-count-1',
                              'rejected-big-open'] + ['big-mode-' + m for m in BIG_MODES]))
