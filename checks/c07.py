"""C07 - output is a function of the command line and the seed only."""
import os
import random
import re
import shutil
import tempfile

from hypothesis import strategies as st

from vlib.core import SubCheck, Violation, Outcome
from vlib import cli, argv_gen

PROPERTY = "C07"
ASSUMPTIONS = [
    "in-process runs emulate main(); the global random generator is put in two different states before the two runs, so any randomness not derived from --seed shows as a difference",
    "cross-process runs sample PYTHONHASHSEED (two values per case) and two working directories (the checkout and an empty scratch directory)",
    "only command lines with an explicit --seed are required to be reproducible",
]

ADDR = re.compile(r'object at 0x[0-9a-fA-F]+|0x[0-9a-fA-F]{8,}')
SEEDS = [0, 1, -1, 7, 2 ** 31, 2 ** 64 + 3]


def _draws_randomness(seed_value, junk):
    """True unless the global generator is exactly in a freshly seeded state."""
    st_now = random.getstate()
    for s in (junk, seed_value):
        r = random.Random()
        r.seed(s)
        if r.getstate() == st_now:
            return False
    return True


def run_inproc(case):
    tool, args, stdin_text = case['tool'], case['args'], case.get('stdin')
    outs = []
    draws = False
    for junk in (case['junk1'], case['junk2']):
        random.seed(junk)
        for _ in range(junk % 7):
            random.random()
        r = cli.run_main(tool, args, stdin_text)
        if r.exc is not None:
            # crashes are C18's business; here only reproducibility of what is printed
            outs.append((r.code, r.out, type(r.exc).__name__))
        else:
            outs.append((r.code, r.out, r.err))
        draws = draws or _draws_randomness(case['seed'], junk)
    if case.get('seed_twice') is not None and tool in ('cnfgen', 'pbgen'):
        # the option given twice: the last value counts, so the output is the one of the last value alone
        random.seed(case['junk1'])
        r = cli.run_main(tool, argv_gen.seed_tokens(case['seed_twice'], case['junk2']) + list(args), stdin_text)
        c = (r.code, r.out, type(r.exc).__name__ if r.exc is not None else r.err)
        strip = lambda t: '\n'.join(l for l in t.split('\n') if 'command line' not in l and 'cnfgen ' not in l and 'pbgen ' not in l)      # noqa: the header quotes the argv
        if (c[0], strip(c[1])) != (outs[0][0], strip(outs[0][1])):
            raise Violation("{} {}: with an earlier '--seed {}' in front the output differs (the last --seed must win)".format(
                tool, ' '.join(args), case['seed_twice']))
    a, b = outs
    if a != b:
        what = 'exit status' if a[0] != b[0] else ('standard output' if a[1] != b[1] else 'error output')
        da, db = a[1].splitlines(), b[1].splitlines()
        diff = next(((i, x, y) for i, (x, y) in enumerate(zip(da, db)) if x != y), None)
        raise Violation("{} {}: two runs with the same arguments differ in {}; first differing line: {}".format(
            tool, ' '.join(args), what, diff))
    m = ADDR.search(a[1])
    if m:
        raise Violation("{} {}: the output contains process data: {!r}".format(tool, ' '.join(args), m.group(0)))
    labels = [tool, 'ok' if a[0] == 0 else 'error-exit']
    if case['seed'] == 0:
        labels.append('seed=0')
    labels += case.get('labels', [])
    if '-T' in args and any(t in args for t in ('shuffle', 'xorcomp', 'majcomp')):
        labels.append('random-transformation')
    return Outcome(labels=labels, nontrivial=draws and a[0] == 0)


def _seed(draw):
    return draw(st.sampled_from(SEEDS) | st.integers(-10 ** 6, 10 ** 9))


@st.composite
def strat_inproc(draw):
    tool = draw(st.sampled_from(['cnfgen', 'cnfgen', 'cnfgen', 'pbgen', 'cnfshuffle']))
    seed = _seed(draw)
    labels = []
    stdin_text = None
    if tool == 'cnfshuffle':
        n = draw(st.integers(1, 6))
        lit = st.integers(1, n).flatmap(lambda v: st.sampled_from([v, -v]))
        cls = draw(st.lists(st.lists(lit, max_size=4), max_size=6))
        stdin_text = "p cnf {} {}\n".format(n, len(cls)) + "".join(" ".join(map(str, c + [0])) + "\n" for c in cls)
        fl = draw(st.lists(st.sampled_from(['-p', '-v', '-c', '-q']), unique=True, max_size=3))
        args = argv_gen.seed_tokens(seed, draw(st.integers(0, 9))) + fl
    else:
        kind = draw(st.sampled_from(['graph-random', 'graph-random', 'numeric-random', 'deterministic'] + (['graph-in-T'] if tool == 'cnfgen' else [])))
        if kind == 'graph-in-T':
            # a (random) bipartite graph handed explicitly to a compression step: its left side must have one vertex per variable
            base = draw(st.sampled_from(['php', 'op', 'randkcnf']))
            if base == 'php':
                m, n = draw(st.integers(1, 3)), draw(st.integers(1, 3))
                cmd, V = ['php', str(m), str(n)], m * n
            elif base == 'op':
                n = draw(st.integers(2, 3))
                cmd, V = ['op', str(n)], n * (n - 1)
            else:
                n = draw(st.integers(3, 6))
                cmd, V = ['randkcnf', '3', str(n), str(draw(st.integers(0, 6)))], n
            spec = draw(argv_gen.bipartite_spec(random_ok=True, det_ok=draw(st.integers(0, 3)) == 0, L=V))
            labels.append('graph-in-T')
            args = argv_gen.seed_tokens(seed, draw(st.integers(0, 9))) + draw(st.sampled_from(argv_gen.OUTPUT_OPTS)) + cmd + ['-T', draw(st.sampled_from(['xorcomp', 'majcomp']))] + spec
            if draw(st.booleans()):
                args += draw(argv_gen.tchain(max_len=1, allow_expanding=False))
            return {'tool': tool, 'args': args, 'seed': seed, 'stdin': None, 'labels': labels,
                    'junk1': draw(st.integers(0, 1000)), 'junk2': draw(st.integers(1001, 2000))}
        if kind == 'graph-random':
            cmd = draw(argv_gen.graph_command(random_ok=True, det_ok=True))
            labels.append('random-graph-arg')
        elif kind == 'numeric-random':
            cmd = draw(argv_gen.numeric_random_command())
            labels.append('random-family')
        else:
            cmd = draw(argv_gen.deterministic_numeric_command())
            labels.append('deterministic-family')
        chain = draw(argv_gen.tchain(max_len=2, allow_expanding=cmd[0] not in argv_gen.WIDE)) if tool == 'cnfgen' else []
        out = draw(st.sampled_from(argv_gen.OUTPUT_OPTS))
        if tool == 'pbgen':
            out = [t for t in out if t not in ('dimacs',)]
            if '-of' in out and 'opb' not in out and 'latex' not in out:
                out = []
        if kind == 'graph-random' and chain and any(t in chain for t in ('shuffle', 'xorcomp', 'majcomp')):
            labels.append('two-random-sources')
        sform = draw(st.integers(0, 9))           # half of the cases spell the option in another accepted way
        args = argv_gen.seed_tokens(seed, sform if sform < argv_gen.SEED_FORMS else 0) + out + cmd + chain
        if 0 < sform < argv_gen.SEED_FORMS:
            labels.append('seed-spelled-differently')
    twice = draw(st.integers(0, 99)) if draw(st.integers(0, 4)) == 0 else None
    if twice is not None:
        labels = labels + ['seed-given-twice']
    return {'tool': tool, 'args': args, 'seed': seed, 'stdin': stdin_text, 'labels': labels, 'seed_twice': twice,
            'junk1': draw(st.integers(0, 1000)), 'junk2': draw(st.integers(1001, 2000))}


# ---------------------------------------------------------------------------
# fresh processes

def _run_batch(cmds, cwd, hashseed):
    import json
    import subprocess
    import sys
    from vlib.core import VERIF_DIR
    repo = os.environ.get('VERIF_REPO', '/repo')
    env = {k: v for k, v in os.environ.items() if k != 'PYTHONHASHSEED'}
    env['PYTHONPATH'] = repo + os.pathsep + VERIF_DIR
    env['PYTHONHASHSEED'] = str(hashseed)
    env['PYTHONWARNINGS'] = 'ignore'
    p = subprocess.run([sys.executable] + (['-O'] if sys.flags.optimize else []) + ['-m', 'vlib.batch_runner'], input=json.dumps(cmds), text=True,
                       stdout=subprocess.PIPE, stderr=subprocess.PIPE, cwd=cwd, env=env, timeout=600)
    if p.returncode != 0:
        raise RuntimeError("batch runner failed: " + p.stderr[-2000:])
    return json.loads(p.stdout)


def _unrelated_git_repo(d):
    """the second process runs inside a sub-directory of an unrelated git repository with one tagged commit"""
    import subprocess
    os.makedirs(os.path.join(d, 'sub dir'))
    env = dict(os.environ, GIT_CONFIG_NOSYSTEM='1', HOME=d, GIT_AUTHOR_DATE='2001-01-01T00:00:00', GIT_COMMITTER_DATE='2001-01-01T00:00:00')
    for cmd in (['git', 'init', '-q'], ['git', '-c', 'user.name=x', '-c', 'user.email=x@x', 'commit', '-q', '--allow-empty', '-m', 'unrelated'],
                ['git', 'tag', 'v99.9']):
        try:
            subprocess.run(cmd, cwd=d, env=env, stdout=subprocess.DEVNULL, stderr=subprocess.DEVNULL, timeout=60)
        except OSError:
            return          # no git on this machine: the directory is just a directory


def run_xproc(case):
    cmds = case['cmds']
    scratch = tempfile.mkdtemp(prefix="c07_")
    try:
        _unrelated_git_repo(scratch)
        r1 = _run_batch(cmds, os.environ.get('VERIF_REPO', '/repo'), case['h1'])
        r2 = _run_batch(cmds, os.path.join(scratch, 'sub dir'), case['h2'])
    finally:
        shutil.rmtree(scratch, ignore_errors=True)
    ok = 0
    for c, a, b in zip(cmds, r1, r2):
        if a != b:
            da, db = a[1].splitlines(), b[1].splitlines()
            diff = next(((i, x, y) for i, (x, y) in enumerate(zip(da, db)) if x != y), (a[0], b[0], len(da), len(db)))
            raise Violation("{} {}: two fresh processes (PYTHONHASHSEED {} in the checkout / {} in a directory of an unrelated git repository) print different output; first difference: {}".format(
                c['tool'], ' '.join(c['args']), case['h1'], case['h2'], diff))
        m = ADDR.search(a[1])
        if m:
            raise Violation("{} {}: the output contains process data: {!r}".format(c['tool'], ' '.join(c['args']), m.group(0)))
        ok += a[0] == 0
    tools = sorted(set(c['tool'] for c in cmds))
    return Outcome(labels=tools + ['cross-process', 'cross-cwd'], nontrivial=ok >= 1)


@st.composite
def strat_xproc(draw):
    n = draw(st.integers(1, 30))
    cmds = []
    for _ in range(n):
        c = draw(strat_inproc())
        cmds.append({'tool': c['tool'], 'args': c['args'], 'stdin': c['stdin']})
    return {'cmds': cmds, 'h1': draw(st.sampled_from(['0', '1', '4242'])),
            'h2': draw(st.sampled_from(['random', '17', '99999']))}


# ---------------------------------------------------------------------------
# library generators with a seed argument

def _formula_sig(F):
    return (F.number_of_variables(), [list(c) for c in F])


def _graph_sig(G):
    return (G.number_of_vertices(), list(G.edges()))


def run_libseed(case):
    import cnfgen
    from cnfgen import graphs
    fn, seed = case['fn'], case['seed']
    a = case['args']

    def call():
        if fn in ('RandomKCNF-saturated', 'RandomKXOR-saturated'):
            # almost every clause / parity that exists is requested (all but a[2]), with and without planted assignments:
            # random probing rarely finds a new one, so whatever the generator falls back on is exercised
            from math import comb
            k, n, deficit = a[0], a[1], a[2]
            planted = [[v if (v * 7 + j) % 3 else -v for v in range(1, n + 1)] for j in range(a[3])] if len(a) > 3 else []
            if fn == 'RandomKCNF-saturated':
                import itertools as _it
                mx = 0       # exact number of k-clauses no planted assignment falsifies
                for X in _it.combinations(range(1, n + 1), k):
                    mx += 2 ** k - len(set(tuple(p[v - 1] > 0 for v in X) for p in planted))
                m = max(0, mx - deficit)
                try:
                    return _formula_sig(cnfgen.RandomKCNF(k, n, m, seed=seed, planted_assignments=planted))
                except ValueError:
                    return ('refused', k, n, m)
            # exact number of parities every planted assignment satisfies (brute force; n <= 12, k <= 3)
            import itertools as _it
            mx = 0
            for X in _it.combinations(range(1, n + 1), k):
                vals = set(sum(1 for v in X if p[v - 1] > 0) % 2 for p in planted)
                mx += 2 if not planted else (1 if len(vals) == 1 else 0)
            m = max(0, mx - deficit)
            try:
                return _formula_sig(cnfgen.RandomKXOR(k, n, m, seed=seed, planted_assignments=planted))
            except ValueError:
                return ('refused', k, n, m)
        if fn == 'RandomKCNF':
            return _formula_sig(cnfgen.RandomKCNF(a[0], a[1], a[2], seed=seed))
        if fn == 'RandomKXOR':
            return _formula_sig(cnfgen.RandomKXOR(a[0], a[1], a[2], seed=seed))
        if fn == 'bipartite_random_left_regular':
            return _graph_sig(graphs.bipartite_random_left_regular(a[0], a[1], min(a[2], a[1]), seed=seed))
        if fn == 'bipartite_random_m_edges':
            return _graph_sig(graphs.bipartite_random_m_edges(a[0], a[1], min(a[2], a[0] * a[1]), seed=seed))
        if fn == 'bipartite_random':
            return _graph_sig(graphs.bipartite_random(a[0], a[1], 0.5, seed=seed))
        if fn == 'bipartite_random_regular':
            return _graph_sig(graphs.bipartite_random_regular(a[0], a[0], min(a[2], a[0]), seed=seed))
        if fn in ('add_missing_dense', 'add_missing_dense_bipartite'):
            # an almost complete graph: n vertices (per side), `miss` edges missing, m <= miss of them requested;
            # random probing rarely hits a missing edge, so whatever the function falls back on is exercised
            n, miss, m = a[0], a[1], min(a[2], a[1])
            r = random.Random(a[0] * 1000 + a[1])
            if fn == 'add_missing_dense':
                pairs = [(u, v) for u in range(1, n + 1) for v in range(u + 1, n + 1)]
                G = graphs.Graph(n)
            else:
                pairs = [(u, v) for u in range(1, n + 1) for v in range(1, n + 1)]
                G = graphs.BipartiteGraph(n, n)
            gone = set(r.sample(pairs, min(miss, len(pairs))))
            for u, v in pairs:
                if (u, v) not in gone:
                    G.add_edge(u, v)
            graphs.add_random_missing_edges(G, min(m, len(gone)), seed=seed)
            return (G.number_of_vertices(), list(G.edges()))
        G = graphs.Graph(5)
        for u, v in ((1, 2), (2, 3), (3, 4), (4, 5), (1, 5)):
            G.add_edge(u, v)
        if fn == 'add_random_missing_edges':
            graphs.add_random_missing_edges(G, min(a[2], 5), seed=seed)
        else:
            graphs.split_random_edges(G, min(a[2], 5), seed=seed)
        return _graph_sig(G)
    random.seed(case['junk1'])
    x = call()
    random.seed(case['junk2'])
    random.random()
    y = call()
    if x != y:
        raise Violation("{}{} called twice with seed={} returns different objects".format(fn, tuple(a), seed))
    return Outcome(labels=[fn] + (['seed=0'] if seed == 0 else []), nontrivial=True)


LIBFNS = ['RandomKCNF', 'RandomKXOR', 'bipartite_random_left_regular', 'bipartite_random_m_edges', 'bipartite_random',
          'bipartite_random_regular', 'add_random_missing_edges', 'split_random_edges', 'add_missing_dense', 'add_missing_dense_bipartite', 'RandomKCNF-saturated', 'RandomKXOR-saturated']


@st.composite
def strat_libseed(draw):
    fn = draw(st.sampled_from(LIBFNS))
    if fn in ('RandomKCNF', 'RandomKXOR'):
        args = [draw(st.integers(1, 3)), draw(st.integers(4, 9)), draw(st.integers(0, 6))]
    elif fn.endswith('-saturated'):
        args = [draw(st.integers(1, 3)), draw(st.integers(4, 9)), draw(st.integers(0, 4)), draw(st.integers(0, 3))]
    elif fn.startswith('add_missing_dense'):
        args = [draw(st.integers(6, 30 if fn == 'add_missing_dense' else 15)), draw(st.integers(1, 9)), draw(st.integers(1, 5))]
    else:
        args = [draw(st.integers(1, 5)), draw(st.integers(1, 5)), draw(st.integers(0, 4))]
    return {'fn': fn, 'args': args, 'seed': draw(st.sampled_from([0, 1, 5, 'abc', 2 ** 70]) | st.integers(0, 10 ** 6)),
            'junk1': draw(st.integers(0, 100)), 'junk2': draw(st.integers(101, 200))}


# ---------------------------------------------------------------------------
# history independence inside one process: what ran before must not matter

CONSTRUCTIONS = [['complete', '4'], ['complete', '5'], ['complete', '6'], ['grid', '2', '3'], ['grid', '3', '3'], ['torus', '3', '3'],
                 ['empty', '5'], ['complete', '2', '3'], ['grid', '4']]
SIMPLE_CMDS = [['kcolor', '3'], ['tiling'], ['matching'], ['tseitin', 'first'], ['kclique', '3'], ['domset', '2'], ['op'], ['iso'], ['ec']]
MODS = [['addedges', '1'], ['addedges', '2'], ['splitedges', '1'], ['splitedges', '2'], ['plantclique', '3'], ['addedges', '1', 'splitedges', '2']]
SHUFFLES = [['-T', 'shuffle'], ['-T', 'shuffle', '--no-variables-permutation'], ['-T', 'shuffle', '--no-variables-permutation', '--no-clauses-permutation'],
            ['-T', 'shuffle', '--no-polarity-flips', '--no-variables-permutation', '--no-clauses-permutation'],
            ['-T', 'shuffle', '--no-polarity-flips'], ['-T', 'flip'], ['-T', 'xor', '2'], ['-T', 'xorcomp', '3', '2']]


def run_history(case):
    tool = case['tool']
    outs = []
    for step in ('victim', 'polluter', 'victim'):
        random.seed(case['junk'])
        r = cli.run_main(tool, case[step], case.get('stdin'))
        outs.append((r.code, r.out, type(r.exc).__name__ if r.exc is not None else r.err))
    if outs[0] != outs[2]:
        da, db = outs[0][1].splitlines(), outs[2][1].splitlines()
        diff = next(((i, x, y) for i, (x, y) in enumerate(zip(da, db)) if x != y), (outs[0][0], outs[2][0], len(da), len(db)))
        raise Violation("{} {}: the output changes after running `{} {}` in the same process; first difference: {}".format(
            tool, ' '.join(case['victim']), tool, ' '.join(case['polluter']), diff))
    return Outcome(labels=[tool, case['kind']], nontrivial=outs[0][0] == 0)


@st.composite
def strat_history(draw):
    kind = draw(st.sampled_from(['construction', 'construction', 'numeric', 'shuffle', 'any', 'any']))
    seed1, seed2 = str(draw(st.integers(0, 99))), str(draw(st.integers(0, 99)))
    tool = draw(st.sampled_from(['cnfgen', 'cnfgen', 'pbgen']))
    if kind == 'any':
        # any two command lines of the grammar (simple, bipartite and dag constructions, numeric families):
        # the first one runs again after the second
        def one():
            k = draw(st.sampled_from(['graph', 'graph', 'numeric-random', 'numeric']))
            if k == 'graph':
                return draw(argv_gen.graph_command(random_ok=True, det_ok=True))
            if k == 'numeric-random':
                return draw(argv_gen.numeric_random_command())
            return draw(argv_gen.deterministic_numeric_command())
        victim = ['--seed', seed1] + one()
        polluter = ['--seed', seed2] + (victim[2:] if draw(st.integers(0, 3)) == 0 else one())
    elif kind == 'construction':
        S = draw(st.sampled_from(CONSTRUCTIONS))
        c1, c2 = draw(st.sampled_from(SIMPLE_CMDS)), draw(st.sampled_from(SIMPLE_CMDS))
        victim = ['--seed', seed1] + c1 + S
        polluter = ['--seed', seed2] + c2 + S + draw(st.sampled_from(MODS))
    elif kind == 'numeric':
        n = str(draw(st.integers(3, 6)))
        victim = ['--seed', seed1] + draw(st.sampled_from([['op', n], ['php', n, '3'], ['count', n, '2'], ['ram', '3', '3', n], ['parity', n]]))
        polluter = ['--seed', seed2] + draw(st.sampled_from([['op', 'complete', n] + draw(st.sampled_from(MODS)),
                                                             ['kclique', '3', 'complete', n, 'splitedges', '2'],
                                                             ['tiling', 'complete', n, 'addedges', '0', 'splitedges', '1']]))
    else:
        tool = 'cnfgen'
        base = draw(st.sampled_from([['php', '4', '3'], ['op', '4'], ['tseitin', 'first', 'grid', '2', '3'], ['rphp', '2', '3', '2']]))
        victim = ['--seed', seed1] + base + draw(st.sampled_from(SHUFFLES))
        polluter = ['--seed', seed2] + base + draw(st.sampled_from(SHUFFLES))
    return {'tool': tool, 'kind': kind, 'victim': victim, 'polluter': polluter, 'junk': draw(st.integers(0, 50))}


def enum_libseed(tier):
    for fn in LIBFNS:
        if fn in ('RandomKCNF', 'RandomKXOR'):
            argl = [[3, 6, 4], [2, 5, 5], [3, 9, 6], [1, 4, 2]]
        elif fn.endswith('-saturated'):
            argl = [[2, 8, 1, 0], [2, 8, 3, 1], [3, 7, 2, 0], [2, 10, 3, 3], [3, 8, 1, 2], [1, 9, 0, 0], [2, 12, 2, 2]]
        elif fn.startswith('add_missing_dense'):
            argl = [[30, 8, 3], [20, 5, 2], [12, 9, 4], [15, 3, 3]] if fn == 'add_missing_dense' else [[15, 8, 3], [10, 5, 2], [8, 9, 4]]
        else:
            argl = [[3, 4, 2], [4, 4, 2], [5, 5, 3], [2, 3, 1], [4, 5, 4]]
        for args in argl:
            for i, sd in enumerate([0, 1, 'abc', 2 ** 70, 12345, -3]):
                yield {'fn': fn, 'args': args, 'seed': sd, 'junk1': 3 + i, 'junk2': 150 + i}


def run_heavy(case):
    """commands that run for seconds: the output may not depend on how fast the machine happens to be"""
    import threading
    outs = []
    for rep in range(2):
        stop = []
        burner = None
        if rep == 1:
            # the second run shares the processor with a busy thread, so everything takes noticeably longer
            def burn():
                x = 0
                while not stop:
                    x += 1
            burner = threading.Thread(target=burn, daemon=True)
            burner.start()
        try:
            random.seed(rep)
            r = cli.run_main(case['tool'], case['args'], None)
        finally:
            stop.append(1)
            if burner is not None:
                burner.join(10)
        outs.append((r.code, r.out, type(r.exc).__name__ if r.exc is not None else r.err))
    if outs[0] != outs[1]:
        da, db = outs[0][1].splitlines(), outs[1][1].splitlines()
        diff = next(((i, x, y) for i, (x, y) in enumerate(zip(da, db)) if x != y), (outs[0][0], outs[1][0], len(da), len(db)))
        raise Violation("{} {}: two runs of a long computation (the second one on a busy processor) print different output; first difference: {}".format(
            case['tool'], ' '.join(case['args']), diff))
    return Outcome(labels=['heavy', case['args'][3], 'exit{}'.format(outs[0][0])], nontrivial=outs[0][0] == 0)


def enum_heavy(tier):
    for args in (['-q', '--seed', '7', 'randkcnf', '4', '20', '77420'], ['-q', '--seed', '3', 'randkxor', '3', '40', '19700'],
                 ['-q', '--seed', '5', 'randkcnf', '--plant', '3', '30', '28300'], ['-q', '--seed', '2', 'kcolor', '3', 'gnp', '300', '0.5', 'addedges', '2000'],
                 ['-q', '--seed', '9', 'php', 'glrm', '60', '60', '3500', 'addedges', '90']):
        for tool in ('cnfgen', 'pbgen'):
            yield {'tool': tool, 'args': args}


# ---------------------------------------------------------------------------
# what the process is attached to

TERMINAL_COMMANDS = [
    ('cnfshuffle', ['--seed', '5', '-i', '@CNF']), ('cnfshuffle', ['--seed', '0', '-q', '-i', '@CNF']), ('cnfshuffle', ['-p', '-v', '-c', '-i', '@CNF']),
    ('cnfgen', ['--seed', '5', 'dimacs', '@CNF', '-T', 'shuffle']), ('cnfgen', ['-q', 'dimacs', '@CNF']), ('cnfgen', ['dimacs', '@CNF', '-T', 'xor', '2']),
    ('pbgen', ['dimacs', '@CNF']), ('kthlist2pebbling', ['-i', '@DAG']), ('kthlist2pebbling', ['-q', '-i', '@DAG', 'xor', '2']),
    ('cnfgen', ['--seed', '3', 'randkcnf', '3', '8', '12']), ('pbgen', ['php', '3', '2']), ('cnfgen', ['-q', 'peb', 'kthlist', '@DAG']),
    ('cnfgen', ['--seed', '9', 'kcolor', '3', 'gnp', '6', '0.5']), ('cnfgen', ['--seed', '9', 'php', '4', '3', '-T', 'xorcomp', 'glrd', '12', '8', '3']),
    ('cnfgen', ['-of', 'latex', 'op', '3']), ('pbgen', ['--varnames', '--seed', '2', 'subsetcard', '4', '2']),
    # long header lines (a graph description with two modifiers), in the three formats
    ('cnfgen', ['--seed', '9', 'kcolor', '3', 'gnp', '8', '0.5', 'plantclique', '4', 'addedges', '3']),
    ('pbgen', ['--seed', '4', 'domset', '2', 'gnm', '7', '9', 'addedges', '2', 'splitedges', '1']),
    ('cnfgen', ['--seed', '4', '-of', 'latex', 'tseitin', 'randomodd', 'gnd', '8', '3', 'addedges', '2', '-T', 'shuffle']),
]


# environments that are no part of the command line: window size, terminal type, time zone, user, home, locale, and the date
ENV_MODES = [('COLUMNS=40 LINES=10', {'COLUMNS': '40', 'LINES': '10'}), ('COLUMNS=300', {'COLUMNS': '300'}),
             ('TERM=dumb NO_COLOR=1', {'TERM': 'dumb', 'NO_COLOR': '1'}), ('TERM=xterm-256color', {'TERM': 'xterm-256color', 'COLORTERM': 'truecolor'}),
             ('TZ=Pacific/Kiritimati', {'TZ': 'Pacific/Kiritimati'}), ('another user and home', {'USER': 'somebody', 'LOGNAME': 'somebody', 'HOME': '@EMPTY'}),
             ('LANG=tr_TR.UTF-8', {'LANG': 'tr_TR.UTF-8', 'LC_ALL': 'tr_TR.UTF-8'}),
             ('one year later', {'VERIF_CLOCK_OFFSET': str(366 * 86400)}), ('forty years earlier', {'VERIF_CLOCK_OFFSET': str(-40 * 365 * 86400)})]


def run_terminal(case):
    """the same command line as a real process three times: standard input /dev/null, standard input a pseudo-terminal,
    standard input and standard error pseudo-terminals; none of these commands reads its standard input"""
    import pty
    from vlib import cli
    tool, args = case['tool'], case['args']
    d = tempfile.mkdtemp(prefix="c07t_")
    try:
        with open(os.path.join(d, 'f.cnf'), 'w') as fh:
            fh.write("c a file\np cnf 4 4\n1 -2 0\n2 3 -4 0\n-1 0\n4 2 0\n")
        with open(os.path.join(d, 'g.kthlist'), 'w') as fh:
            fh.write("4\n1 : 0\n2 : 0\n3 : 1 2 0\n4 : 3 0\n")
        argv = [{'@CNF': 'f.cnf', '@DAG': 'g.kthlist'}.get(a, a) for a in args]
        outs = []
        from vlib.core import VERIF_DIR
        repo = os.environ.get('VERIF_REPO', '/repo')
        clock = {'PYTHONPATH': repo + os.pathsep + os.path.join(VERIF_DIR, 'vlib', 'fakeclock')}
        for mode in ('stdin=/dev/null',) + tuple(case.get('modes') or (('stdin=terminal', 'stdin+stderr=terminal') + tuple(m for m, _ in ENV_MODES))):
            if mode == 'stdin=/dev/null':
                r = cli.run_subprocess(tool, argv, cwd=d, hashseed=case.get('hashseed', '0'), stdin_fd=__import__('subprocess').DEVNULL)
            elif mode in dict(ENV_MODES):
                env = dict(dict(ENV_MODES)[mode])
                if 'VERIF_CLOCK_OFFSET' in env:
                    env.update(clock)
                if env.get('HOME') == '@EMPTY':
                    env['HOME'] = os.path.join(d, 'nobody home')
                r = cli.run_subprocess(tool, argv, cwd=d, hashseed=case.get('hashseed', '0'), stdin_fd=__import__('subprocess').DEVNULL, extra_env=env)
            else:
                master, slave = pty.openpty()
                try:
                    r = cli.run_subprocess(tool, argv, cwd=d, hashseed=case.get('hashseed', '0'), stdin_fd=slave,
                                           stderr_fd=slave if mode == 'stdin+stderr=terminal' else None)
                finally:
                    os.close(slave)
                    os.close(master)
            outs.append((mode, r.code, r.out))
    finally:
        shutil.rmtree(d, ignore_errors=True)
    what = "{} {}".format(tool, ' '.join(argv))
    if outs[0][1] != 0:
        raise Violation("{}: exit status {} on a legal command line".format(what, outs[0][1]))
    for mode, code, out in outs[1:]:
        if (code, out) != outs[0][1:]:
            da, db = outs[0][2].splitlines(), out.splitlines()
            diff = next(((i, x, y) for i, (x, y) in enumerate(zip(da, db)) if x != y), (outs[0][1], code, len(da), len(db)))
            raise Violation("{}: the standard output differs between {} and {} (same command line, same seed); first difference: {}".format(
                what, outs[0][0], mode, diff))
    return Outcome(labels=[tool, 'terminal'], nontrivial=len(outs[0][2]) > 0)


def enum_terminal(tier):
    for i, (tool, args) in enumerate(TERMINAL_COMMANDS):
        if tier == 'quick' and i % 2 and 8 < i < 16:
            continue
        c = {'tool': tool, 'args': args, 'hashseed': str(i % 3)}
        if tier == 'quick':
            # a rotating third of the attachments and environments; window size and clock always for the long headers
            allm = ['stdin=terminal', 'stdin+stderr=terminal'] + [m for m, _ in ENV_MODES]
            c['modes'] = [m for k, m in enumerate(allm) if (k + i) % 3 == 0]
            if i >= 16:
                c['modes'] = sorted(set(c['modes'] + ['COLUMNS=40 LINES=10', 'one year later']))
        yield c



SUBCHECKS = [
    SubCheck('terminal', run_terminal, enumerate_cases=enum_terminal, quick=0, thorough=0, opt_pass=False, max_shards=4,
             rule="nineteen command lines of the four tools that do not read their standard input (formula and graph given by file name, or a family), each as a real process with its standard input on /dev/null, on a pseudo-terminal, and with standard input and standard error on a pseudo-terminal, then under nine environments that are no part of the command line (window size through COLUMNS/LINES, terminal type and colour switches, time zone, another user and an empty home directory, a Turkish locale, and a clock shifted by +1 and -40 years through a start-up hook of the child interpreter, vlib/fakeclock); (quick tier: a rotating third of these per command line); oracle: same exit status and the same bytes on the standard output as in the first run; non-trivial: some output",
             required_labels=['terminal', 'cnfgen', 'pbgen', 'cnfshuffle', 'kthlist2pebbling']),
    SubCheck('inproc', run_inproc, strategy=strat_inproc, quick=800, thorough=60000,
             rule="command lines with --seed (seeds 0, 1, -1, 2^31, 2^64+3 and random; the option spelled '--seed N', '-S N', '--seed=N', '-SN' or '--see N') for cnfgen (+ -T chains), pbgen and cnfshuffle (DIMACS on stdin): every graph-taking sub-command with random and deterministic graph constructions and random modifiers, numeric random sub-commands, deterministic ones, '-T xorcomp|majcomp <random bipartite construction>' with the graph sampled while the command line is parsed, all output formats; oracle: two in-process runs of main() started from two different states of the global generator print identical (exit status, stdout, stderr) and no object address; in a fifth of the cases a second, earlier --seed is put in front and the output (apart from the header line quoting the command line) must be the one of the last value alone; non-trivial: exit 0 and the global generator was advanced past a freshly seeded state (the run drew random numbers)",
             required_labels=['seed=0', 'random-graph-arg', 'random-family', 'random-transformation', 'two-random-sources',
                              'pbgen', 'cnfshuffle', 'cnfgen', 'deterministic-family', 'graph-in-T', 'seed-spelled-differently', 'seed-given-twice']),
    SubCheck('xproc', run_xproc, strategy=strat_xproc, quick=32, thorough=1600,
             rule="batches of 1..30 of the same command lines, each batch executed in two fresh processes with different PYTHONHASHSEED (0/1/4242 vs random/17/99999) and different working directories (the checkout vs a sub-directory, with a blank in its name, of an unrelated tagged git repository); oracle: identical exit status and stdout bytes (header included); non-trivial: exit 0",
             required_labels=['cross-process', 'cross-cwd']),
    SubCheck('history', run_history, strategy=strat_history, quick=500, thorough=20000,
             rule="in one process: a command line V, then a command line P that shares a graph construction / family size / formula with V but adds graph modifiers or other transformation options, then V again; a third of the cases take V and P freely from the whole command line grammar (P equal to V now and then); oracle: both runs of V print the same (exit status, stdout, stderr) - the output is a function of the command line and seed only, not of what ran before; non-trivial: exit 0",
             required_labels=['construction', 'numeric', 'shuffle', 'any']),
    SubCheck('heavy', run_heavy, enumerate_cases=enum_heavy, enum_tiers=('thorough',), quick=0, thorough=0, opt_pass=False,
             rule="thorough tier only: ten command lines that compute for seconds (almost saturated random k-CNF / k-XOR with 20000..77000 rows, dense random graphs with thousands of added edges), each run twice in one process, the second time next to a thread that keeps the processor busy; oracle: identical exit status and output - the result may depend on the seed, never on how long something took; non-trivial: exit 0",
             required_labels=[]),
    SubCheck('libseed', run_libseed, strategy=strat_libseed, enumerate_cases=enum_libseed, quick=300, thorough=20000,
             rule="every library generator with a seed argument called twice with the same seed (0, strings, big integers) from different states of the global generator; oracle: equal formulas / graphs",
             required_labels=LIBFNS + ['seed=0']),
]
