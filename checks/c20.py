"""C20 - solve() and is_satisfiable() report what the SAT solver found.

No SAT solver is installed, so the bridge is driven against *scripted* solvers
(vlib/fakesolver.py): generated sh scripts installed under the solver names in a
private bin/ directory that is first on PATH for the duration of one case.  The
canned answer is computed from the complete truth table of the formula, so the fake
solver always tells the truth; the check is about the bridge, not about solving.

'history' keeps one sandbox (one PATH string) for a sequence of installations,
removals and calls and follows the content of the directories with a model;
'environment' gives the temporary directory and the PATH entry unusual names;
'channels' makes the solver talk on the channels that do not carry the answer (standard
error; the standard output of a minisat-style program) and varies the byte layout of the
answer itself (line ends, separators, one write or many); 'consumption' hands formulas
of 65 KiB .. 3 MiB of DIMACS to programs that take their input in different ways (all of it,
slowly, only a prefix, nothing; closing it early; writing a large answer first);
'tempfiles' also runs 2 or 3 calls at the same time in threads of this process, each on its own formula,
interleaved in an order the harness enforces through gated programs (see the overlapping calls section).
"""
import io
import os
import random
import sys

from hypothesis import strategies as st

from vlib.core import SubCheck, Violation, Outcome
from vlib import tt
from vlib import fakesolver as fs

PROPERTY = "C20"
ASSUMPTIONS = [
    "solvers are scripted: the three documented I/O conventions are exercised, not the quirks of real solver binaries",
    "a solver answers truthfully (the canned answer is a model taken from the truth table, or UNSAT); the bridge is not required to detect a lying solver",
    "the process exit status carries no information (real solvers exit 10/20): a failing solver is one that prints no 's' line / writes no SAT|UNSAT result",
    "arguments starting with '-' are options, the first other argument is the input file, the second the result file (what the real programs do)",
    "glucose is treated as gray: its fake answers in the DIMACS convention on stdout and in the minisat convention on the result file, so either interface choice of the tree is accepted",
    "cmd=None tries the supported solvers in the order of supported_satsolvers() of the tree under test",
    "when an unknown 'sameas' coincides with a missing solver either documented error (ValueError, RuntimeError) is accepted",
    "a solver is reachable when some directory of PATH holds a program that can be executed under its name (the search goes on after a file without execute permission or one the kernel refuses); what is reachable is decided at the moment of each call, not once per process",
    "some_solver_installed(names) is expected to be true exactly when one of the names is reachable (no argument: the supported names)",
    "only standard output (DIMACS conventions) or the result file (minisat convention) carries the answer: whatever the program writes on standard error (any bytes), and whatever a minisat-style program prints on its standard output (any bytes), is not part of it and does not change verdict or model",
    "standard output of a DIMACS-convention solver is ASCII text whose lines are comment lines ('c...'), blank lines, one 's' line and 'v' lines; line ends LF or CRLF; tokens of a 'v' line separated by blanks and tabs; the last line may lack its line end; the text may arrive in several writes",
    "a solver may stop reading its input as soon as it knows the answer (or close it and go on working), may read it in pieces of any size at its own pace, and may put any amount of text on its standard output before it has read its input: in all these cases the verdict/model it prints is the answer; a scripted solver of 'consumption' waits only for input, end of input or room in its output pipe, each wait guarded by 60 s (never reached on a working bridge)",
    "overlapping calls: solve() / is_satisfiable() may be called from several threads of one process at the same time on different formulas (nothing in the documentation restricts them to one call at a time, and the bridge keeps no documented state between calls); the calls are expected not to wait for each other: a scheduled point that is not reached within 30 s is reported; each call is told apart by an option '--tag=k' of its command line (an argument starting with '-' is an option)",
    "names of the temporary directory and of PATH entries: any characters but tab, newline, NUL, '/' (and ':' in PATH); the path is absolute; tokens of a command line are separated by one or more blanks, blanks around it are allowed",
]

NAMES = sorted(fs.BEHAVIOUR)
EXES = ['mysolver', 'my-hacked-minisat', 'patched-lingeling', 'x', 'solver2.1']
FLAGS = ['-no-pre', '--plain', '-pre', '-q', '--seed=3', '-v', '-model']
STATES = ('ok', 'noexec', 'badformat')      # anything else: not in bin/ at all
MAXVARS = 12


# ---------------------------------------------------------------------------
# building the inputs

def build_formula(case):
    from cnfgen.formula.cnf import CNF
    F = CNF()
    for b in case.get('blocks') or []:
        if len(b) == 1:
            F.new_block(b[0])
        else:
            F.new_block(b[0], b[1])
    F.update_variable_number(case['nvars'])
    for c in case['clauses']:
        F.add_clause(list(c))
    return F


def expand_planted(p):
    """{'nvars', 'clauses', 'blocks'} + (verdict, model) of a formula too large for a truth table, whose
    answer is known by construction.  p = {'n', 'm', 'rseed', 'unsat'}: a hidden assignment drawn from
    random.Random(rseed), m clauses of width 1..4 each containing a literal of it; 'unsat' adds the two
    unit clauses of one variable."""
    n, m = int(p['n']), int(p['m'])
    if not (1 <= n <= 4000 and 0 <= m <= 400):
        raise ValueError("planted formula out of range: {}".format(p))
    rng = random.Random(p['rseed'])
    hidden = [v if rng.random() < 0.5 else -v for v in range(1, n + 1)]
    clauses = []
    for _ in range(m):
        w = rng.randint(1, min(4, n))
        vs = rng.sample(range(1, n + 1), w)
        c = [v if rng.random() < 0.5 else -v for v in vs]
        k = rng.randrange(w)
        c[k] = hidden[abs(c[k]) - 1]
        clauses.append(c)
    if p.get('unsat'):
        x = rng.randint(1, n)
        clauses.insert(rng.randint(0, len(clauses)), [x])
        clauses.insert(rng.randint(0, len(clauses)), [-x])
    return {'nvars': n, 'clauses': clauses, 'blocks': []}, (not p.get('unsat')), hidden


def answer_of(case, n, clauses):
    """(verdict, model the truthful solver prints or None) - from the complete truth table, or, for a
    planted formula, from its construction (verified here against the clause list)."""
    if case.get('planted'):
        _, verdict, hidden = expand_planted(case['planted'])
        if verdict:
            if len(hidden) != n or not satisfies(clauses, hidden):
                raise RuntimeError("harness: the planted assignment does not satisfy the planted formula")
            return True, hidden
        units = set(c[0] for c in clauses if len(c) == 1)
        if not any(-u in units for u in units):
            raise RuntimeError("harness: planted unsatisfiable formula without complementary unit clauses")
        return False, None
    if n > MAXVARS:
        raise ValueError("case too large for the harness: {} variables".format(n))
    table = tt.cnf_tt(n, clauses)
    if table == 0:
        return False, None
    return True, kth_model(n, table, case.get('pick', 0))


def kth_model(n, table, k):
    cnt = table.bit_count()
    k %= cnt
    x = table
    while True:
        low = x & -x
        if k == 0:
            return tt.row_assignment(n, low.bit_length() - 1)
        x ^= low
        k -= 1


def satisfies(clauses, assignment):
    s = set(assignment)
    return all(any(l in s for l in c) for c in clauses)


def clause_key(clauses):
    return sorted(tuple(sorted(c)) for c in clauses)


class _Obs:
    """What one call into the bridge did."""
    __slots__ = ('what', 'value', 'exc', 'calls', 'left')


def call_bridge(sb, what, fn):
    o = _Obs()
    o.what = what
    o.value = o.exc = None
    old_err = sys.stderr
    sys.stderr = io.StringIO()
    try:
        with sb.quiet_stderr():                      # the programs inherit file descriptor 2
            try:
                o.value = fn()
            except (RuntimeError, ValueError) as e:      # the documented errors
                o.exc = e
    finally:
        sys.stderr = old_err
    o.calls = sb.collect()
    o.left = sb.leftovers()
    sb.clear_tmp()
    return o


def join_cmd(tokens, sep=' '):
    """The command line made of the tokens: sep between them ('  ': two blanks);
    'pad': a blank before and after as well."""
    if sep == 'pad':
        return ' ' + ' '.join(tokens) + ' '
    return sep.join(tokens)


def resolve_call(call, flags, sep=' '):
    """(program the command line names or None, cmd, sameas) of a call description
    {mode, solver, exe}."""
    mode = call['mode']
    if mode == 'named':
        target = call['solver']
        return target, join_cmd([target] + flags, sep), None
    if mode == 'sameas':
        target = call['exe']
        return target, join_cmd([target] + flags, sep), call['solver']
    if mode == 'unsupported':
        target = call['exe']
        return target, join_cmd([target] + flags, sep), None
    if mode == 'badsameas':
        target = call.get('exe')
        return target, (None if target is None else join_cmd([target] + flags, sep)), call['solver']
    if mode == 'auto':
        return None, None, None
    raise ValueError(mode)


def expected_outcome(mode, target, sameas, installed, supported, answered):
    """What the documentation promises for a call, given the programs reachable through
    PATH at the moment of the call (installed: name -> 'ok' | 'noexec' | 'badformat').
    Returns (expect, expect_alt, chosen): expect is 'verdict' or the exception class."""
    expect_alt = None
    chosen = None
    if mode == 'badsameas':
        expect = ValueError
        usable = (installed.get(target) == 'ok') if target is not None else \
            any(installed.get(s) == 'ok' for s in supported)
        if not usable:
            expect_alt = RuntimeError
    elif mode == 'unsupported':
        expect = RuntimeError
    elif mode == 'sameas' and sameas not in supported:
        expect = ValueError                      # the tree does not know this name (any more)
    elif mode == 'named' and target not in supported:
        expect = RuntimeError
    else:
        if mode == 'auto':
            for s in supported:
                if installed.get(s) == 'ok':
                    chosen = s
                    break
        elif installed.get(target) == 'ok':
            chosen = target
        if chosen is None:
            expect = RuntimeError
        elif not answered:
            expect = RuntimeError
        else:
            expect = 'verdict'
    return expect, expect_alt, chosen


def sandbox_options(env):
    """Constructor arguments of fs.Sandbox for the 'env' entry of a case."""
    if not env:
        return {}
    return {'bin_path': tuple(env.get('bin') or ['bin']),
            'tmp_path': tuple(env.get('tmp') or ['tmp']),
            'tmp_via': env.get('via', 'both')}


def execute(case):
    """Run solve() and is_satisfiable() on the case inside a sandbox.
    Returns a dict with everything the oracles need."""
    from cnfgen.utils.solver import supported_satsolvers
    if case.get('planted'):
        case = dict(case)
        case.update(expand_planted(case['planted'])[0])
    F = build_formula(case)
    n = F.number_of_variables()
    clauses = [list(c) for c in F]
    verdict, model = answer_of(case, n, clauses)
    shape = case['shape']
    mode = case['mode']
    supported = list(supported_satsolvers())
    installed = dict(case.get('installed') or {})
    flags = list(case.get('flags') or [])

    target, cmd, sameas = resolve_call(case, flags, case.get('sep', ' '))

    if cmd is None:
        flags = []
    behaviours = {}
    for name in installed:
        if mode == 'sameas' and name == target:
            behaviours[name] = fs.behaviour_of(sameas)
        else:
            behaviours[name] = fs.behaviour_of(name)

    answered = shape['status'] == 'answer'
    expect, expect_alt, chosen = expected_outcome(mode, target, sameas, installed, supported, answered)

    verbose = case.get('verbose', 0)
    opts = sandbox_options(case.get('env'))
    if shape.get('chan'):
        opts['capture_stderr'] = True
    with fs.Sandbox(**opts) as sb:
        for name, state in sorted(installed.items()):
            if state in STATES:
                sb.install(name, behaviours[name], state, verdict, model, shape, n)
        o1 = call_bridge(sb, 'solve', lambda: F.solve(cmd=cmd, sameas=sameas, verbose=verbose))
        o2 = call_bridge(sb, 'is_satisfiable', lambda: F.is_satisfiable(cmd=cmd, sameas=sameas))
        root = sb.root
    if os.path.exists(root):
        raise RuntimeError("harness: scratch directory {} not removed".format(root))
    after = [list(c) for c in F]
    return {
        'n': n, 'clauses': clauses, 'verdict': verdict, 'model': model, 'mode': mode,
        'cmd': cmd, 'sameas': sameas, 'expect': expect, 'expect_alt': expect_alt,
        'chosen': chosen, 'obs': [o1, o2], 'flags': flags, 'behaviours': behaviours,
        'supported': supported, 'installed': installed, 'target': target, 'shape': shape,
        'untouched': after == clauses and F.number_of_variables() == n,
    }


def describe(case, R):
    text = "formula p cnf {} {} {}; cmd={!r} sameas={!r} installed={} answer={}".format(
        R['n'], len(R['clauses']), R['clauses'][:6], R['cmd'], R['sameas'],
        R['installed'], {k: v for k, v in R['shape'].items()})
    if R['shape'].get('chan') and R['chosen'] is not None:
        text += "; what the program does: " + fs.describe_channels(
            R['behaviours'][R['chosen']], R['verdict'], R['model'], R['shape'], R['n'])
    env = case.get('env')
    if env:
        text += "; directory for temporary files <scratch>/T/{} announced through {}, first PATH entry <scratch>/B/{}".format(
            '/'.join(env.get('tmp') or ['tmp']), {'both': 'TMPDIR and tempfile.tempdir'}.get(env.get('via', 'both'), env.get('via')),
            '/'.join(env.get('bin') or ['bin']))
    return text


# ---------------------------------------------------------------------------
# oracles

def check_observation(o, R, ctx):
    """One call into the bridge (o) against what the documentation promises (R: the
    formula, the verdict and model the solver prints, the expected outcome, the solver
    that has to be chosen)."""
    check_received(o, R, ctx)
    check_outcome(o, R, ctx)


def check_received(o, R, ctx):
    """1. what every solver run received"""
    n, clauses = R['n'], R['clauses']
    exp = R['expect']
    for c in o.calls:
        if c['input'] is None:
            # a fake that needs a file and got none (it refused), or one that could not read it
            if exp == 'verdict':
                raise Violation("{}(): solver '{}' was run as {} and received no formula; {}".format(
                    o.what, c['name'], c['args'], ctx))
            continue
        try:
            text = c['input'].decode('ascii')
            gn, gcl = fs.strict_dimacs(text)
        except (UnicodeDecodeError, fs.DimacsError) as e:
            raise Violation("{}(): solver '{}' received text that is not DIMACS CNF ({}): {!r}; {}".format(
                o.what, c['name'], e, c['input'][:200], ctx))
        if gn != n or clause_key(gcl) != clause_key(clauses):
            raise Violation("{}(): solver '{}' received p cnf {} {} {} which is not the formula held; {}".format(
                o.what, c['name'], gn, len(gcl), gcl[:8], ctx))


def check_outcome(o, R, ctx):
    """2. verdict, model or documented error"""
    n, clauses = R['n'], R['clauses']
    exp = R['expect']
    if exp == 'verdict':
        if o.exc is not None:
            raise Violation("{}() raised {}({}) although solver '{}' is installed and answered {}; {}".format(
                o.what, type(o.exc).__name__, str(o.exc).strip(), R['chosen'],
                'SATISFIABLE' if R['verdict'] else 'UNSATISFIABLE', ctx))
        if len(o.calls) != 1 or o.calls[0]['name'] != R['chosen']:
            raise Violation("{}(): expected exactly one run of '{}' (first usable solver of {}), observed runs {}; {}".format(
                o.what, R['chosen'], R['supported'] if R['mode'] == 'auto' else [R['chosen']],
                [c['name'] for c in o.calls], ctx))
        got_flags = [a for a in (o.calls[0]['args'] or []) if a.startswith('-')]
        if got_flags != R['flags']:
            raise Violation("{}(): the command line {!r} reached the solver with options {} (all arguments {}); {}".format(
                o.what, R['cmd'], got_flags, o.calls[0]['args'], ctx))
        if o.what == 'is_satisfiable':
            if o.value is not R['verdict']:
                raise Violation("is_satisfiable() returned {!r}, the solver answered {}; {}".format(
                    o.value, R['verdict'], ctx))
            return
        v = o.value
        if not (isinstance(v, tuple) and len(v) == 2):
            raise Violation("solve() returned {!r}, not a pair; {}".format(v, ctx))
        ok, A = v
        if ok is not R['verdict']:
            raise Violation("solve() returned verdict {!r}, the solver answered {}; {}".format(ok, R['verdict'], ctx))
        if not R['verdict']:
            if A is not None:
                raise Violation("solve() returned (False, {!r}) for an unsatisfiable answer, expected (False, None); {}".format(A, ctx))
            return
        want = sorted(R['model'], key=abs)
        if A is None and n == 0:
            raise Violation("solve() returned (True, None) for a satisfiable formula without variables: "
                            "the assignment (the empty list) is missing; {}".format(ctx),
                            signature="zero-variables-witness-none")
        if not isinstance(A, (list, tuple)):
            raise Violation("solve() returned (True, {!r}): no assignment although the solver printed {}; {}".format(A, want, ctx))
        A = list(A)
        if any(type(l) is not int for l in A):
            raise Violation("solve() returned a assignment with non-integer entries {!r}; {}".format(A, ctx))
        if sorted(A, key=abs) == want and A != want:
            raise Violation("solve() returned the assignment {} which is not ordered by variable; {}".format(A, ctx))
        if A != want:
            raise Violation("solve() returned the assignment {} but the solver printed the model {}; {}".format(A, want, ctx))
        if not satisfies(clauses, A):
            raise Violation("harness inconsistency: model {} does not satisfy {}".format(A, clauses))
    else:
        if o.exc is None:
            raise Violation("{}() returned {!r} where {} is documented ({}); {}".format(
                o.what, o.value, exp.__name__, why_error(R), ctx))
        if not isinstance(o.exc, exp) and not (R['expect_alt'] and isinstance(o.exc, R['expect_alt'])):
            raise Violation("{}() raised {}({}) where {} is documented ({}); {}".format(
                o.what, type(o.exc).__name__, str(o.exc).strip(), exp.__name__, why_error(R), ctx))


def check_verdict(case, R):
    ctx = describe(case, R)
    for o in R['obs']:
        check_observation(o, R, ctx)
    if not R['untouched']:
        raise Violation("the formula was modified by solve()/is_satisfiable(); {}".format(ctx))


def why_error(R):
    m = R['mode']
    if m == 'badsameas':
        return "sameas={!r} is not a supported solver".format(R['sameas'])
    if m == 'unsupported':
        return "'{}' is not a supported solver and no sameas is given".format(R['target'])
    if R['chosen'] is None:
        return "no usable solver: programs in bin/ = {}".format(R['installed'])
    return "solver '{}' gave no answer ({})".format(R['chosen'], R['shape']['status'])


def check_leftovers(o, ctx):
    if o.left:
        nfiles = [len([a for a in (c['args'] or []) if not a.startswith('-')]) for c in o.calls]
        sig = "tmpfile-left-filein-stdout" if nfiles == [1] else None
        raise Violation("{}() left {} in the temporary directory (outcome: {}; solver runs: {}); {}".format(
            o.what, o.left, 'raised ' + type(o.exc).__name__ if o.exc is not None else repr(o.value),
            [(c['name'], c['args']) for c in o.calls], ctx), signature=sig)


def check_tmp(case, R):
    ctx = describe(case, R)
    for o in R['obs']:
        check_leftovers(o, ctx)


# ---------------------------------------------------------------------------
# labels

def labels_of(case, R):
    L = [R['mode']]
    sh = R['shape']
    n = R['n']
    if R['expect'] == 'verdict':
        ch = R['chosen']
        L.append('sameas:' + R['sameas'] if R['mode'] == 'sameas' else 'solver:' + ch)
        beh = R['behaviours'][ch]
        L.append(fs.CONVENTION_LABEL[beh])
        if ch in fs.GRAY_NAMES or (R['mode'] == 'sameas' and R['sameas'] in fs.GRAY_NAMES):
            L.append('gray-glucose')
        L.append('sat' if R['verdict'] else 'unsat')
        if R['verdict']:
            if beh != 'minisat':
                _, k = fs.render_stdout(True, R['model'], sh)
                L.append('vlines={}'.format(min(k, 4)))
                L.append('zero-' + sh.get('zero', 'same'))
                L.append('s-' + sh.get('s_pos', 'before'))
                if any(f % len(fs.FILLERS) for f in (sh.get('fill') or [0])):
                    L.append('comments-interleaved')
            else:
                L.append('minisat-zero-' + ('absent' if sh.get('zero', 'same') == 'none' else 'present'))
            if sh.get('order', 0) != 0 and n >= 2:
                L.append('model-unordered')
            if n >= 10:
                L.append('ten-or-more-variables')
        if sh.get('exit', 'std') == 'std':
            L.append('exit-10-20')
        if R['flags']:
            L.append('flags')
        if R['mode'] == 'sameas' and R['target'] in R['supported']:
            L.append('sameas-overrides')
        if R['mode'] == 'auto':
            first = R['supported'][0] if R['supported'] else None
            if ch != first:
                L.append('auto-skips-missing')
            if sum(1 for s in R['installed'].values() if s == 'ok') >= 2:
                L.append('auto-several-installed')
    else:
        if R['mode'] in ('named', 'sameas', 'auto'):
            if R['chosen'] is None:
                L.append('not-installed')
                t = R['target']
                if t is not None and R['installed'].get(t) in ('noexec', 'badformat'):
                    L.append('not-executable')
                if R['mode'] == 'named' and t not in R['supported']:
                    L.append('name-not-in-table')
            else:
                L.append('no-answer')
                L.append('no-answer:' + sh['status'])
                L.append('no-answer:' + fs.CONVENTION_LABEL[R['behaviours'][R['chosen']]])
    if n == 0:
        L.append('zero-variables')
    if any(len(c) == 0 for c in R['clauses']):
        L.append('empty-clause')
    used = set(abs(l) for c in R['clauses'] for l in c)
    if len(used) < n:
        L.append('unused-variables')
    if case.get('verbose', 0):
        L.append('verbose')
    return L


def nontrivial_of(R, labels):
    if R['expect'] != 'verdict':
        return False
    if not R['verdict']:
        return True
    if R['n'] < 2:
        return False
    return 'filein-fileout' in labels or any(l in labels for l in ('vlines=2', 'vlines=3', 'vlines=4'))


def run_verdict(case):
    R = execute(case)
    check_verdict(case, R)
    L = labels_of(case, R)
    return Outcome(labels=L, nontrivial=nontrivial_of(R, L), rejected=R['expect'] != 'verdict')


def run_tmp(case):
    if case.get('overlap'):
        return run_overlap(case)
    R = execute(case)
    check_tmp(case, R)
    L = labels_of(case, R)
    # which interface did the tree use: number of file arguments the solver saw
    for o in R['obs']:
        for c in o.calls:
            L.append('files-passed={}'.format(len([a for a in (c['args'] or []) if not a.startswith('-')])))
        if o.exc is not None:
            L.append('after-' + type(o.exc).__name__)
    L = sorted(set(L))
    return Outcome(labels=L, nontrivial=bool(R['obs'][0].calls), rejected=R['expect'] != 'verdict')


# ---------------------------------------------------------------------------
# overlapping calls in one process (cases with 'overlap', sub-check 'tempfiles')
#
#   case['overlap'] = {'template': name of the interleaving (for the labels),
#                      'calls': [{'nvars', 'clauses', 'blocks', 'pick', 'what': 'solve' | 'is_satisfiable',
#                                 'mode': 'named' | 'sameas', 'solver', 'exe', 'flags'}, ...]      2 or 3 calls
#                      'steps': [['launch', k], ['wait', k, 'started' | 'read' | 'done' | 'returned'],
#                                ['release', k, 'start' | 'answer'], ...]}
#   case['shape']   = the layout of the answers (status 'answer')
#
# Call k runs in its own thread of this process on its own formula (the formulas of a case differ pairwise) with
# the command line '<program> --tag=k [options]'.  The programs are gated (vlib/fakesolver.py): they report
# 'started' / 'read' (input read to the end) / 'done' through a FIFO and wait at the gates 'start' (before the
# input is opened) and 'answer' (after it was read) that a ['release', k, gate] step names, until the main thread
# opens them.  The main thread executes the steps in order: the interleaving of the calls is the one the case
# describes, whatever the machine does; nothing is measured and no pause is used.  A program answers for the
# formula it RECEIVED (it knows the truthful answer of every formula of the case, in its own convention).
# Oracle: every call returns - no exception - the verdict and the model of ITS OWN formula; the one run that
# carries its tag was of the program its command line names, got its options and received its formula; every
# point of the schedule was reached (a guard of 30 s, and of 60 s in the programs, turns calls that wait for each
# other into a finding); the directory for temporary files is empty when all calls have returned; the formulas
# are as they were.

OVERLAP_TEMPLATES = ('held-at-start', 'held-before-answer', 'together', 'together-reversed', 'crossing', 'chain',
                     'stacked', 'queued')


def overlap_steps(template, order):
    """The steps of an interleaving of the calls listed in `order` (first = the one launched first)."""
    L = lambda k: ['launch', k]
    W = lambda k, e: ['wait', k, e]
    R = lambda k, g: ['release', k, g]
    a, rest = order[0], list(order[1:])
    if template in ('held-at-start', 'held-before-answer'):
        # a starts first; the others run from start to end while a has not opened its input / has read it but not answered
        gate, ev = ('start', 'started') if template == 'held-at-start' else ('answer', 'read')
        s = [L(a), W(a, ev)]
        for b in rest:
            s += [L(b), W(b, 'returned')]
        return s + [R(a, gate), W(a, 'returned')]
    if template in ('together', 'together-reversed'):
        # all are started before any opens its input; all have read before any answers
        s = [L(k) for k in order] + [W(k, 'started') for k in order] + [R(k, 'start') for k in order]
        s += [W(k, 'read') for k in order]
        for k in (order if template == 'together' else order[::-1]):
            s += [R(k, 'answer'), W(k, 'returned')]
        return s
    if template == 'crossing':
        # a has read its input when b starts; a answers and returns while b has not opened its input
        b, more = rest[0], rest[1:]
        s = [L(a), W(a, 'read'), L(b), W(b, 'started')]
        for c in more:
            s += [L(c), W(c, 'returned')]
        return s + [R(a, 'answer'), W(a, 'returned'), R(b, 'start'), W(b, 'returned')]
    if template == 'chain':
        # a waits before opening its input, b starts and reads, a goes on and returns, then b answers
        b, more = rest[0], rest[1:]
        s = [L(a), W(a, 'started'), L(b), W(b, 'read')]
        for c in more:
            s += [L(c), W(c, 'returned')]
        return s + [R(a, 'start'), W(a, 'returned'), R(b, 'answer'), W(b, 'returned')]
    if template == 'stacked':
        # each starts while the former ones wait before opening their input; last in, first out
        s = []
        for k in order:
            s += [L(k), W(k, 'started')]
        for k in order[::-1]:
            s += [R(k, 'start'), W(k, 'returned')]
        return s
    if template == 'queued':
        # each reads its input while the former ones wait before answering; first in, first out
        s = []
        for k in order:
            s += [L(k), W(k, 'read')]
        for k in order:
            s += [R(k, 'answer'), W(k, 'returned')]
        return s
    raise ValueError(template)


def _overlap_plan(steps, ncalls):
    """{call: [gates]} of a list of steps; the steps are checked to be executable by calls that do not wait for
    each other (a wait names an event its call can reach with the gates opened so far)."""
    gates = {}
    for st in steps:
        if st[0] == 'release':
            if st[2] not in fs.Stage.GATES or st[2] in gates.setdefault(st[1], []):
                raise ValueError("bad step {}".format(st))
            gates[st[1]].append(st[2])
    launched, opened = set(), set()
    for st in steps:
        k = st[1]
        if not (isinstance(k, int) and 0 <= k < ncalls):
            raise ValueError("bad step {}".format(st))
        if st[0] == 'launch':
            if k in launched:
                raise ValueError("call {} launched twice".format(k))
            launched.add(k)
        elif k not in launched:
            raise ValueError("step {} before the launch of the call".format(st))
        elif st[0] == 'release':
            opened.add((k, st[2]))
        elif st[0] == 'wait':
            need = {'started': [], 'read': ['start'], 'done': ['start', 'answer'], 'returned': ['start', 'answer']}[st[2]]
            if any(g in gates.get(k, []) and (k, g) not in opened for g in need):
                raise ValueError("step {} waits for an event behind a closed gate".format(st))
        else:
            raise ValueError("bad step {}".format(st))
    if launched != set(range(ncalls)):
        raise ValueError("not every call is launched")
    return gates


def _steps_text(steps):
    return ', '.join('{} {}{}'.format(st[0], st[1], ' ' + st[2] if len(st) > 2 else '') for st in steps)


def run_overlap(case):
    import threading
    from vlib.core import exception_in_tree, short_tb
    from cnfgen.utils.solver import supported_satsolvers
    ov = case['overlap']
    calls, steps, shape = ov['calls'], ov['steps'], case['shape']
    if not 2 <= len(calls) <= 3 or shape['status'] != 'answer':
        raise ValueError("an overlap case has 2 or 3 calls of programs that answer")
    gates = _overlap_plan(steps, len(calls))
    supported = list(supported_satsolvers())
    status = lambda verdict: (10 if verdict else 20) if shape.get('exit', 'std') == 'std' else 0
    infos = []
    programs = {}
    for k, c in enumerate(calls):
        F = build_formula(c)
        n = F.number_of_variables()
        clauses = [list(x) for x in F]
        verdict, model = answer_of(c, n, clauses)
        flags = ['--tag={}'.format(k)] + list(c.get('flags') or [])
        if c['mode'] not in ('named', 'sameas'):
            raise ValueError("an overlap case names its programs")
        target, cmd, sameas = resolve_call(c, flags)
        beh = fs.behaviour_of(sameas if c['mode'] == 'sameas' else target)
        if programs.setdefault(target, beh) != beh:
            raise ValueError("program {} with two conventions in one case".format(target))
        expect, _, chosen = expected_outcome(c['mode'], target, sameas, {target: 'ok'}, supported, True)
        if expect != 'verdict':
            raise ValueError("an overlap case needs supported names")
        infos.append({'F': F, 'n': n, 'clauses': clauses, 'verdict': verdict, 'model': model, 'flags': flags,
                      'target': target, 'cmd': cmd, 'sameas': sameas, 'beh': beh, 'what': c['what'], 'mode': c['mode'],
                      'key': fs.formula_key(n, clauses)})
    if len(set(i['key'] for i in infos)) != len(infos):
        # generated formulas may coincide: such a case says nothing about who received what
        return Outcome(labels=['overlap-equal-formulas'], nontrivial=False, rejected=True)
    results = [None] * len(calls)
    with fs.Sandbox() as sb:
        for name, beh in sorted(programs.items()):
            answers = {}
            for i in infos:
                out, res = fs.consumer_output(beh, i['verdict'], i['model'], shape, i['n'])
                answers[i['key']] = (out, res, status(i['verdict']))
            sb.install_gated(name, beh, gates, answers)
        with fs.Stage(sb, gates) as stage:

            def worker(k):
                i = infos[k]
                try:
                    if i['what'] == 'solve':
                        results[k] = ('value', i['F'].solve(cmd=i['cmd'], sameas=i['sameas']))
                    else:
                        results[k] = ('value', i['F'].is_satisfiable(cmd=i['cmd'], sameas=i['sameas']))
                except BaseException as e:      # noqa - judged by the main thread
                    results[k] = ('exc', e)
                finally:
                    stage.post(k, 'returned')

            threads = []
            old_err = sys.stderr
            sys.stderr = io.StringIO()
            try:
                for st in steps:
                    if st[0] == 'launch':
                        t = threading.Thread(target=worker, args=(st[1],), daemon=True)
                        threads.append(t)
                        t.start()
                    elif st[0] == 'release':
                        stage.release(st[1], st[2])
                    elif not stage.wait(st[1], st[2]):
                        break                       # the schedule cannot be followed any more: let everybody finish
                stage.release_all()
                for k in range(len(threads)):
                    stage.wait(k, 'returned')
                for t in threads:
                    t.join(timeout=fs.WATCHDOG_S + 10)
                stage.drain()
            finally:
                sys.stderr = old_err
            alive = [k for k, t in enumerate(threads) if t.is_alive()]
            runs = stage.runs()
            missed = list(stage.missed)
            seen = list(stage.seen)
        left = sb.leftovers()
        sb.clear_tmp()
        root = sb.root
    if os.path.exists(root):
        raise RuntimeError("harness: scratch directory {} not removed".format(root))

    def show(k):
        i = infos[k]
        return "call {}: {}(cmd={!r}{}) on p cnf {} {} {}".format(
            k, i['what'], i['cmd'], '' if i['sameas'] is None else ', sameas={!r}'.format(i['sameas']),
            i['n'], len(i['clauses']), i['clauses'][:6])

    ctx = ("{} calls overlapping in one process, each in its own thread; {}; interleaving '{}' enforced through the "
           "programs: {}; events observed: {}").format(
        len(calls), '; '.join(show(k) for k in range(len(calls))), ov.get('template', '?'), _steps_text(steps),
        ' '.join('{}:{}'.format(t, e) for t, e in seen))
    if alive:
        raise Violation("the calls {} never returned; {}".format(alive, ctx))
    by_key = dict((i['key'], k) for k, i in enumerate(infos))
    labels = ['overlap', 'overlap:' + ov.get('template', '?'), 'overlap-calls={}'.format(len(calls))]
    for k, i in enumerate(infos):
        kind, val = results[k]
        mine = [r for r in runs if r['tag'] == str(k)]
        got = None
        for r in mine:
            if r['input'] is not None:
                try:
                    gn, gcl = fs.strict_dimacs(r['input'].decode('ascii'))
                    got = by_key.get(fs.formula_key(gn, gcl), 'unknown')
                except (UnicodeDecodeError, fs.DimacsError):
                    got = 'unknown'
        hint = ''
        if got not in (None, k):
            hint = " (its program received {})".format(
                'the formula of call {}'.format(got) if got != 'unknown' else 'a text that is none of the formulas')
        if any(r['problems'] for r in mine):
            hint += " (its program: {})".format('; '.join(x for r in mine for x in (r['problems'] or [])))
        if kind == 'exc':
            if isinstance(val, (RuntimeError, ValueError)) or exception_in_tree(val):
                raise Violation("call {} raised {}({}) [{}] although its solver is installed and answers{}; {}".format(
                    k, type(val).__name__, str(val).strip(), short_tb(val), hint, ctx)) from val
            raise val
        o = _Obs()
        o.what, o.value, o.exc, o.left = i['what'], val, None, []
        o.calls = [{'name': r['name'], 'args': r['args'], 'input': r['input']} for r in mine]
        R = {'n': i['n'], 'clauses': i['clauses'], 'verdict': i['verdict'], 'model': i['model'], 'mode': i['mode'],
             'cmd': i['cmd'], 'sameas': i['sameas'], 'expect': 'verdict', 'expect_alt': None, 'chosen': i['target'],
             'flags': i['flags'], 'supported': supported, 'installed': {i['target']: 'ok'}, 'target': i['target'],
             'shape': shape}
        check_observation(o, R, "call {}{}; {}".format(k, hint, ctx))
        if any(r['stuck'] for r in mine):
            raise Violation("call {}: its program waited in vain ({}); {}".format(
                k, '; '.join(x for r in mine for x in (r['stuck'] or [])), ctx))
        if [list(x) for x in i['F']] != i['clauses'] or i['F'].number_of_variables() != i['n']:
            raise Violation("call {} modified its formula; {}".format(k, ctx))
        conv = fs.CONVENTION_LABEL[i['beh']]
        labels += ['overlap/' + conv, 'overlap-' + i['what'], 'overlap-' + ('sat' if i['verdict'] else 'unsat'),
                   i['mode'], conv, 'files-passed={}'.format(len([a for a in o.calls[0]['args'] if not a.startswith('-')]))]
    stray = [r for r in runs if r['tag'] not in [str(k) for k in range(len(calls))]]
    if stray:
        raise Violation("programs were run without the options of any call: {}; {}".format(
            [(r['name'], r['args']) for r in stray], ctx))
    if missed:
        # the schedule could not be followed within the guard (calls that wait for each other, or a box too busy to start
        # a program in time): the property does not promise concurrency, and a clock is no oracle - every call has been
        # judged on its own answer above; the case is counted as rejected, not as a violation
        return Outcome(labels=['overlap', 'overlap-schedule-not-followed'], nontrivial=False, rejected=True)
    if left:
        raise Violation("{} left in the directory for temporary files after all overlapping calls returned; {}".format(left, ctx))
    names = [i['target'] for i in infos]
    convs = [i['beh'] for i in infos]
    verdicts = set(i['verdict'] for i in infos)
    if len(set(names)) < len(names):
        labels.append('overlap-same-program')
        for i in infos:
            if names.count(i['target']) > 1:
                labels.append('overlap-same-program/' + fs.CONVENTION_LABEL[i['beh']])
    if len(set(convs)) < len(convs):
        labels.append('overlap-same-convention')
    if len(set(convs)) > 1:
        labels.append('overlap-mixed-conventions')
    if len(verdicts) == 2:
        labels.append('overlap-sat-and-unsat')
    return Outcome(labels=sorted(set(labels)), nontrivial=len(verdicts) == 2, rejected=False)


# ---------------------------------------------------------------------------
# generators

def _lit(n):
    return st.integers(1, n).flatmap(lambda v: st.sampled_from([v, -v]))


@st.composite
def strat_formula(draw):
    n = draw(st.sampled_from([0, 0, 1, 2, 2, 3, 3, 4, 5, 6, 8, 10, 11]))
    kind = draw(st.sampled_from(['random', 'random', 'random', 'empty-clause', 'units', 'complete', 'few']))
    blocks = []
    if n >= 2 and draw(st.integers(0, 3)) == 0:
        a = draw(st.integers(1, n))
        blocks = [[a]] if n - a < 2 or draw(st.booleans()) else [[a], [1, n - a]]
    if n == 0:
        m = draw(st.sampled_from([0, 0, 1, 2]))
        return {'nvars': 0, 'clauses': [[] for _ in range(m)], 'blocks': []}
    if kind == 'few':
        clauses = draw(st.lists(st.lists(_lit(n), min_size=1, max_size=3), max_size=2))
    else:
        clauses = draw(st.lists(st.lists(_lit(n), min_size=0 if kind == 'empty-clause' else 1, max_size=4), max_size=8))
    if kind == 'empty-clause':
        clauses.insert(draw(st.integers(0, len(clauses))), [])
    elif kind == 'units':
        v = draw(st.integers(1, n))
        clauses.insert(draw(st.integers(0, len(clauses))), [v])
        clauses.append([-v])
    elif kind == 'complete':
        k = min(n, draw(st.integers(1, 3)))
        vs = draw(st.lists(st.integers(1, n), min_size=k, max_size=k, unique=True))
        for mask in range(1 << k):
            clauses.append([v if (mask >> i) & 1 else -v for i, v in enumerate(vs)])
    return {'nvars': n, 'clauses': clauses, 'blocks': blocks}


@st.composite
def strat_shape(draw):
    status = draw(st.sampled_from(['answer'] * 7 + ['nosline', 'unknown', 'crash']))
    sh = {'status': status,
          'fill': draw(st.lists(st.integers(0, len(fs.FILLERS) - 1), min_size=1, max_size=6))}
    if status == 'crash':
        sh['crash'] = draw(st.sampled_from(fs.CRASHES))
    if status == 'answer':
        sh['cuts'] = draw(st.lists(st.integers(0, 12), max_size=3))
        sh['zero'] = draw(st.sampled_from(fs.ZEROS))
        sh['s_pos'] = draw(st.sampled_from(fs.SPOS))
        sh['order'] = draw(st.sampled_from([0, 0, 0, 1]) | st.integers(2, 60))
        sh['exit'] = draw(st.sampled_from(['std', 'std', 'zero']))
    return sh


def _common(draw, case):
    case.update(draw(strat_formula()))
    case['shape'] = draw(strat_shape())
    case['pick'] = draw(st.sampled_from([0, 1, 2]) | st.integers(0, 5000))
    case['flags'] = draw(st.lists(st.sampled_from(FLAGS), max_size=2, unique=True))
    case['verbose'] = draw(st.sampled_from([0, 0, 0, 0, 1, 2]))
    return case


STATE_TARGET = ['ok'] * 8 + ['missing', 'noexec', 'badformat']


@st.composite
def strat_named(draw):
    solver = draw(st.sampled_from(NAMES))
    installed = {d: 'ok' for d in draw(st.lists(st.sampled_from(NAMES), max_size=3))}
    installed[solver] = draw(st.sampled_from(STATE_TARGET))
    return _common(draw, {'mode': 'named', 'solver': solver, 'installed': installed})


@st.composite
def strat_sameas(draw):
    kind = draw(st.sampled_from(['sameas'] * 6 + ['override', 'unsupported', 'badsameas', 'badsameas-none']))
    installed = {d: 'ok' for d in draw(st.lists(st.sampled_from(NAMES), max_size=2))}
    solver = draw(st.sampled_from(NAMES))
    if kind == 'override':
        exe = draw(st.sampled_from([s for s in NAMES if s != solver]))
    else:
        exe = draw(st.sampled_from(EXES))
    state = draw(st.sampled_from(STATE_TARGET))
    if kind in ('sameas', 'override'):
        installed[exe] = state
        case = {'mode': 'sameas', 'solver': solver, 'exe': exe}
    elif kind == 'unsupported':
        installed[exe] = state
        case = {'mode': 'unsupported', 'exe': exe}
    else:
        bad = draw(st.sampled_from(['nosuchsolver', 'minisat2', 'my-solver']))
        if kind == 'badsameas':
            exe = draw(st.sampled_from(EXES + NAMES))
            installed[exe] = state
        else:
            exe = None
        case = {'mode': 'badsameas', 'solver': bad, 'exe': exe}
    case['installed'] = installed
    return _common(draw, case)


@st.composite
def strat_auto(draw):
    installed = {}
    dens = draw(st.sampled_from([1, 2, 4]))
    for s in NAMES:
        stt = draw(st.sampled_from(['missing'] * dens + ['ok', 'ok', 'noexec', 'badformat']))
        if stt != 'missing':
            installed[s] = stt
    if draw(st.integers(0, 4)) == 0:
        installed[draw(st.sampled_from(EXES))] = 'ok'       # an unsupported program lying around
    return _common(draw, {'mode': 'auto', 'installed': installed})


def strat_any():
    return st.one_of(strat_named(), strat_named(), strat_sameas(), strat_auto())


# -- finite slices ----------------------------------------------------------

def _tree_names():
    from cnfgen.utils.solver import supported_satsolvers
    names = list(supported_satsolvers())
    return names + [s for s in NAMES if s not in names]


BIG = {'nvars': 12, 'clauses': [[-1, 12], [-12, 3], [10, 11, -2], [-11], [9, -10]], 'blocks': []}
ENUM_FORMULAS = [
    {'nvars': 0, 'clauses': [], 'blocks': []},
    {'nvars': 0, 'clauses': [[]], 'blocks': []},
    {'nvars': 1, 'clauses': [[1]], 'blocks': []},
    {'nvars': 3, 'clauses': [[1, -2], [2, -3], [3]], 'blocks': []},
    {'nvars': 3, 'clauses': [], 'blocks': [[3]]},
    {'nvars': 2, 'clauses': [[1, 2], [1, -2], [-1, 2], [-1, -2]], 'blocks': []},
    BIG,
]
ENUM_SHAPES = [
    {'status': 'answer', 'fill': [0], 'cuts': [], 'zero': 'same', 's_pos': 'before', 'order': 0, 'exit': 'std'},
    {'status': 'answer', 'fill': [1, 2, 4, 5], 'cuts': [1, 2, 7], 'zero': 'own', 's_pos': 'after', 'order': 1, 'exit': 'zero'},
    {'status': 'answer', 'fill': [6, 0, 3], 'cuts': [5], 'zero': 'none', 's_pos': 'middle', 'order': 7, 'exit': 'std'},
    {'status': 'nosline', 'fill': [1]},
    {'status': 'unknown', 'fill': [0]},
    {'status': 'crash', 'fill': [1], 'crash': 'kill'},
]


def _mk(base, f, sh, i):
    c = dict(base)
    c.update(f)
    c['shape'] = dict(sh)
    c['pick'] = i
    c['flags'] = [[], ['-q'], ['--plain', '-v']][i % 3]
    c['verbose'] = 0
    return c


def _formulas(tier):
    # quick: no variables (sat / unsat), three variables, twelve variables
    return ENUM_FORMULAS if tier != 'quick' else [ENUM_FORMULAS[0], ENUM_FORMULAS[1], ENUM_FORMULAS[3], BIG]


def enum_named(tier):
    i = 0
    for name in _tree_names():
        for f in _formulas(tier):
            for sh in ENUM_SHAPES:
                i += 1
                yield _mk({'mode': 'named', 'solver': name, 'installed': {name: 'ok'}}, f, sh, i)
        for stt in ('missing', 'noexec', 'badformat'):
            other = NAMES[(NAMES.index(name) + 1) % len(NAMES)] if name in NAMES else NAMES[0]
            yield _mk({'mode': 'named', 'solver': name, 'installed': {name: stt, other: 'ok'}},
                      ENUM_FORMULAS[3], ENUM_SHAPES[0], i)


def enum_sameas(tier):
    i = 0
    for name in _tree_names():
        for f in _formulas(tier):
            for sh in ENUM_SHAPES[:4]:
                i += 1
                exe = EXES[i % len(EXES)]
                yield _mk({'mode': 'sameas', 'solver': name, 'exe': exe, 'installed': {exe: 'ok'}}, f, sh, i)
        yield _mk({'mode': 'sameas', 'solver': name, 'exe': 'mysolver', 'installed': {name: 'ok'}},
                  ENUM_FORMULAS[3], ENUM_SHAPES[0], i)          # the program itself is missing
    # a supported program name whose interface is overridden by sameas (the program
    # speaks the convention of the sameas solver, not the one of its own name)
    for exe, name in (('lingeling', 'minisat'), ('cadical', 'march'), ('minisat', 'kissat'),
                      ('march', 'minisat'), ('sat4j', 'minisat'), ('minisat', 'sat4j')):
        for f in (ENUM_FORMULAS[3], ENUM_FORMULAS[5]):
            for sh in ENUM_SHAPES[:2]:
                i += 1
                yield _mk({'mode': 'sameas', 'solver': name, 'exe': exe, 'installed': {exe: 'ok'}}, f, sh, i)
    for exe in EXES:
        for stt in ('ok', 'missing'):
            yield _mk({'mode': 'unsupported', 'exe': exe, 'installed': {exe: stt}}, ENUM_FORMULAS[3], ENUM_SHAPES[0], 0)
            yield _mk({'mode': 'badsameas', 'solver': 'nosuchsolver', 'exe': exe, 'installed': {exe: stt}},
                      ENUM_FORMULAS[3], ENUM_SHAPES[0], 0)
    yield _mk({'mode': 'badsameas', 'solver': 'nosuchsolver', 'exe': None, 'installed': {'minisat': 'ok'}},
              ENUM_FORMULAS[3], ENUM_SHAPES[0], 0)
    yield _mk({'mode': 'badsameas', 'solver': 'nosuchsolver', 'exe': 'lingeling', 'installed': {'lingeling': 'ok'}},
              ENUM_FORMULAS[3], ENUM_SHAPES[0], 0)


def enum_auto(tier):
    names = _tree_names()
    i = 0
    for f in (ENUM_FORMULAS[0], ENUM_FORMULAS[3], ENUM_FORMULAS[5], BIG)[:2 if tier == 'quick' else 4]:
        yield _mk({'mode': 'auto', 'installed': {}}, f, ENUM_SHAPES[0], 0)
        yield _mk({'mode': 'auto', 'installed': {'mysolver': 'ok'}}, f, ENUM_SHAPES[0], 0)
        for a in names:
            for sh in ENUM_SHAPES[:2] + ENUM_SHAPES[3:4]:
                i += 1
                yield _mk({'mode': 'auto', 'installed': {a: 'ok'}}, f, sh, i)
        for a, b in zip(names, names[1:] + names[:1]):
            i += 1
            yield _mk({'mode': 'auto', 'installed': {a: 'ok', b: 'ok'}}, f, ENUM_SHAPES[1], i)
            yield _mk({'mode': 'auto', 'installed': {a: 'noexec', b: 'ok'}}, f, ENUM_SHAPES[2], i)
            yield _mk({'mode': 'auto', 'installed': {a: 'badformat', b: 'ok'}}, f, ENUM_SHAPES[0], i)


def enum_tmp(tier):
    i = 0
    for name in _tree_names():
        for f in (ENUM_FORMULAS[3], ENUM_FORMULAS[1])[:1 if tier == 'quick' else 2]:
            for sh in ENUM_SHAPES:
                i += 1
                yield _mk({'mode': 'named', 'solver': name, 'installed': {name: 'ok'}}, f, sh, i)
                yield _mk({'mode': 'sameas', 'solver': name, 'exe': 'mysolver', 'installed': {'mysolver': 'ok'}}, f, sh, i)
            yield _mk({'mode': 'auto', 'installed': {name: 'ok'}}, f, ENUM_SHAPES[0], i)
            yield _mk({'mode': 'named', 'solver': name, 'installed': {name: 'noexec'}}, f, ENUM_SHAPES[0], i)
            yield _mk({'mode': 'named', 'solver': name, 'installed': {}}, f, ENUM_SHAPES[0], i)
    # the calls that end in ValueError (unknown 'sameas' name) leave nothing behind either
    yield _mk({'mode': 'badsameas', 'solver': 'nosuchsolver', 'exe': 'mysolver', 'installed': {'mysolver': 'ok'}}, ENUM_FORMULAS[3], ENUM_SHAPES[0], i)
    yield _mk({'mode': 'badsameas', 'solver': 'nosuchsolver', 'exe': 'lingeling', 'installed': {'lingeling': 'ok'}}, ENUM_FORMULAS[1], ENUM_SHAPES[0], i)


# -- overlapping calls: who calls what
OVERLAP_PAIRS = [
    # (mode, solver[, exe]) of the first two calls: the same program twice (both get files / both use pipes),
    # two programs of one convention, of two conventions, unsupported programs driven with sameas
    (('named', 'minisat'), ('named', 'minisat')),
    (('named', 'sat4j'), ('named', 'sat4j')),
    (('named', 'minisat'), ('named', 'march')),
    (('named', 'cadical'), ('named', 'cadical')),
    (('sameas', 'minisat', 'mysolver'), ('named', 'minisat')),
    (('named', 'march'), ('named', 'sat4j')),
    (('named', 'lingeling'), ('named', 'minisat')),
    (('sameas', 'sat4j', 'x'), ('sameas', 'march', 'solver2.1')),
    (('named', 'glucose'), ('named', 'glucose')),
    (('named', 'kissat'), ('named', 'sat4j')),
    (('sameas', 'minisat', 'my-hacked-minisat'), ('sameas', 'minisat', 'my-hacked-minisat')),
    (('named', 'picosat'), ('named', 'cryptominisat')),
    (('sameas', 'lingeling', 'patched-lingeling'), ('named', 'march')),
]
OVERLAP_SAT = [ENUM_FORMULAS[3], BIG, ENUM_FORMULAS[2], ENUM_FORMULAS[0], ENUM_FORMULAS[4]]
OVERLAP_UNSAT = [ENUM_FORMULAS[5], ENUM_FORMULAS[1]]


def _overlap_call(who, f, what, flags, pick):
    c = dict(f)
    c.update(what=what, mode=who[0], solver=who[1], flags=list(flags), pick=pick)
    if who[0] == 'sameas':
        c['exe'] = who[2]
    return c


def _overlap_case(i, template, whos, order, shape):
    """The case number i: the callers `whos` (2 or 3), launched in `order`; call 0 gets a satisfiable formula with a
    known model and call 1 an unsatisfiable one (every fourth case: the other way round; every fifth: two
    satisfiable formulas with different models), call 2 another satisfiable one."""
    sat, unsat = OVERLAP_SAT[i % len(OVERLAP_SAT)], OVERLAP_UNSAT[i % len(OVERLAP_UNSAT)]
    other = OVERLAP_SAT[(i + 1 + i // 5 % 3) % len(OVERLAP_SAT)]
    if other is sat:
        other = OVERLAP_SAT[(i + 2) % len(OVERLAP_SAT)]
    forms = [sat, other] if i % 5 == 4 else [unsat, sat] if i % 4 == 3 else [sat, unsat]
    if len(whos) == 3:
        forms.append(other if i % 5 != 4 else unsat)
    calls = []
    for k, who in enumerate(whos):
        what = ('solve', 'is_satisfiable', 'solve')[(i + k) % 3]
        calls.append(_overlap_call(who, forms[k], what, [[], ['-q'], ['--plain', '-v']][(i + k) % 3], i + k))
    return {'overlap': {'template': template, 'calls': calls, 'steps': overlap_steps(template, list(order))},
            'shape': dict(shape)}


def enum_overlap(tier):
    """quick: every interleaving x 6 pairs of callers (minisat twice, a file-in/stdout program twice, two
    conventions that get files, a stdin program twice, an unsupported program with sameas next to the program itself,
    a pair rotating through all supported names), every third case with a third caller; thorough: every interleaving
    x every pair of OVERLAP_PAIRS and every supported name twice / next to its neighbour x every launch order."""
    import itertools
    names = _tree_names()
    i = 0
    if tier == 'quick':
        for t, template in enumerate(OVERLAP_TEMPLATES):
            rot = names[(2 * t) % len(names)], names[(2 * t + 1) % len(names)]
            pairs = OVERLAP_PAIRS[:5] + [(('named', rot[0]), ('named', rot[1]))]
            for j, pair in enumerate(pairs):
                i += 1
                whos = list(pair)
                if i % 3 == 0:
                    whos.append(('named', names[i % len(names)]) if programs_agree(whos, names[i % len(names)]) else pair[0])
                order = list(range(len(whos)))
                order = order[i % len(order):] + order[:i % len(order)]
                yield _overlap_case(i, template, whos, order, ENUM_SHAPES[i % 3])
        return
    pairs = list(OVERLAP_PAIRS)
    pairs += [(('named', a), ('named', a)) for a in names]
    pairs += [(('named', a), ('named', b)) for a, b in zip(names, names[1:] + names[:1])]
    for template in OVERLAP_TEMPLATES:
        for pair in pairs:
            for third in (None, ('named', names[i % len(names)])):
                whos = list(pair)
                if third is not None:
                    whos.append(third if programs_agree(whos, third[1]) else pair[1])
                for order in itertools.permutations(range(len(whos))):
                    i += 1
                    yield _overlap_case(i, template, whos, order, ENUM_SHAPES[i % 3])


def programs_agree(whos, name):
    """may the program `name` be called by name next to these callers (no program with two conventions)"""
    return all(not (w[0] == 'sameas' and w[2] == name) for w in whos)


_OV_TEMPLATE = st.sampled_from(OVERLAP_TEMPLATES)
_OV_NAME = st.sampled_from(NAMES)
_OV_EXE = st.sampled_from(EXES)
_OV_INT = st.sampled_from(range(1000))
_OV_WHAT = st.sampled_from(['solve', 'is_satisfiable'])
_OV_FLAGS = st.lists(st.sampled_from(FLAGS), max_size=2, unique=True)


@st.composite
def strat_overlap(draw):
    """2 or 3 callers (each a supported name or an unsupported program with sameas; the second one is the program of
    the first in half of the cases), generated formulas, any interleaving and launch order."""
    k = 2 + (draw(_OV_INT) % 3 == 0)
    whos = []
    exes = {}
    for j in range(k):
        a = draw(_OV_INT)
        if j and a % 2 == 0:
            whos.append(whos[a // 2 % j])
            continue
        name = draw(_OV_NAME)
        if a % 5 == 1:
            exe = draw(_OV_EXE)
            if exes.setdefault(exe, fs.behaviour_of(name)) == fs.behaviour_of(name):
                whos.append(('sameas', name, exe))
                continue
        whos.append(('named', name))
    a = draw(_OV_INT)
    order = list(range(k))
    for _ in range(a % 6):
        order = order[1:] + order[:1] if _ % 2 else [order[1], order[0]] + order[2:]
    pool = OVERLAP_SAT + OVERLAP_UNSAT
    calls = []
    for j, who in enumerate(whos):
        b = draw(_OV_INT)
        f = draw(strat_formula()) if b % 3 == 0 else pool[(b // 3 + j) % len(pool)]
        calls.append(_overlap_call(who, f, draw(_OV_WHAT), draw(_OV_FLAGS), b))
    sh = draw(strat_shape())
    if sh['status'] != 'answer':
        sh = dict(ENUM_SHAPES[draw(_OV_INT) % 3])
    template = draw(_OV_TEMPLATE)
    return {'overlap': {'template': template, 'calls': calls, 'steps': overlap_steps(template, order)}, 'shape': sh}


_STRAT_TMP_ANY = strat_any()
_STRAT_OVERLAP = strat_overlap()
_TENTH = st.sampled_from(range(10))


@st.composite
def strat_tmp(draw):
    """the three plain generators; one case in ten is a case of overlapping calls"""
    if draw(_TENTH) == 0:
        return draw(_STRAT_OVERLAP)
    return draw(_STRAT_TMP_ANY)


def enum_tmp_all(tier):
    for c in enum_tmp(tier):
        yield c
    for c in enum_overlap(tier):
        yield c


# ---------------------------------------------------------------------------
# history: programs appear in / disappear from a directory of PATH while the process runs

EXE = 'mysolver'          # the one unsupported program of a history; it speaks the convention of case['exe_sameas']


def _reach(dirs):
    """name -> state as seen through PATH: a working program in any directory is found
    (the search goes on after a file that cannot be executed), otherwise the first entry."""
    eff = {}
    for d in dirs:
        for name, state in d.items():
            if eff.get(name) != 'ok' and (state == 'ok' or name not in eff):
                eff[name] = state
    return eff


def _call_text(step, cmd, sameas):
    if step['op'] == 'probe':
        return "some_solver_installed({})".format('' if step.get('arg') is None else repr(step['arg']))
    args = []
    if cmd is not None:
        args.append('cmd={!r}'.format(cmd))
    if sameas is not None:
        args.append('sameas={!r}'.format(sameas))
    return "{}({})".format(step['what'], ', '.join(args))


def canonical_arg(arg):
    return arg if arg is None or isinstance(arg, str) else tuple(arg)


def run_history(case):
    from cnfgen.utils.solver import supported_satsolvers, some_solver_installed
    F = build_formula(case)
    n = F.number_of_variables()
    if n > MAXVARS:
        raise ValueError("case too large for the harness: {} variables".format(n))
    clauses = [list(c) for c in F]
    table = tt.cnf_tt(n, clauses)
    verdict = table != 0
    model = kth_model(n, table, case.get('pick', 0)) if verdict else None
    shape = case['shape']
    answered = shape['status'] == 'answer'
    supported = list(supported_satsolvers())
    exe_sameas = case.get('exe_sameas') or 'lingeling'
    steps = case['steps']
    if not 1 <= len(steps) <= 8:
        raise ValueError("history of {} steps".format(len(steps)))

    def behaviour(name):
        return fs.behaviour_of(exe_sameas if name == EXE else name)

    dirs = [{}, {}]
    trace = []
    labels = set(['steps={}'.format(len(steps))])
    seen = {}            # call key -> outcomes so far
    last_auto = None
    last_change = None
    ncalls = 0
    with fs.Sandbox(extra_bins=1) as sb:
        path0 = os.environ['PATH']
        for name, state, where in case.get('initial') or []:
            sb.install(name, behaviour(name), state, verdict, model, shape, n, where=where)
            dirs[where][name] = state
        if case.get('initial'):
            trace.append("at start: {}".format(_reach(dirs)))
        for step in steps:
            op = step['op']
            if op == 'install':
                sb.install(step['name'], behaviour(step['name']), step['state'], verdict, model, shape, n,
                           where=step.get('dir', 0))
                dirs[step.get('dir', 0)][step['name']] = step['state']
                trace.append("{} '{}' put in PATH directory {}".format(
                    {'ok': 'program', 'noexec': 'non-executable file', 'badformat': 'non-program'}[step['state']],
                    step['name'], step.get('dir', 0) + 1))
                last_change = ('install', step['name'])
                labels.add('install-' + step['state'])
                if step.get('dir', 0):
                    labels.add('second-path-directory')
                continue
            if op == 'remove':
                if sb.remove(step['name'], where=step.get('dir', 0)):
                    del dirs[step.get('dir', 0)][step['name']]
                    trace.append("'{}' removed from PATH directory {}".format(step['name'], step.get('dir', 0) + 1))
                    last_change = ('remove', step['name'])
                    labels.add('remove')
                    if _reach(dirs).get(step['name']) == 'ok':
                        labels.add('removed-one-of-two-copies')
                continue
            # -- a call: what is reachable NOW decides
            installed = _reach(dirs)
            ncalls += 1
            if op == 'probe':
                arg = step.get('arg')
                names = supported if arg is None else ([arg] if isinstance(arg, str) else list(arg))
                want = any(installed.get(s) == 'ok' for s in names)
                text = _call_text(step, None, None)
                if arg is None:
                    o = call_bridge(sb, 'some_solver_installed', lambda: some_solver_installed())
                else:
                    o = call_bridge(sb, 'some_solver_installed', lambda: some_solver_installed(arg))
                ctx = "history so far: {}; now reachable through PATH: {}; PATH unchanged".format(
                    '; '.join(trace) or '(nothing)', installed)
                if o.exc is not None:
                    raise Violation("{} raised {}({}); {}".format(text, type(o.exc).__name__, str(o.exc).strip(), ctx))
                if bool(o.value) is not want:
                    raise Violation("{} returned {!r} although {} of {} can be run at this moment; {}".format(
                        text, o.value, 'one' if want else 'none', names, ctx))
                key = ('probe', canonical_arg(arg))
                outcome = want
                trace.append("{} -> {}".format(text, o.value))
                labels.add('probe-' + ('true' if want else 'false'))
                labels.add('probe-arg-' + ('none' if arg is None else 'str' if isinstance(arg, str) else 'list'))
            elif op == 'call':
                flags = list(step.get('flags') or [])
                if step['mode'] == 'sameas':
                    step = dict(step, exe=EXE, solver=exe_sameas)
                target, cmd, sameas = resolve_call(step, flags)
                if cmd is None:
                    flags = []
                expect, expect_alt, chosen = expected_outcome(step['mode'], target, sameas, installed, supported, answered)
                R = {'n': n, 'clauses': clauses, 'verdict': verdict, 'model': model, 'mode': step['mode'],
                     'cmd': cmd, 'sameas': sameas, 'expect': expect, 'expect_alt': expect_alt, 'chosen': chosen,
                     'flags': flags, 'supported': supported, 'installed': installed, 'target': target, 'shape': shape}
                text = _call_text(step, cmd, sameas)
                if step['what'] == 'solve':
                    o = call_bridge(sb, 'solve', lambda: F.solve(cmd=cmd, sameas=sameas))
                else:
                    o = call_bridge(sb, 'is_satisfiable', lambda: F.is_satisfiable(cmd=cmd, sameas=sameas))
                ctx = ("call {}; history so far: {}; now reachable through PATH: {}; PATH unchanged; "
                       "formula p cnf {} {} {}; answer={}").format(
                    text, '; '.join(trace) or '(nothing)', installed, n, len(clauses), clauses[:6], shape)
                check_observation(o, R, ctx)
                check_leftovers(o, ctx)
                key = ('call', step['mode'], target)
                outcome = chosen if expect == 'verdict' else None
                trace.append("{} -> {}".format(text, 'raised ' + type(o.exc).__name__ if o.exc is not None else repr(o.value)))
                labels.add(step['what'])
                labels.add(step['mode'])
                if expect == 'verdict':
                    labels.add('answered-by:' + (('sameas:' + sameas) if step['mode'] == 'sameas' else chosen))
                    labels.add(fs.CONVENTION_LABEL[behaviour(chosen)])
                    labels.add('sat' if verdict else 'unsat')
                if step['mode'] == 'auto':
                    if chosen is not None and last_auto is not None and chosen != last_auto:
                        labels.add('auto-choice-changes')
                        if last_change == ('remove', last_auto):
                            labels.add('auto-falls-back-after-removal')
                        if last_change == ('install', chosen):
                            labels.add('auto-prefers-newly-installed')
                    if chosen is not None:
                        last_auto = chosen
            else:
                raise ValueError(op)
            prev = seen.setdefault(key, [])
            if prev and answered:
                was, now = prev[-1], outcome
                if not was and now:
                    labels.add('found-after-not-found')
                    labels.add('found-after-not-found:' + key[0])
                elif was and not now:
                    labels.add('not-found-after-found')
                    labels.add('not-found-after-found:' + key[0])
                elif was == now:
                    labels.add('same-answer-again')
            prev.append(outcome)
            if os.environ.get('PATH') != path0:
                raise RuntimeError("harness: PATH changed during the history")
        root = sb.root
    if os.path.exists(root):
        raise RuntimeError("harness: scratch directory {} not removed".format(root))
    if [list(c) for c in F] != clauses or F.number_of_variables() != n:
        raise Violation("the formula was modified by solve()/is_satisfiable(); history: {}".format('; '.join(trace)))
    flips = [l for l in labels if l in ('found-after-not-found', 'not-found-after-found', 'auto-choice-changes')]
    return Outcome(labels=sorted(labels), nontrivial=bool(flips), rejected=ncalls == 0)


_HIST_STATES = ['ok'] * 6 + ['noexec', 'badformat']


# _CHANCE[k]: true k times out of k+1 (sampled_from: Hypothesis draws integers far from uniformly)
_CHANCE = dict((k, st.sampled_from([True] * k + [False])) for k in (1, 2, 3, 4, 5))


@st.composite
def strat_history(draw):
    """2..5 steps about one to three programs.  The model of the directories is followed
    while drawing: changes and questions alternate most of the time, removals hit
    something that is there, and the questions come from a short per-case list so that
    the same question is asked again after the directories changed."""
    case = draw(strat_formula())
    sh = draw(strat_shape())
    if sh['status'] != 'answer' and draw(_CHANCE[3]):
        sh = dict(ENUM_SHAPES[draw(st.integers(0, 2))])
    case['shape'] = sh
    case['pick'] = draw(st.sampled_from([0, 1, 2]) | st.integers(0, 5000))
    case['exe_sameas'] = draw(st.sampled_from(NAMES))
    theme = draw(st.sampled_from(['one', 'default', 'mixed', 'one', 'default']))
    if theme == 'one':
        pool = [draw(st.sampled_from(NAMES))]
    else:
        pool = draw(st.lists(st.sampled_from(NAMES), min_size=2, max_size=3, unique=True))
    if not draw(_CHANCE[5]):
        pool[draw(st.integers(0, len(pool) - 1))] = EXE
    dirs = [{}, {}]
    initial = []
    for nm in pool:
        if not draw(_CHANCE[1 if theme == 'default' else 2]):
            where = draw(st.sampled_from([0, 0, 0, 1]))
            state = draw(st.sampled_from(_HIST_STATES))
            initial.append([nm, state, where])
            dirs[where][nm] = state
    if not draw(_CHANCE[5]):
        nm = draw(st.sampled_from(NAMES))          # a bystander that never moves
        if nm not in pool:
            initial.append([nm, 'ok', draw(st.sampled_from([0, 1]))])
            dirs[initial[-1][2]][nm] = 'ok'
    case['initial'] = initial

    def a_question():
        nm = draw(st.sampled_from(pool))
        kind = draw(st.sampled_from(['named', 'named', 'auto', 'auto', 'probe', 'probe']))
        if kind == 'probe':
            how = draw(st.sampled_from(['none', 'str', 'list', 'list']))
            if how == 'none':
                return {'op': 'probe', 'arg': None}
            if how == 'str':
                return {'op': 'probe', 'arg': nm}
            others = draw(st.lists(st.sampled_from(pool + ['nosuchsolver'] + NAMES[:2]), max_size=2))
            k = draw(st.integers(0, len(others)))
            return {'op': 'probe', 'arg': others[:k] + [nm] + others[k:]}
        what = draw(st.sampled_from(['solve', 'is_satisfiable']))
        flags = draw(st.lists(st.sampled_from(FLAGS), max_size=1))
        if kind == 'auto':
            return {'op': 'call', 'what': what, 'mode': 'auto'}
        if nm == EXE:
            return {'op': 'call', 'what': what, 'mode': 'sameas', 'flags': flags}
        return {'op': 'call', 'what': what, 'mode': 'named', 'solver': nm, 'flags': flags}

    questions = [a_question() for _ in range(draw(st.sampled_from([1, 2, 1, 3])))]
    if theme == 'default':
        questions = [q for q in questions if q.get('mode') == 'auto' or q.get('arg', 0) is None][:1]
        questions.append({'op': 'call', 'what': draw(st.sampled_from(['solve', 'is_satisfiable'])), 'mode': 'auto'})
    L = draw(st.sampled_from([4, 5, 3, 5, 4, 3, 5, 2]))
    steps = []
    last_was_call = draw(st.booleans())
    for i in range(L):
        if i == L - 1:
            ask = True
        else:
            ask = not draw(_CHANCE[4]) if last_was_call else draw(_CHANCE[4])
        if ask:
            steps.append(dict(questions[draw(st.integers(0, len(questions) - 1))]))
            last_was_call = True
            continue
        last_was_call = False
        nm = draw(st.sampled_from(pool))
        holders = [w for w in (0, 1) if nm in dirs[w]]
        if holders and draw(_CHANCE[3]):
            where = draw(st.sampled_from(holders))
            steps.append({'op': 'remove', 'name': nm, 'dir': where})
            del dirs[where][nm]
        else:
            where = draw(st.sampled_from([0, 0, 0, 1]))
            state = draw(st.sampled_from(_HIST_STATES))
            steps.append({'op': 'install', 'name': nm, 'state': state, 'dir': where})
            dirs[where][nm] = state
    case['steps'] = steps
    return case


def enum_history(tier):
    names = _tree_names()
    forms = [ENUM_FORMULAS[3], ENUM_FORMULAS[5]] + ([ENUM_FORMULAS[0], BIG] if tier != 'quick' else [])
    count = [0]

    def mk(steps, initial=(), exe_sameas='minisat'):
        count[0] += 1
        i = count[0]
        c = dict(forms[i % len(forms)])
        c['shape'] = dict(ENUM_SHAPES[i % 3])
        c['pick'] = i
        c['exe_sameas'] = exe_sameas
        c['initial'] = [list(x) for x in initial]
        c['steps'] = steps
        return c

    def calls_for(x):
        """the ways to ask about solver x (alone in the directories)"""
        return [{'op': 'call', 'what': 'solve', 'mode': 'named', 'solver': x, 'flags': []},
                {'op': 'call', 'what': 'is_satisfiable', 'mode': 'named', 'solver': x, 'flags': ['-q']},
                {'op': 'call', 'what': 'solve', 'mode': 'auto'},
                {'op': 'call', 'what': 'is_satisfiable', 'mode': 'auto'},
                {'op': 'probe', 'arg': x},
                {'op': 'probe', 'arg': None},
                {'op': 'probe', 'arg': ['nosuchsolver', x]}]

    for x in names:
        put = {'op': 'install', 'name': x, 'state': 'ok', 'dir': 0}
        rem = {'op': 'remove', 'name': x, 'dir': 0}
        ks = calls_for(x)
        for k in ks:
            yield mk([k, put, k])                              # asked while absent, installed, asked again
            yield mk([put, k, rem, k])                         # present, asked, removed, asked again
        # the question is asked in one way first, in another way after the change
        for a, b in ((0, 2), (2, 0), (4, 0), (5, 3), (1, 6), (3, 4)):
            yield mk([ks[a], put, ks[b]])
            yield mk([put, ks[a], rem, ks[b], ks[a]])
        # a file that cannot be run is replaced by a working program, and back
        yield mk([ks[0], {'op': 'install', 'name': x, 'state': 'noexec', 'dir': 0}, ks[0], put, ks[0]])
        yield mk([put, ks[1], {'op': 'install', 'name': x, 'state': 'badformat', 'dir': 0}, ks[1], ks[2]])
        # a second copy further down PATH
        yield mk([ks[0], {'op': 'install', 'name': x, 'state': 'ok', 'dir': 1}, ks[0], put, ks[3]])
        yield mk([ks[0], rem, ks[0], {'op': 'remove', 'name': x, 'dir': 1}, ks[0]], initial=[(x, 'ok', 0), (x, 'ok', 1)])
        # an unsupported program driven with sameas=x
        sa = {'op': 'call', 'what': 'solve', 'mode': 'sameas', 'flags': []}
        sb_ = {'op': 'call', 'what': 'is_satisfiable', 'mode': 'sameas', 'flags': ['-v']}
        yield mk([sa, {'op': 'install', 'name': EXE, 'state': 'ok', 'dir': 0}, sa, {'op': 'remove', 'name': EXE, 'dir': 0}, sb_],
                 exe_sameas=x)
        yield mk([{'op': 'probe', 'arg': EXE}, {'op': 'install', 'name': EXE, 'state': 'ok', 'dir': 0}, sb_], exe_sameas=x)
        yield mk([sa, sb_], exe_sameas=x, initial=[(EXE, 'ok', 0)])
    # default choice: b is installed, the preferred a appears, then goes away again
    auto_s = {'op': 'call', 'what': 'solve', 'mode': 'auto'}
    auto_i = {'op': 'call', 'what': 'is_satisfiable', 'mode': 'auto'}
    pairs = [(names[j], names[k]) for j in range(len(names)) for k in range(j + 1, len(names))]
    if tier == 'quick':
        pairs = [p for p in pairs if names.index(p[1]) - names.index(p[0]) in (1, 4)] + [(names[0], names[-1])]
    for a, b in pairs:
        puta = {'op': 'install', 'name': a, 'state': 'ok', 'dir': 0}
        rema = {'op': 'remove', 'name': a, 'dir': 0}
        remb = {'op': 'remove', 'name': b, 'dir': 0}
        yield mk([auto_s, puta, auto_s, rema, auto_i], initial=[(b, 'ok', 0)])
        yield mk([auto_i, rema, auto_s], initial=[(a, 'ok', 0), (b, 'ok', 0)])
        yield mk([auto_s, remb, auto_s, rema, auto_s], initial=[(a, 'ok', 0), (b, 'ok', 0)])
        yield mk([{'op': 'probe', 'arg': [a, b]}, rema, {'op': 'probe', 'arg': [a, b]},
                  remb, {'op': 'probe', 'arg': [a, b]}], initial=[(a, 'ok', 0), (b, 'ok', 0)])


# ---------------------------------------------------------------------------
# environment: unusual names of the temporary directory and of the PATH entry

ODD_DIRS = [
    ['my tmp'], ['a  b', 'tmp'], [' lead'], ['trail '], ["it's"], ['say "hi"'], ['tümp-目录-é'],
    ['-dash'], ['-x', 'scratch files'], ['$HOME'], ['a;b&c'], ['(1) [new] {x}'], ['100%~#'], ['st*r?'],
    ['back\\slash'], ['Program Files (x86)', "user's été"],
]
ODD_BINS = [d for d in ODD_DIRS] + [['opt', 'sat solvers', 'bin']]
PLAIN = ['plain']
VIAS = list(fs.Sandbox.TMP_VIA)
SEPS = [' ', ' ', ' ', '  ', 'pad']
ENV_FLAGS = FLAGS + ['-verb=0', '-cpu-lim=10']
ODD_KINDS = ['blank', 'quote', 'unicode', 'leading-dash', 'shell-meta']


def env_labels(env, R):
    L = []
    for what, comps in (('tmp', env.get('tmp') or PLAIN), ('bin', env.get('bin') or PLAIN)):
        text = '/'.join(comps)
        kinds = []
        if ' ' in text:
            kinds.append('blank')
        if "'" in text or '"' in text:
            kinds.append('quote')
        if any(ord(ch) > 127 for ch in text):
            kinds.append('unicode')
        if any(c.startswith('-') for c in comps):
            kinds.append('leading-dash')
        if any(ch in text for ch in '$;&()[]{}*?\\%~#'):
            kinds.append('shell-meta')
        if not kinds:
            kinds.append('plain')
        for k in kinds:
            L.append('{}:{}'.format(what, k))
            if R['expect'] == 'verdict' and k != 'plain':
                beh = R['behaviours'][R['chosen']]
                if beh != 'poly':
                    L.append('{}:{}/{}'.format(what, k, fs.CONVENTION_LABEL[beh]))
    L.append('via:' + env.get('via', 'both'))
    return L


def _process_state():
    import tempfile
    return (tempfile.tempdir, dict(os.environ), os.getcwd())


def run_env(case):
    env = case['env']
    saved = _process_state()
    try:
        R = execute(case)
    finally:
        now = _process_state()
        if now != saved:
            raise RuntimeError("harness: process state not restored after the case: tempfile.tempdir {!r} -> {!r}, "
                               "environment changed: {}".format(saved[0], now[0], now[1] != saved[1]))
    check_verdict(case, R)
    check_tmp(case, R)
    L = labels_of(case, R) + env_labels(env, R)
    if case.get('sep', ' ') != ' ' and R['cmd'] is not None:
        L.append('cmd-extra-blanks')
    if R['cmd'] is not None and len(R['cmd'].split()) > 1 and R['expect'] == 'verdict':
        L.append('cmd-with-arguments')
        if R['mode'] == 'sameas':
            L.append('cmd-with-arguments-sameas')
    for o in R['obs']:
        for c in o.calls:
            L.append('files-passed={}'.format(len([a for a in (c['args'] or []) if not a.startswith('-')])))
    L = sorted(set(L))
    odd = any(not l.endswith(':plain') for l in L if l.startswith(('tmp:', 'bin:')))
    return Outcome(labels=L, nontrivial=bool(R['expect'] == 'verdict' and odd), rejected=R['expect'] != 'verdict')


@st.composite
def strat_env(draw):
    case = draw(strat_any())
    if case['shape']['status'] != 'answer' and draw(st.integers(0, 1)):
        case['shape'] = dict(ENUM_SHAPES[draw(st.integers(0, 2))])
    env = {'tmp': draw(st.sampled_from(ODD_DIRS + [PLAIN])), 'bin': draw(st.sampled_from(ODD_BINS + [PLAIN, PLAIN])),
           'via': draw(st.sampled_from(VIAS))}
    if draw(st.integers(0, 5)) == 0:
        env['tmp'] = env['tmp'] + draw(st.sampled_from(ODD_DIRS))
    case['env'] = env
    case['sep'] = draw(st.sampled_from(SEPS))
    if case['mode'] != 'auto':
        case['flags'] = draw(st.lists(st.sampled_from(ENV_FLAGS), max_size=3, unique=True))
    return case


def enum_env(tier):
    names = _tree_names()
    forms = [ENUM_FORMULAS[3], ENUM_FORMULAS[5]] + ([ENUM_FORMULAS[0], BIG] if tier != 'quick' else [])
    i = 0
    for name in names:
        for j, odd in enumerate(ODD_DIRS):
            for where in ('tmp', 'bin', 'both'):
                if tier == 'quick' and where == 'both' and j % 4:
                    continue
                i += 1
                env = {'tmp': odd if where != 'bin' else PLAIN,
                       'bin': PLAIN if where == 'tmp' else ODD_BINS[(j + 5) % len(ODD_BINS)] if where == 'both' else odd,
                       'via': VIAS[i % len(VIAS)]}
                f = forms[i % len(forms)]
                sh = ENUM_SHAPES[i % 3]
                kind = (i // 2) % 3
                if kind == 0:
                    base = {'mode': 'named', 'solver': name, 'installed': {name: 'ok'}}
                elif kind == 1:
                    exe = EXES[i % len(EXES)]
                    base = {'mode': 'sameas', 'solver': name, 'exe': exe, 'installed': {exe: 'ok'}}
                else:
                    base = {'mode': 'auto', 'installed': {name: 'ok'}}
                c = _mk(base, f, sh, i)
                c['flags'] = [[], ['-verb=0'], ['--plain', '-v'], ['-q']][i % 4] if kind != 2 else []
                c['sep'] = SEPS[i % len(SEPS)]
                c['env'] = env
                yield c
        # nothing to run / no answer in an unusual directory: the documented error, nothing left behind
        for j, odd in enumerate(ODD_DIRS[:6]):
            i += 1
            env = {'tmp': odd, 'bin': ODD_BINS[(j + 3) % len(ODD_BINS)], 'via': VIAS[i % len(VIAS)]}
            if j % 2:
                c = _mk({'mode': 'named', 'solver': name, 'installed': {name: ('noexec', 'missing', 'badformat')[j % 3]}},
                        ENUM_FORMULAS[3], ENUM_SHAPES[0], i)
            else:
                c = _mk({'mode': 'named', 'solver': name, 'installed': {name: 'ok'}},
                        ENUM_FORMULAS[3], ENUM_SHAPES[3 + j % 3], i)
            c['env'] = env
            yield c


# ---------------------------------------------------------------------------
# channels: what the program does besides giving its answer, and how the answer is laid out in bytes

_KEY_KINDS = ['version', 'statistics', 's-line', 'v-line', 'single-word', 'empty', 'long', 'non-ascii', 'c-line']
_LONG_FILL = len(fs.FILLERS)                  # index (in 'fill') of the 30 kB comment line
PLANTED_SIZES = [(40, 12), (300, 40), (1500, 60)]


def channel_labels(case, R):
    sh = R['shape']
    chan = sh.get('chan') or {}
    L = []
    if case.get('planted'):
        L.append('planted-large')
    if R['expect'] != 'verdict':
        if any(chan.get(k) for k in ('err_pre', 'err_mid', 'err_post')):
            L.append('no-answer-with-stderr-text')
        return L
    beh = R['behaviours'][R['chosen']]
    conv = fs.CONVENTION_LABEL[beh]
    _, _, S = fs.render_plan(beh, R['verdict'], R['model'], sh, R['n'])
    talk = False
    for pos in ('pre', 'mid', 'post'):
        kinds = S['err_kinds'][pos]
        if kinds:
            talk = True
            L.append('err-' + pos)
        for k in kinds:
            L.append('err:' + k)
            L.append('{}/err:{}'.format(conv, k))
    L.append('stderr-talks' if talk else 'stderr-silent')
    if talk:
        L.append(conv + '/stderr-talks')
        if chan.get('err_eol') == 'crlf':
            L.append('err-crlf')
        if chan.get('err_open'):
            L.append('err-open-end')
    for k in S['noise_kinds']:
        L.append('fileout-stdout-noise:' + k)
    if chan.get('eol') == 'crlf':
        L.append('crlf')
        L.append(conv + '/crlf')
    if S['pieces'] >= 2:
        L.append('pieces=2' if S['pieces'] == 2 else 'pieces>=3')
        L.append(conv + '/several-writes')
        if S['inside_line']:
            L.append('cut-inside-line')
        if S['delays']:
            L.append('delays')
    else:
        L.append('pieces=1')
    early = int(chan.get('early', 0))
    if early >= 1 and S['err_kinds']['pre']:
        L.append('stderr-before-reading')
    if early >= 2 and S['stdout_bytes']:
        L.append('stdout-before-reading')
    if S['help']:
        L.append('help-text')
    if S['result'] is not None and chan.get('res_first') and beh == 'minisat':
        L.append('result-file-first')
    if sh.get('exit', 'std') != 'std':
        L.append('exit-0')
    if R['verdict']:
        if beh != 'minisat':
            lines = [l for l in S['stdout'].split(b'\n') if l[:1] == b'v']
            L.append('vsplit-' + chan.get('vsplit', 'cuts'))
            if R['n'] >= 2:
                L.append('vsep:' + {' ': 'blank', '  ': 'blanks', '\t': 'tab', ' \t ': 'mixed'}[fs._pick(fs.VSEPS, chan.get('vsep', 0))])
            L.append('vlead:' + {' ': 'blank', '\t': 'tab', '   ': 'blanks'}[fs._pick(fs.VLEADS, chan.get('vlead', 0))])
            if fs._pick(fs.VTRAILS, chan.get('vtrail', 0)):
                L.append('v-trailing-blanks')
            if any(len(l) > 1000 for l in lines):
                L.append('long-v-line')
            if len(lines) > 100:
                L.append('many-v-lines')
            if chan.get('no_final_eol'):
                L.append('no-final-eol')
        else:
            if R['n'] >= 2 and fs._pick(fs.VSEPS, chan.get('vsep', 0)) != ' ':
                L.append('fileout-odd-separators')
            if S['result'] is not None and len(S['result']) > 1000:
                L.append('fileout-long-line')
    if beh != 'minisat' and any(f % (len(fs.FILLERS) + len(fs.MORE_FILLERS)) == _LONG_FILL for f in sh.get('fill') or []):
        L.append('stdout-long-comment')
    return L


def run_channels(case):
    if not (case.get('shape') or {}).get('chan'):
        raise ValueError("a case of 'channels' needs shape['chan']")
    R = execute(case)
    check_verdict(case, R)
    check_tmp(case, R)
    L = sorted(set(labels_of(case, R) + channel_labels(case, R)))
    active = any(l in L for l in ('stderr-talks', 'crlf', 'pieces=2', 'pieces>=3')) or \
        any(l.startswith('fileout-stdout-noise:') for l in L)
    return Outcome(labels=L, nontrivial=bool(R['expect'] == 'verdict' and active), rejected=R['expect'] != 'verdict')


# ---------------------------------------------------------------------------
# consumption: how the program takes a formula whose text does not fit into a pipe buffer

BIG_KINDS = ('planted', 'empty-first', 'units-first', 'empty-last', 'units-last')
PIPE = 65536                     # what a Linux pipe absorbs while nobody reads


def expand_big(p):
    """(nvars, clauses, verdict, hidden assignment, lower bound on the bytes of its DIMACS text) of a formula
    of about p['kib'] KiB whose answer is known by construction.  p = {'kind', 'n', 'kib', 'rseed', 'width'}:
    a hidden assignment drawn from random.Random(rseed); clauses of 1..width distinct variables, each containing a
    literal of it, until the text reaches the size; the unsatisfiable kinds add the empty clause, or the two unit
    clauses of a variable, as the first or as the last clauses."""
    n, kib, w, kind = int(p['n']), int(p['kib']), int(p.get('width', 3)), p['kind']
    if not (4 <= n <= 60000 and 1 <= kib <= 4096 and 1 <= w <= 6) or kind not in BIG_KINDS:
        raise ValueError("big formula out of range: {}".format(p))
    rng = random.Random(p['rseed'])
    hidden = [v if rng.getrandbits(1) else -v for v in range(1, n + 1)]
    width = [len(str(v)) + 1 for v in range(n + 1)]          # bytes of a positive literal and its blank
    target = kib * 1024
    size = len('p cnf {} {}\n'.format(n, 0))
    clauses = []
    bits = rng.getrandbits
    nbits = 24 * w + 8
    while size < target:
        x = bits(nbits)
        k = 1 + (x & 7) % w
        x >>= 8
        v = x % n + 1
        c = [hidden[v - 1]]
        vs = [v]
        size += width[v] + (c[0] < 0) + 2
        for j in range(1, k):
            x >>= 24
            v = x % n + 1
            if v in vs:
                continue
            vs.append(v)
            if x & 0x800000:
                c.append(-v)
                size += width[v] + 1
            else:
                c.append(v)
                size += width[v]
        clauses.append(c)
    if kind != 'planted':
        x = rng.randint(1, n)
        extra = [[]] if kind.startswith('empty') else [[x], [-x]]
        clauses = extra + clauses if kind.endswith('first') else clauses + extra
    return n, clauses, kind == 'planted', hidden, size


def consume_ctx(case, R, plan, est, outlen):
    return ("formula p cnf {} {} ({}, at least {} bytes of DIMACS) {} ...; cmd={!r} sameas={!r} installed={}; the program: {}; "
            "it answers {} with {} bytes on standard output{}").format(
        R['n'], len(R['clauses']), case['big']['kind'], est, R['clauses'][:3], R['cmd'], R['sameas'], R['installed'],
        describe_consumer(plan), 'SATISFIABLE' if R['verdict'] else 'UNSATISFIABLE', outlen,
        '' if R['verdict'] is False else ' (model of {} literals)'.format(R['n']))


def describe_consumer(plan):
    how = {'all': 'reads its input to the end', 'pline': 'reads up to the end of the problem line',
           'clause1': 'reads up to the end of the first clause', 'bytes': 'reads {} bytes of its input'.format(plan['nbytes']),
           'none': 'reads nothing'}[plan['read']]
    how += ' in pieces of {} bytes'.format(plan['chunk'])
    if plan['nap_every']:
        how += ' pausing {} ms after every {} reads'.format(plan['nap_ms'], plan['nap_every'])
    if plan['close_early']:
        how += ', closes the input, works for {} ms'.format(plan['linger_ms'])
    how += {'end': ', then writes its answer', 'start': '; it writes its whole standard output before reading',
            'mid': '; it writes its whole standard output after the first {} bytes of input'.format(plan['nbytes'])}[plan['out_at']]
    return how + ' and exits'


def check_consumed(o, R, plan, ctx):
    """What the program received: the whole formula (and the end of the input) when it reads to the end, the
    beginning of the formula's text when it stops early; it never had to wait beyond the watchdog."""
    from collections import Counter
    n, clauses = R['n'], R['clauses']
    for c in o.calls:
        if c.get('stuck'):
            raise Violation("{}(): the bridge and solver '{}' blocked each other (the program gave up after {} s: {}); {}".format(
                o.what, c['name'], fs.WATCHDOG_S, ' / '.join(c['stuck']), ctx))
        if c['input'] is None:
            raise Violation("{}(): solver '{}' was run as {} and could not read a formula; {}".format(o.what, c['name'], c['args'], ctx))
        if c['input'] == R.get('_input_verified'):
            continue                              # byte for byte what the previous call delivered (and that was right)
        try:
            text = c['input'].decode('ascii')
            if plan['read'] == 'all':
                gn, gcl = fs.fast_dimacs(text)
                gm = len(gcl)
            else:
                gn, gm, gcl = fs.fast_dimacs(text, partial=True)
        except (UnicodeDecodeError, fs.DimacsError) as e:
            raise Violation("{}(): solver '{}' received text that is not {}DIMACS CNF ({}): {!r}...; {}".format(
                o.what, c['name'], '' if plan['read'] == 'all' else 'the beginning of a ', e, c['input'][:200], ctx))
        if plan['read'] == 'all':
            if gn != n or (gcl != clauses and clause_key(gcl) != clause_key(clauses)):
                raise Violation("{}(): solver '{}' read its input to the end and received p cnf {} {} {}... which is not the formula held; {}".format(
                    o.what, c['name'], gn, len(gcl), gcl[:4], ctx))
            if c.get('eof') != ['1']:
                raise RuntimeError("harness: a program that reads to the end recorded no end of input: {}".format(c.get('eof')))
        elif gn is not None:
            have = Counter(tuple(sorted(x)) for x in clauses)
            have.subtract(Counter(tuple(sorted(x)) for x in gcl))
            if gn != n or gm != len(clauses) or any(v < 0 for v in have.values()):
                raise Violation("{}(): solver '{}' took the first {} bytes of its input: p cnf {} {} with clauses {}... which is not the beginning of the formula held; {}".format(
                    o.what, c['name'], len(c['input']), gn, gm, gcl[:4], ctx))
        if plan['read'] != 'all' or c.get('eof') == ['1']:
            R['_input_verified'] = c['input']


def run_consume(case):
    from cnfgen.utils.solver import supported_satsolvers
    n, clauses, verdict, hidden, est = expand_big(case['big'])
    F = build_formula({'nvars': n, 'clauses': clauses})
    if F.number_of_variables() != n or len(F) != len(clauses):
        raise RuntimeError("harness: big formula not built as described")
    if verdict:
        if not satisfies(clauses, hidden):
            raise RuntimeError("harness: the planted assignment does not satisfy the planted formula")
    else:
        units = set(c[0] for c in clauses if len(c) == 1)
        if [] not in clauses and not any(-u in units for u in units):
            raise RuntimeError("harness: unsatisfiable formula without empty clause or complementary units")
    model = hidden if verdict else None
    shape = case['shape']
    if shape['status'] != 'answer':
        raise ValueError("a 'consume' case is about programs that answer")
    plan = fs.consume_plan(case['consume'])
    mode = case['mode']
    supported = list(supported_satsolvers())
    installed = dict(case.get('installed') or {})
    flags = list(case.get('flags') or [])
    target, cmd, sameas = resolve_call(case, flags, ' ')
    if cmd is None:
        flags = []
    behaviours = {name: fs.behaviour_of(sameas if (mode == 'sameas' and name == target) else name) for name in installed}
    expect, expect_alt, chosen = expected_outcome(mode, target, sameas, installed, supported, True)
    if expect != 'verdict' or any(s != 'ok' for s in installed.values()):
        raise ValueError("a 'consume' case needs a reachable solver")
    status = (10 if verdict else 20) if shape.get('exit', 'std') == 'std' else 0
    outlen = {}
    with fs.Sandbox(capture_stderr=True) as sb:
        for name in sorted(installed):
            out, res = fs.consumer_output(behaviours[name], verdict, model, shape, n, case.get('chatter_kib', 0))
            outlen[name] = len(out)
            sb.install_consumer(name, behaviours[name], dict(plan, res_first=bool(case.get('res_first'))), out, res, status)
        o1 = call_bridge(sb, 'solve', lambda: F.solve(cmd=cmd, sameas=sameas, verbose=case.get('verbose', 0)))
        if any(c.get('stuck') for c in o1.calls):
            o2 = None                                # one mutual wait is enough
        else:
            o2 = call_bridge(sb, 'is_satisfiable', lambda: F.is_satisfiable(cmd=cmd, sameas=sameas))
        root = sb.root
    if os.path.exists(root):
        raise RuntimeError("harness: scratch directory {} not removed".format(root))
    R = {'n': n, 'clauses': clauses, 'verdict': verdict, 'model': model, 'mode': mode, 'cmd': cmd, 'sameas': sameas,
         'expect': expect, 'expect_alt': expect_alt, 'chosen': chosen, 'flags': flags, 'behaviours': behaviours,
         'supported': supported, 'installed': installed, 'target': target, 'shape': shape}
    ctx = consume_ctx(case, R, plan, est, outlen[chosen])
    unread = False
    for o in (o1, o2):
        if o is None:
            raise RuntimeError("harness: a blocked call went unreported")
        check_consumed(o, R, plan, ctx)
        check_outcome(o, R, ctx)
        check_leftovers(o, ctx)
        unread = unread or any(len(c['input']) < est for c in o.calls)
    if [list(c) for c in F] != clauses or F.number_of_variables() != n:
        raise Violation("the formula was modified by solve()/is_satisfiable(); {}".format(ctx))
    beh = behaviours[chosen]
    conv = fs.CONVENTION_LABEL[beh]
    L = ['consume', mode, 'solver:' + chosen if mode != 'sameas' else 'sameas:' + sameas, conv, 'sat' if verdict else 'unsat',
         'big-' + case['big']['kind'], 'read-' + plan['read'], 'out-at-' + plan['out_at'],
         'consume/{}/read-{}'.format(conv, plan['read']), 'consume/{}/out-at-{}'.format(conv, plan['out_at'])]
    for lim, name in ((70 << 10, '70KiB'), (256 << 10, '256KiB'), (1 << 20, '1MiB'), (3 << 20, '3MiB')):
        if est >= lim:
            L.append('dimacs>=' + name)
    if est > PIPE and plan['read'] != 'all':
        L.append('stops-early-beyond-pipe-buffer')
        L.append(conv + '/stops-early-beyond-pipe-buffer')
    if unread:
        L.append('input-left-unread')
    if plan['read'] == 'all' and (plan['nap_every'] or plan['chunk'] <= 4096):
        L.append('slow-reader')
        L.append(conv + '/slow-reader')
    if plan['close_early']:
        L.append('closes-input-early')
        L.append(conv + '/closes-input-early')
    if outlen[chosen] > PIPE:
        L.append('stdout-beyond-pipe-buffer')
        if plan['out_at'] != 'end':
            L.append('large-output-before-input-is-read')
            L.append(conv + '/large-output-before-input-is-read')
    if verdict and beh != 'minisat' and n >= 1000:
        L.append('many-v-lines')
    if case.get('chatter_kib'):
        L.append('large-chatter')
    if shape.get('exit', 'std') != 'std':
        L.append('exit-0')
    if flags:
        L.append('flags')
    return Outcome(labels=sorted(set(L)), nontrivial=est > PIPE, rejected=False)


CONSUME_STYLES = [
    # (label of the style, consumer plan, wants a model / chatter beyond a pipe buffer)
    ('all', {'read': 'all'}, False),
    ('all-slow', {'read': 'all', 'chunk': 1024, 'nap_every': 16, 'nap_ms': 1}, False),
    ('all-tiny-chunks', {'read': 'all', 'chunk': 512}, False),
    ('pline-exit', {'read': 'pline', 'chunk': 256}, False),
    ('clause1-exit', {'read': 'clause1', 'chunk': 128}, False),
    ('4k-exit', {'read': 'bytes', 'nbytes': 4096}, False),
    ('none-exit', {'read': 'none'}, False),
    ('4k-close-linger', {'read': 'bytes', 'nbytes': 4096, 'close_early': True, 'linger_ms': 5}, False),
    ('pline-close-linger', {'read': 'pline', 'chunk': 4096, 'close_early': True, 'linger_ms': 3}, True),
    ('none-close-linger', {'read': 'none', 'close_early': True, 'linger_ms': 2}, False),
    ('answer-first', {'read': 'all', 'out_at': 'start'}, True),
    ('answer-mid-slow', {'read': 'all', 'out_at': 'mid', 'nbytes': 8192, 'chunk': 2048, 'nap_every': 32, 'nap_ms': 1}, True),
    ('answer-first-read-nothing', {'read': 'none', 'out_at': 'start'}, True),
]
CONSUME_SHAPES = [
    {'status': 'answer', 'fill': [0], 'cuts': [], 'zero': 'same', 's_pos': 'before', 'order': 0, 'exit': 'std',
     'chan': {'vsplit': 'rows', 'per_line': 12}},
    {'status': 'answer', 'fill': [1, 2], 'cuts': [], 'zero': 'own', 's_pos': 'after', 'order': 1, 'exit': 'zero',
     'chan': {'vsplit': 'each'}},
    {'status': 'answer', 'fill': [6, 0], 'cuts': [], 'zero': 'none', 's_pos': 'middle', 'order': 5, 'exit': 'std',
     'chan': {'vsplit': 'rows', 'per_line': 40, 'vsep': 1}},
]


def _consume_case(name, i, style, kib, kind=None, nvars=None):
    label, plan, big_out = CONSUME_STYLES[style]
    how = i % 4
    if how == 3:
        exe = EXES[i % len(EXES)]
        base = {'mode': 'sameas', 'solver': name, 'exe': exe, 'installed': {exe: 'ok'}}
    elif how == 2:
        base = {'mode': 'auto', 'installed': {name: 'ok'}}
    else:
        base = {'mode': 'named', 'solver': name, 'installed': {name: 'ok'}}
    c = dict(base)
    if kind is None:
        # a program that stops early knows the answer from what it saw; one that reads everything may find it anywhere
        early = plan['read'] != 'all'
        kind = (('empty-first', 'units-first', 'planted') if early else ('planted', 'empty-last', 'units-last', 'planted', 'empty-first'))[i % (3 if early else 5)]
    if nvars is None:
        nvars = (12000, 16000)[i % 2] if big_out else (900, 5000, 300)[i % 3]
    c['big'] = {'kind': kind, 'n': nvars, 'kib': kib, 'rseed': i, 'width': (3, 2, 4)[i % 3]}
    c['shape'] = dict(CONSUME_SHAPES[i % len(CONSUME_SHAPES)])
    c['consume'] = dict(plan)
    c['chatter_kib'] = (90 if kind != 'planted' or fs.behaviour_of(name) == 'minisat' else 0) if big_out else 0
    c['res_first'] = i % 2 == 1
    c['flags'] = [] if how == 2 else [[], ['-q'], ['--plain', '-v']][i % 3]
    c['verbose'] = 0
    return c


_FILE_STYLES = [0, 3, 4, 7, 10, 11, 6]     # a program that gets a file: to the end, problem line / first clause only, 4 KiB then closes,
                                         # answer first / after 8 KiB, nothing


def enum_consume(tier):
    """quick: every style with the first stdin/stdout name and with glucose, a rotating third of the styles with
    each further stdin/stdout name, seven styles with the names that get a file; sizes 66..130 KiB; then 1 MiB (five
    cases) and 3 MiB (one case).  thorough: every name x every style x 66 KiB .. 3 MiB."""
    names = _tree_names()
    S = len(CONSUME_STYLES)
    i = 0
    sizes = [70, 100, 66, 130]
    reps = {}
    for name in names:
        reps.setdefault(fs.behaviour_of(name), name)
    if tier == 'quick':
        k = 0
        for a, name in enumerate(names):
            beh = fs.behaviour_of(name)
            if name in (reps.get('stdio'), reps.get('poly')):
                styles = list(range(S))
            elif beh in ('stdio', 'poly'):
                k += 1
                styles = [(5 * k + d) % S for d in range(5)]
            else:
                styles = _FILE_STYLES
            for b in styles:
                i += 1
                yield _consume_case(name, i, b, sizes[(a + b) % len(sizes)])
        for beh, b in (('stdio', 0), ('stdio', 3), ('stdio', 7), ('stdio', 10), ('minisat', 10)):
            if beh in reps:
                i += 1
                yield _consume_case(reps[beh], i, b, 1024)
        if 'stdio' in reps:
            i += 1
            yield _consume_case(reps['stdio'], i, 5, 3072)
        return
    for a, name in enumerate(names):
        for b in range(S):
            for kib in (66, 70, 130, 520):
                i += 1
                yield _consume_case(name, i, b, kib)
    for beh in ('stdio', 'filereq', 'minisat', 'poly'):
        if beh in reps:
            for kib in (1024, 3072):
                for b in range(S):
                    i += 1
                    yield _consume_case(reps[beh], i, b, kib)


_CONSUME_STYLE = st.sampled_from(range(len(CONSUME_STYLES)))
_CONSUME_KIB = st.sampled_from([65, 66, 70, 80, 96, 128, 200])
_CONSUME_NAME = st.sampled_from(NAMES)
_CONSUME_I = st.sampled_from(range(100000))
_CONSUME_CHUNK = st.sampled_from([64, 300, 1000, 4096, 5000, 65536, 200000])
_CONSUME_NBYTES = st.sampled_from([0, 1, 100, 1000, 4096, 8192, 60000, 66000])
_BIG_KIND = st.sampled_from(BIG_KINDS)


@st.composite
def strat_consume(draw):
    """a style of CONSUME_STYLES with its numbers (piece size, byte count, pauses) and the formula drawn freely"""
    i = draw(_CONSUME_I)
    c = _consume_case(draw(_CONSUME_NAME), i, draw(_CONSUME_STYLE), draw(_CONSUME_KIB))
    plan = c['consume']
    plan['chunk'] = draw(_CONSUME_CHUNK)
    if plan.get('read') == 'bytes' or plan.get('out_at') == 'mid':
        plan['nbytes'] = draw(_CONSUME_NBYTES)
    if plan.get('read') == 'all' and plan['chunk'] <= 5000 and draw(_SMALL) == 1:
        plan['nap_every'] = max(16, 16384 // plan['chunk'])
        plan['nap_ms'] = 1
    if draw(_SMALL) == 1:
        c['big']['kind'] = draw(_BIG_KIND)
    return c


_ERR_IDX = st.sampled_from(range(len(fs.ERR_POOL)))
_ERR_KIND = st.sampled_from(fs.ERR_KINDS)
_ERR_LIST = st.lists(_ERR_IDX, max_size=3)
_NOISE_LIST = st.lists(st.sampled_from(fs.NOISE_POOL_ANY), max_size=5)
_CUTS = st.lists(st.sampled_from(range(0, 1001)), max_size=5)
_DELAYS = st.lists(st.sampled_from(fs.DELAYS_MS), min_size=1, max_size=3)
_SMALL = st.sampled_from([0, 0, 0, 1, 2, 3])
_FILL_WIDE = st.lists(st.sampled_from(range(len(fs.FILLERS) + len(fs.MORE_FILLERS))), min_size=1, max_size=6)
_PLANTED = st.sampled_from(PLANTED_SIZES)
_SEED = st.sampled_from(range(10000))
_MANNER = st.sampled_from(['quiet-err', 'any', 'any', 'any', 'kind', 'kind'])
_STRAT_ANY = strat_any()


@st.composite
def strat_chan(draw):
    chan = {}
    manner = draw(_MANNER)
    if manner == 'kind':
        # every stderr line of this program is of one kind
        idx = fs.err_indices(draw(_ERR_KIND))
        for pos in ('err_pre', 'err_mid', 'err_post'):
            chan[pos] = [idx[draw(_SMALL) % len(idx)] for _ in range(draw(_SMALL) % 3)]
        if not any(chan[pos] for pos in ('err_pre', 'err_mid', 'err_post')):
            chan[draw(st.sampled_from(['err_pre', 'err_mid', 'err_post']))] = [idx[0]]
    elif manner == 'any':
        for pos in ('err_pre', 'err_mid', 'err_post'):
            chan[pos] = draw(_ERR_LIST)
    chan['err_eol'] = draw(st.sampled_from(['lf', 'lf', 'lf', 'crlf']))
    chan['err_open'] = draw(_SMALL) == 1
    chan['noise'] = draw(_NOISE_LIST)
    chan['eol'] = draw(st.sampled_from(['lf', 'lf', 'crlf']))
    chan['no_final_eol'] = draw(_SMALL) == 1
    chan['vsplit'] = draw(st.sampled_from(['cuts', 'cuts', 'each', 'one']))
    chan['vsep'] = draw(_SMALL)
    chan['vlead'] = draw(_SMALL)
    chan['vtrail'] = draw(_SMALL)
    chan['chunks'] = draw(_CUTS)
    chan['delays'] = draw(_DELAYS)
    chan['early'] = draw(st.sampled_from([0, 0, 1, 2]))
    chan['res_first'] = draw(_SMALL) == 1
    chan['help'] = draw(_ERR_LIST) if draw(_SMALL) == 1 else []
    return chan


@st.composite
def strat_channels(draw):
    case = draw(_STRAT_ANY)
    if draw(_SMALL) == 1:
        # one name only speaks the minisat convention: give it more weight than 1/11
        keep = {k: case[k] for k in ('nvars', 'clauses', 'blocks', 'pick', 'flags', 'verbose', 'shape')}
        if draw(_SMALL) == 0:
            exe = EXES[draw(_SMALL)]
            case = dict(keep, mode='sameas', solver='minisat', exe=exe, installed={exe: 'ok'})
        else:
            case = dict(keep, mode='named', solver='minisat', installed={'minisat': 'ok'})
    if draw(_SMALL) == 1:
        n, m = draw(_PLANTED)
        for k in ('nvars', 'clauses', 'blocks'):
            case.pop(k, None)
        case['planted'] = {'n': n, 'm': m, 'rseed': draw(_SEED), 'unsat': draw(_SMALL) == 1}
    sh = case['shape']
    if sh['status'] != 'answer' and draw(_SMALL) != 1:
        sh = dict(ENUM_SHAPES[draw(_SMALL) % 3])
    sh = dict(sh)
    sh['fill'] = draw(_FILL_WIDE)
    sh['chan'] = draw(strat_chan())
    case['shape'] = sh
    return case


def _kinds(*names):
    """one index per named kind (the variants of a kind in turn)"""
    out = []
    for i, nm in enumerate(names):
        idx = fs.err_indices(nm)
        out.append(idx[i % len(idx)])
    return out


def enum_chan_layouts():
    """Fixed descriptions of the other channels; each kind of stderr line appears before, between and
    after the pieces of standard output at least once."""
    E = fs.err_indices
    every = [E(k)[0] for k in fs.ERR_KINDS]
    second = [E(k)[-1] for k in fs.ERR_KINDS]
    quiet = {'eol': 'lf'}
    return [
        # the program of the demo: version line first, statistics last
        {'err_pre': [E('version')[0]], 'err_post': [E('statistics')[0]]},
        {'err_pre': E('s-line')[:1], 'err_mid': E('v-line')[:1], 'err_post': E('single-word')[:1], 'chunks': [500]},
        {'err_pre': E('v-line')[1:2], 'err_mid': E('s-line')[1:2], 'err_post': E('version')[1:2] + E('statistics')[1:2],
         'chunks': [250, 750], 'delays': [1, 2]},
        {'err_pre': E('single-word'), 'err_mid': E('version') + E('statistics'), 'err_post': E('s-line') + E('v-line'),
         'chunks': [200, 400, 600, 800], 'delays': [0, 1, 3], 'early': 1},
        {'err_pre': E('empty') + E('c-line'), 'err_mid': E('empty') + E('c-line'), 'err_post': E('c-line') + E('empty'),
         'eol': 'crlf', 'err_eol': 'crlf', 'chunks': [333]},
        {'err_pre': E('long')[:1], 'err_mid': E('long')[1:2], 'err_post': E('long')[2:3], 'chunks': [500], 'fill_long': True},
        {'err_pre': E('non-ascii')[:2], 'err_mid': E('non-ascii')[2:3], 'err_post': E('non-ascii')[3:], 'chunks': [100, 900],
         'delays': [2]},
        {'err_post': E('s-line')[2:3] + E('v-line')[2:3], 'err_open': True},
        {'err_pre': every, 'err_mid': second, 'err_post': every[::-1], 'chunks': [10, 500, 990], 'delays': [1], 'early': 2,
         'help': every[:3]},
        # nothing on stderr: the bytes of the answer
        dict(quiet, eol='crlf', vsplit='each', vsep=2, vlead=1),
        dict(quiet, vsplit='one', vsep=1, vtrail=1, no_final_eol=True),
        dict(quiet, eol='crlf', vsplit='one', vsep=3, vlead=2, vtrail=2, chunks=[90, 180, 270, 360, 450, 540, 630, 720, 810, 900],
             delays=[1, 0, 2]),
        dict(quiet, vsplit='each', vtrail=3, chunks=[500], delays=[3], early=2, res_first=True),
        # a minisat-style program is free on its standard output
        {'noise': fs.NOISE_POOL[:10], 'err_post': E('statistics')[:1], 'res_first': True},
        {'noise': E('non-ascii'), 'res_first': False},
        {'noise': fs.NOISE_POOL[10:], 'eol': 'crlf', 'vsep': 2, 'chunks': [500], 'err_mid': E('v-line')[:1]},
    ]


def enum_channels(tier):
    names = _tree_names()
    layouts = enum_chan_layouts()
    small = [ENUM_FORMULAS[3], ENUM_FORMULAS[5], BIG, ENUM_FORMULAS[0]]
    i = 0
    for a, name in enumerate(names):
        for b, lay in enumerate(layouts):
            # the minisat convention has a single name: all formulas for it in the quick tier too
            reps = 4 if fs.behaviour_of(name) == 'minisat' else 1 if tier == 'quick' else 3
            for r in range(reps):
                i += 1
                j = a + b + r
                lay = dict(lay)
                sh = dict(ENUM_SHAPES[j % 3])
                if lay.pop('fill_long', False):
                    sh['fill'] = [_LONG_FILL, 1, _LONG_FILL + 1]
                elif j % 2:
                    sh['fill'] = [(j * 5 + k) % (len(fs.FILLERS) + len(fs.MORE_FILLERS)) for k in range(3)]
                sh['chan'] = lay
                kind = j % 4
                if kind == 3:
                    exe = EXES[i % len(EXES)]
                    base = {'mode': 'sameas', 'solver': name, 'exe': exe, 'installed': {exe: 'ok'}}
                elif kind == 2:
                    base = {'mode': 'auto', 'installed': {name: 'ok'}}
                else:
                    base = {'mode': 'named', 'solver': name, 'installed': {name: 'ok'}}
                if j % 5 == 4:
                    n, m = PLANTED_SIZES[j % len(PLANTED_SIZES)]
                    c = _mk(base, {}, sh, i)
                    c['planted'] = {'n': n, 'm': m, 'rseed': i, 'unsat': j % 3 == 0}
                else:
                    c = _mk(base, small[j % len(small)], sh, i)
                if kind == 2:
                    c['flags'] = []
                c['verbose'] = (0, 0, 0, 2)[j % 4]
                yield c
        # no answer on standard output / in the result file, whatever standard error says
        for b, sh0 in enumerate(ENUM_SHAPES[3:]):
            i += 1
            sh = dict(sh0)
            sh['chan'] = dict(layouts[(a + b) % 9])
            yield _mk({'mode': 'named', 'solver': name, 'installed': {name: 'ok'}}, small[b % 2], sh, i)


_SOLVER_LABELS = ['solver:' + s for s in NAMES]
_CONV = ['stdin-stdout', 'filein-stdout', 'filein-fileout']
_SHAPE_LABELS = ['vlines=1', 'vlines=2', 'vlines=3', 'vlines=4', 'zero-same', 'zero-own', 'zero-none',
                 's-before', 's-middle', 's-after', 'comments-interleaved', 'model-unordered',
                 'minisat-zero-absent', 'minisat-zero-present', 'sat', 'unsat', 'zero-variables',
                 'empty-clause', 'unused-variables', 'ten-or-more-variables', 'exit-10-20',
                 'no-answer:nosline', 'no-answer:unknown', 'no-answer:crash']

# ---------------------------------------------------------------------------
# many calls in one process

MANY = 150
FD_MARGIN = 64


def run_many(case):
    """The same call MANY times in one process, with the soft limit on open file descriptors lowered to what the process
    has open now + FD_MARGIN (one call needs about a dozen at a time and gives them back): every call must report what
    the solver found, as the first one did."""
    import resource
    F = build_formula(case)
    n = F.number_of_variables()
    clauses = [list(c) for c in F]
    verdict, model = answer_of(case, n, clauses)
    shape = case['shape']
    name = case['solver']
    cmd, sameas = case.get('cmd', name), case.get('sameas')
    beh = fs.behaviour_of(sameas or name)
    what = case.get('what', 'solve')
    soft, hard = resource.getrlimit(resource.RLIMIT_NOFILE)
    results = []
    with fs.Sandbox() as sb:
        sb.install(cmd, beh, 'ok', verdict, model, shape, n)
        used = len(os.listdir('/proc/self/fd'))
        limit = used + FD_MARGIN
        if hard != resource.RLIM_INFINITY:
            limit = min(limit, hard)
        resource.setrlimit(resource.RLIMIT_NOFILE, (limit, hard))
        try:
            for k in range(MANY):
                try:
                    if what == 'solve':
                        o = call_bridge(sb, what, lambda: F.solve(cmd=cmd, sameas=sameas))
                    else:
                        o = call_bridge(sb, what, lambda: F.is_satisfiable(cmd=cmd, sameas=sameas))
                    results.append(('exc', type(o.exc).__name__, str(o.exc)[:200]) if o.exc is not None else ('value', o.value, o.left))
                except Exception as e:      # noqa  (OSError and friends: not the documented errors)
                    results.append(('exc', type(e).__name__, str(e)[:200]))
                if results[-1] != results[0] or results[-1][0] == 'exc':
                    break
        finally:
            resource.setrlimit(resource.RLIMIT_NOFILE, (soft, hard))
        after = len(os.listdir('/proc/self/fd'))
    ctx = "{}(cmd={!r}, sameas={!r}) on p cnf {} {} {} with a program of the {} convention that answers {}; {} calls in one process with at most {} file descriptors allowed ({} were open before the first call, {} after the last)".format(
        what, cmd, sameas, n, len(clauses), clauses[:6], fs.CONVENTION_LABEL[beh], 'SATISFIABLE' if verdict else 'UNSATISFIABLE',
        len(results), limit, used, after)
    want = (verdict, model) if what == 'solve' and verdict else ((False, None) if what == 'solve' else verdict)
    first = results[0]
    if first[0] != 'value' or (first[1] != want and not (what == 'solve' and verdict and first[1][0] is True and satisfies(clauses, first[1][1]))):
        raise Violation("the first call gave {!r}, the solver's answer is {!r}; {}".format(first[:2], want, ctx))
    if first[2]:
        raise Violation("temporary files left after the first call: {}; {}".format(first[2], ctx))
    for k, r in enumerate(results):
        if r != first:
            raise Violation("call number {} gave {!r} where the first call gave {!r}, although the program answers the same every time; {}".format(
                k + 1, r[:2], first[:2], ctx))
    return Outcome(labels=['many-calls', 'many/' + fs.CONVENTION_LABEL[beh], 'many-' + what, 'many-sat' if verdict else 'many-unsat'],
                   nontrivial=len(clauses) >= 2)


def enum_many(tier):
    i = 0
    names = _tree_names() if tier == 'thorough' else ['minisat', 'lingeling', 'sat4j']
    for name in names:
        for f in (ENUM_FORMULAS[3], ENUM_FORMULAS[1]) if tier == 'quick' else ENUM_FORMULAS[:4]:
            for what in ('solve', 'is_satisfiable'):
                i += 1
                if tier == 'quick' and i % 2 == 0 and name != 'sat4j':
                    continue
                c = _mk({'mode': 'named', 'solver': name, 'installed': {name: 'ok'}}, f, ENUM_SHAPES[0], i)
                c['what'] = what
                yield c
        i += 1
        c = _mk({'mode': 'named', 'solver': name, 'installed': {name: 'ok'}}, ENUM_FORMULAS[3], ENUM_SHAPES[0], i)
        c['cmd'], c['sameas'] = 'mysolver', name
        yield c




SUBCHECKS = [
    SubCheck('many_calls', run_many, enumerate_cases=enum_many, quick=0, thorough=0, max_shards=4, opt_pass=False,
             rule="the same solve() / is_satisfiable() call 150 times in one process on one formula, with a fake program of each convention (quick: minisat, lingeling, sat4j; thorough: every supported name) that gives the same answer every time, also as an unsupported program name with sameas=; the soft limit on open file descriptors is lowered for the duration to what the process has open + 64 (a call needs about a dozen at a time); oracle: every call returns what the first one returned, which is the solver's answer, and leaves no temporary file - an answer that depends on how many calls went before is not what the solver found; non-trivial: >=2 clauses",
             required_labels=['many-calls', 'many/filein-fileout', 'many/filein-stdout', 'many/stdin-stdout', 'many-solve', 'many-is_satisfiable', 'many-sat', 'many-unsat']),
    SubCheck('named', run_verdict, strategy=strat_named, enumerate_cases=enum_named,
             quick=400, thorough=24000,
             rule="cmd='<supported name> [options]': every name of the interface table x 7 fixed formulas (quick: 4) x 6 answer shapes enumerated, plus generated CNFs (0..12 variables, empty clauses, unused variables, variable blocks) x generated answer shapes (model over 1..4 'v' lines, terminating 0 same line/own line/absent, 's' line before/middle/after, comments and blank lines interleaved, model printed in any order, exit 10/20 or 0, no 's' line, 's UNKNOWN', crash; minisat: SAT/UNSAT/INDET/empty result) x solver present/missing/not executable/not a program, decoy solvers installed; oracle: captured DIMACS = formula (strict reader), options forwarded, (True, model sorted by variable) / (False, None) / RuntimeError, is_satisfiable agrees; non-trivial: unsatisfiable answer, or >=2 variables and model over >=2 'v' lines (or the minisat result file)",
             required_labels=_SOLVER_LABELS + _CONV + _SHAPE_LABELS + ['not-installed', 'not-executable', 'flags',
                                                                      'no-answer:filein-fileout', 'no-answer:filein-stdout',
                                                                      'no-answer:stdin-stdout', 'gray-glucose']),
    SubCheck('sameas', run_verdict, strategy=strat_sameas, enumerate_cases=enum_sameas,
             quick=320, thorough=16000,
             rule="cmd='x [options]' with sameas=<every supported name> (x an unsupported program speaking that solver's convention, or another supported name overridden by sameas); unsupported program without sameas -> RuntimeError; unknown sameas (with cmd, with cmd=None) -> ValueError; same formulas/answer shapes/oracle as 'named'",
             required_labels=['sameas:' + s for s in NAMES] + _CONV + ['sameas', 'unsupported', 'badsameas', 'sameas-overrides', 'sat', 'unsat',
                                                          'zero-variables', 'not-installed', 'no-answer', 'flags',
                                                          'vlines=2', 'vlines=3', 'model-unordered']),
    SubCheck('auto', run_verdict, strategy=strat_auto, enumerate_cases=enum_auto,
             quick=320, thorough=16000,
             rule="cmd=None with a generated set of programs in bin/ (each supported name missing/ok/not executable/not a program, sometimes an unsupported program too; every single solver and every adjacent pair enumerated); oracle: exactly one run, of the first usable solver in supported_satsolvers() order, speaking its own convention; none usable -> RuntimeError",
             required_labels=_SOLVER_LABELS + _CONV + ['auto', 'auto-skips-missing', 'auto-several-installed', 'not-installed',
                                                      'no-answer', 'sat', 'unsat', 'zero-variables']),
    SubCheck('tempfiles', run_tmp, strategy=strat_tmp, enumerate_cases=enum_tmp_all,
             quick=400, thorough=24000,
             rule="union of the three generators above; oracle: after solve() and after is_satisfiable() the private TMPDIR (tempfile.tempdir) of the case is empty, whatever the outcome (verdict, RuntimeError, ValueError); non-trivial: a solver was actually run. "
                  "OVERLAPPING CALLS (one generated case in ten and an enumerated family): 2 or 3 threads of this process each call solve() or is_satisfiable() on its OWN formula (pairwise different: one satisfiable with a known model and one unsatisfiable, or two satisfiable ones with different models; 0..12 variables, fixed and generated) with cmd='<program> --tag=k [options]': the same program for all (minisat / a file-in program / a stdin program twice), programs of one or of two conventions, unsupported programs with sameas=; the programs are gated Python programs that report 'started' / 'read' / 'done' through a FIFO and wait before opening their input and/or before answering until the harness opens the gate, so the interleaving is the one the case lists, on any machine (no pause, no clock in the oracle; guards of 30 s / 60 s turn calls that wait for each other into a finding): 8 interleavings - one call held before it opens its input (resp. before it answers) while the others run from start to end; all started before any opens its input and all have read before any answers, answers released in launch order or reversed; a call that has read when the next starts and returns before that one opens its input; a call held at start while a second reads, then finishes before the second answers; last-in-first-out at the start gate; first-in-first-out at the answer gate - x launch orders; enumerated quick: each interleaving x 6 pairs of callers (a third caller in every third case), thorough: x 35 pairs x every launch order with and without a third caller. A program answers for the formula it RECEIVED (it holds the truthful answer of every formula of the case). Oracle: every call returns, without exception, the verdict and the model of its own formula; the run carrying its tag was of its program, with its options, and received exactly its formula (strict DIMACS reader); every scheduled point was reached; the temporary directory is empty once all calls returned; formulas unchanged; non-trivial: a satisfiable and an unsatisfiable formula in flight together",
             required_labels=['files-passed=0', 'files-passed=1', 'files-passed=2', 'after-RuntimeError', 'after-ValueError',
                              'no-answer:filein-fileout', 'no-answer:filein-stdout', 'no-answer:stdin-stdout',
                              'no-answer:crash', 'not-installed', 'sat', 'unsat'] + _CONV
             + ['overlap', 'overlap-calls=2', 'overlap-calls=3', 'overlap-same-program', 'overlap-same-convention',
                'overlap-mixed-conventions', 'overlap-sat-and-unsat', 'overlap-solve', 'overlap-is_satisfiable',
                'overlap-same-program/filein-fileout', 'overlap-same-program/filein-stdout',
                'overlap-same-program/stdin-stdout']
             + ['overlap:' + t for t in OVERLAP_TEMPLATES] + ['overlap/' + c for c in _CONV]),
    SubCheck('history', run_history, strategy=strat_history, enumerate_cases=enum_history,
             quick=320, thorough=16000,
             rule="one process, one PATH string (two directories of the sandbox first on it), one formula, a sequence of 2..5 steps (generated; enumerated scenarios of 2..5 steps for every supported name and for pairs of names): put a working program / a non-executable file / a non-program called like a supported solver (or the unsupported 'mysolver' used with sameas=) into a PATH directory (replacing what is there), remove one, or ask: solve()/is_satisfiable() with cmd='<name> [option]', with cmd='mysolver', sameas=<name>, with no cmd (default choice), some_solver_installed() with no argument / a name / a list; oracle: a harness-side model of the two directories gives what is reachable at the moment of EACH call: the call is answered by exactly one run of the named solver, or, without cmd, of the first reachable name in supported_satsolvers() order, with the verdict/model that solver prints; RuntimeError only when the wanted solver (any solver) is not reachable or does not answer; some_solver_installed() is true iff one of the names can be run; temporary directory empty after every call; non-trivial: the same question gets a different correct answer later in the history (found after not found, not found after found, another default solver)",
             required_labels=['found-after-not-found', 'not-found-after-found', 'auto-choice-changes',
                              'auto-falls-back-after-removal', 'auto-prefers-newly-installed',
                              'found-after-not-found:call', 'found-after-not-found:probe',
                              'not-found-after-found:call', 'not-found-after-found:probe', 'same-answer-again',
                              'solve', 'is_satisfiable', 'named', 'sameas', 'auto', 'probe-true', 'probe-false',
                              'probe-arg-none', 'probe-arg-str', 'probe-arg-list', 'install-ok', 'install-noexec',
                              'install-badformat', 'remove', 'second-path-directory', 'removed-one-of-two-copies',
                              'steps=2', 'steps=3', 'steps=4', 'steps=5', 'sat', 'unsat']
             + ['answered-by:' + s for s in NAMES] + ['answered-by:sameas:' + s for s in NAMES] + _CONV),
    SubCheck('environment', run_env, strategy=strat_env, enumerate_cases=enum_env,
             quick=400, thorough=24000,
             rule="the cases of 'named'/'sameas'/'auto' run with the directory for temporary files and/or the first PATH entry under unusual names (1..3 components out of: blanks inside/doubled/leading/trailing, single and double quotes, non-ASCII, leading dash, $ ; & ( ) [ ] { } * ? backslash % ~ #; never tab, newline, '/', ':'), the temporary directory announced through tempfile.tempdir, TMPDIR, TEMP or both, command lines with 0..3 options (cmd='minisat -verb=0', cmd='x -q', sameas=...) separated by one or two blanks or padded with blanks; every supported name x every unusual name enumerated as tmp, as PATH entry (quick: a quarter of them as both); oracle: the same as in a plain directory (verdict/model of the solver chosen by the model, documented errors), the solver received the formula, options forwarded, temporary directory empty afterwards; tempfile.tempdir, os.environ and the working directory are verified restored after each case; non-trivial: a verdict obtained under an unusual name",
             required_labels=['tmp:' + k for k in ODD_KINDS] + ['bin:' + k for k in ODD_KINDS]
             + ['{}:{}/{}'.format(w, k, c) for w in ('tmp', 'bin') for k in ODD_KINDS for c in _CONV]
             + ['via:' + v for v in VIAS] + ['tmp:plain', 'bin:plain', 'cmd-extra-blanks', 'cmd-with-arguments',
                                            'cmd-with-arguments-sameas', 'files-passed=0', 'files-passed=1', 'files-passed=2',
                                            'named', 'sameas', 'auto', 'not-installed', 'no-answer', 'sat', 'unsat']),
    SubCheck('channels', run_channels, strategy=strat_channels, enumerate_cases=enum_channels,
             quick=360, thorough=24000,
             rule="the cases of 'named'/'sameas'/'auto' (plus planted formulas of 40/300/1500 variables whose answer is known by construction) answered by a program that also uses its other channels, for each of the three conventions: 0..9 lines on standard error before the first byte of standard output, between its pieces and after the last one, drawn from 28 lines of 11 kinds (version line, statistics, lines starting with 's ' / 'v ' / 'c', a single word, empty and blank lines, lines of 18-20 kB, UTF-8 / Latin-1 / binary bytes, CR at the end; LF or CRLF; last line with or without line end; total < 48 kB), stderr text before the formula is read, text printed for --help; minisat style: the same (ASCII) lines mixed into the statistics on standard output, result file written before or after; layout of the answer: LF/CRLF on standard output and in the result file, 'v' lines cut at generated places / one literal per line (up to 1500 lines) / one single line (up to 9 kB), literals separated by blank(s), tab or both, tab or blanks after the 'v', trailing blanks, terminating 0 on the same line/own line/absent, last line without line end, comment lines of 30 kB, lines of blanks, standard output delivered in 1..11 writes cut at generated byte positions (inside a line too) with pauses of 0..3 ms, exit status 10/20 or 0; every supported name x 15 fixed layouts enumerated; oracle: as in 'named' (exactly one run, the formula received, options forwarded, verdict and model are the ones the truthful program put on standard output / in the result file, model satisfies the formula, RuntimeError when that channel carries no answer whatever standard error says, temporary directory empty); no timing is observed; non-trivial: a verdict obtained while standard error (or minisat's standard output) carries text, or with CRLF, or over several writes",
             required_labels=['err-pre', 'err-mid', 'err-post', 'stderr-silent', 'stderr-talks', 'err-crlf', 'err-open-end',
                              'crlf', 'pieces=1', 'pieces=2', 'pieces>=3', 'cut-inside-line', 'delays',
                              'stderr-before-reading', 'stdout-before-reading', 'help-text', 'result-file-first',
                              'exit-0', 'exit-10-20', 'vsplit-cuts', 'vsplit-each', 'vsplit-one', 'vsep:blank', 'vsep:blanks',
                              'vsep:tab', 'vsep:mixed', 'vlead:blank', 'vlead:tab', 'vlead:blanks', 'v-trailing-blanks',
                              'long-v-line', 'many-v-lines', 'no-final-eol', 'fileout-odd-separators', 'fileout-long-line',
                              'stdout-long-comment', 'planted-large', 'no-answer-with-stderr-text', 'zero-none', 'zero-own',
                              'zero-same', 'sat', 'unsat', 'named', 'sameas', 'auto', 'verbose']
             + ['err:' + k for k in fs.ERR_KINDS]
             + ['{}/err:{}'.format(c, k) for c in _CONV for k in _KEY_KINDS]
             + ['{}/{}'.format(c, k) for c in _CONV for k in ('crlf', 'several-writes', 'stderr-talks')]
             + ['fileout-stdout-noise:' + k for k in fs.ERR_KINDS]
             + _SOLVER_LABELS + _CONV),
    SubCheck('consumption', run_consume, strategy=strat_consume, enumerate_cases=enum_consume,
             quick=48, thorough=4000,
             rule="how the program TAKES its input, beyond what a pipe absorbs: " + "formulas of 65 KiB .. 3 MiB of DIMACS text with an answer known by construction (planted assignment over 300..16000 variables; the empty clause or two complementary unit clauses as the first or as the last clauses), every supported name (all three conventions, glucose) called by name / through sameas / as default, answered by a Python program that reads its input (standard input or the file argument) to the end in pieces of 64 bytes .. 200 kB with or without pauses of 1 ms, or only up to the end of the problem line / of the first clause / up to 0..66000 bytes / not at all and then answers and exits, or closes its input after such a prefix, keeps running for 2..5 ms and answers then, or writes its whole standard output (a model of 12000..16000 literals over 300..16000 'v' lines, or 90 KiB of comment/statistics lines: more than a pipe holds) before reading or after the first bytes of input; 13 styles enumerated with every name at 66..130 KiB (quick: all styles with two names, 5..7 styles with each other name), at 1 MiB and 3 MiB with one name per convention (quick: 5 cases of 1 MiB, one of 3 MiB); oracle: exactly one run, the bytes the program took are the whole formula and the end of the input (reads to the end) or parse as the beginning of the formula's DIMACS text (stops early), verdict and model are the ones the program printed, no exception (BrokenPipeError, RuntimeError) when the program answered, temporary directory empty, nobody blocks (every wait of the program is for input, end of input or room in its output pipe; a guard of 60 s that is never reached on a working bridge turns a mutual wait into a finding); non-trivial: text larger than a pipe buffer",
             required_labels=['consume', 'stops-early-beyond-pipe-buffer', 'input-left-unread', 'slow-reader', 'closes-input-early',
                              'stdout-beyond-pipe-buffer', 'large-output-before-input-is-read', 'large-chatter', 'many-v-lines',
                              'dimacs>=70KiB', 'dimacs>=256KiB', 'dimacs>=1MiB', 'dimacs>=3MiB', 'sat', 'unsat', 'named', 'sameas', 'auto',
                              'flags', 'exit-0']
             + ['read-' + m for m in fs.READ_MODES] + ['out-at-' + m for m in fs.OUT_AT] + ['big-' + k for k in BIG_KINDS]
             + ['consume/{}/read-{}'.format(c, m) for c in _CONV for m in fs.READ_MODES]
             + ['consume/{}/out-at-{}'.format(c, m) for c in _CONV for m in fs.OUT_AT]
             + ['{}/{}'.format(c, k) for c in _CONV for k in ('stops-early-beyond-pipe-buffer', 'slow-reader', 'closes-input-early',
                                                             'large-output-before-input-is-read')]
             + _SOLVER_LABELS + ['sameas:' + s for s in NAMES] + _CONV),
]
