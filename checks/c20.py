"""C20 - solve() and is_satisfiable() report what the SAT solver found.

No SAT solver is installed, so the bridge is driven against *scripted* solvers
(vlib/fakesolver.py): generated sh scripts installed under the solver names in a
private bin/ directory that is first on PATH for the duration of one case.  The
canned answer is computed from the complete truth table of the formula, so the fake
solver always tells the truth; the check is about the bridge, not about solving.
"""
import io
import os
import sys

from hypothesis import strategies as st

from vlib.core import SubCheck, Violation, Outcome
from vlib import tt
from vlib import fakesolver as fs

PROPERTY = "C20"
ASSUMPTIONS = [
    "solvers are scripted: the three documented I/O conventions are exercised, not the quirks of real solver binaries",
    "a solver answers truthfully (the canned answer is a model taken from the truth table, or UNSAT); the bridge is not required to detect a lying solver",
    "the process exit status carries no information (real solvers exit 10/20): a failing solver is one that prints no 's' line / writes no SAT|UNSAT result",
    "arguments starting with '-' are options, the first other argument is the input file, the second the result file (what the real programs do)",
    "glucose is treated as gray: its fake answers in the DIMACS convention on stdout and in the minisat convention on the result file, so either interface choice of the tree is accepted",
    "cmd=None tries the supported solvers in the order of supported_satsolvers() of the tree under test",
    "when an unknown 'sameas' coincides with a missing solver either documented error (ValueError, RuntimeError) is accepted",
]

NAMES = sorted(fs.BEHAVIOUR)
EXES = ['mysolver', 'my-hacked-minisat', 'patched-lingeling', 'x', 'solver2.1']
FLAGS = ['-no-pre', '--plain', '-pre', '-q', '--seed=3', '-v', '-model']
STATES = ('ok', 'noexec', 'badformat')      # anything else: not in bin/ at all
MAXVARS = 12


# ---------------------------------------------------------------------------
# building the inputs

def build_formula(case):
    from cnfgen.formula.cnf import CNF
    F = CNF()
    for b in case.get('blocks') or []:
        if len(b) == 1:
            F.new_block(b[0])
        else:
            F.new_block(b[0], b[1])
    F.update_variable_number(case['nvars'])
    for c in case['clauses']:
        F.add_clause(list(c))
    return F


def kth_model(n, table, k):
    cnt = table.bit_count()
    k %= cnt
    x = table
    while True:
        low = x & -x
        if k == 0:
            return tt.row_assignment(n, low.bit_length() - 1)
        x ^= low
        k -= 1


def satisfies(clauses, assignment):
    s = set(assignment)
    return all(any(l in s for l in c) for c in clauses)


def clause_key(clauses):
    return sorted(tuple(sorted(c)) for c in clauses)


class _Obs:
    """What one call into the bridge did."""
    __slots__ = ('what', 'value', 'exc', 'calls', 'left')


def call_bridge(sb, what, fn):
    o = _Obs()
    o.what = what
    o.value = o.exc = None
    old_err = sys.stderr
    sys.stderr = io.StringIO()
    try:
        try:
            o.value = fn()
        except (RuntimeError, ValueError) as e:      # the documented errors
            o.exc = e
    finally:
        sys.stderr = old_err
    o.calls = sb.collect()
    o.left = sb.leftovers()
    sb.clear_tmp()
    return o


def execute(case):
    """Run solve() and is_satisfiable() on the case inside a sandbox.
    Returns a dict with everything the oracles need."""
    from cnfgen.utils.solver import supported_satsolvers
    F = build_formula(case)
    n = F.number_of_variables()
    if n > MAXVARS:
        raise ValueError("case too large for the harness: {} variables".format(n))
    clauses = [list(c) for c in F]
    table = tt.cnf_tt(n, clauses)
    verdict = table != 0
    model = kth_model(n, table, case.get('pick', 0)) if verdict else None
    shape = case['shape']
    mode = case['mode']
    supported = list(supported_satsolvers())
    installed = dict(case.get('installed') or {})
    flags = list(case.get('flags') or [])

    if mode == 'named':
        target = case['solver']
        cmd, sameas = ' '.join([target] + flags), None
    elif mode == 'sameas':
        target = case['exe']
        cmd, sameas = ' '.join([target] + flags), case['solver']
    elif mode == 'unsupported':
        target = case['exe']
        cmd, sameas = ' '.join([target] + flags), None
    elif mode == 'badsameas':
        target = case.get('exe')
        cmd = None if target is None else ' '.join([target] + flags)
        sameas = case['solver']
    elif mode == 'auto':
        target = None
        cmd, sameas = None, None
    else:
        raise ValueError(mode)

    if cmd is None:
        flags = []
    behaviours = {}
    for name in installed:
        if mode == 'sameas' and name == target:
            behaviours[name] = fs.behaviour_of(sameas)
        else:
            behaviours[name] = fs.behaviour_of(name)

    # expected outcome --------------------------------------------------
    answered = shape['status'] == 'answer'
    expect_alt = None
    chosen = None
    if mode == 'badsameas':
        expect = ValueError
        usable = (installed.get(target) == 'ok') if target is not None else \
            any(installed.get(s) == 'ok' for s in supported)
        if not usable:
            expect_alt = RuntimeError
    elif mode == 'unsupported':
        expect = RuntimeError
    elif mode == 'sameas' and sameas not in supported:
        expect = ValueError                      # the tree does not know this name (any more)
    elif mode == 'named' and target not in supported:
        expect = RuntimeError
    else:
        if mode == 'auto':
            for s in supported:
                if installed.get(s) == 'ok':
                    chosen = s
                    break
        elif installed.get(target) == 'ok':
            chosen = target
        if chosen is None:
            expect = RuntimeError
        elif not answered:
            expect = RuntimeError
        else:
            expect = 'verdict'

    verbose = case.get('verbose', 0)
    with fs.Sandbox() as sb:
        for name, state in sorted(installed.items()):
            if state in STATES:
                sb.install(name, behaviours[name], state, verdict, model, shape, n)
        o1 = call_bridge(sb, 'solve', lambda: F.solve(cmd=cmd, sameas=sameas, verbose=verbose))
        o2 = call_bridge(sb, 'is_satisfiable', lambda: F.is_satisfiable(cmd=cmd, sameas=sameas))
        root = sb.root
    if os.path.exists(root):
        raise RuntimeError("harness: scratch directory {} not removed".format(root))
    after = [list(c) for c in F]
    return {
        'n': n, 'clauses': clauses, 'verdict': verdict, 'model': model, 'mode': mode,
        'cmd': cmd, 'sameas': sameas, 'expect': expect, 'expect_alt': expect_alt,
        'chosen': chosen, 'obs': [o1, o2], 'flags': flags, 'behaviours': behaviours,
        'supported': supported, 'installed': installed, 'target': target, 'shape': shape,
        'untouched': after == clauses and F.number_of_variables() == n,
    }


def describe(case, R):
    return "formula p cnf {} {} {}; cmd={!r} sameas={!r} installed={} answer={}".format(
        R['n'], len(R['clauses']), R['clauses'][:6], R['cmd'], R['sameas'],
        R['installed'], {k: v for k, v in R['shape'].items()})


# ---------------------------------------------------------------------------
# oracles

def check_verdict(case, R):
    n, clauses = R['n'], R['clauses']
    ctx = describe(case, R)
    for o in R['obs']:
        exp = R['expect']
        # 1. what every solver run received
        for c in o.calls:
            if c['input'] is None:
                # a fake that needs a file and got none (it refused), or one that could not read it
                if exp == 'verdict':
                    raise Violation("{}(): solver '{}' was run as {} and received no formula; {}".format(
                        o.what, c['name'], c['args'], ctx))
                continue
            try:
                text = c['input'].decode('ascii')
                gn, gcl = fs.strict_dimacs(text)
            except (UnicodeDecodeError, fs.DimacsError) as e:
                raise Violation("{}(): solver '{}' received text that is not DIMACS CNF ({}): {!r}; {}".format(
                    o.what, c['name'], e, c['input'][:200], ctx))
            if gn != n or clause_key(gcl) != clause_key(clauses):
                raise Violation("{}(): solver '{}' received p cnf {} {} {} which is not the formula held; {}".format(
                    o.what, c['name'], gn, len(gcl), gcl[:8], ctx))
        # 2. outcome
        if exp == 'verdict':
            if o.exc is not None:
                raise Violation("{}() raised {}({}) although solver '{}' is installed and answered {}; {}".format(
                    o.what, type(o.exc).__name__, str(o.exc).strip(), R['chosen'],
                    'SATISFIABLE' if R['verdict'] else 'UNSATISFIABLE', ctx))
            if len(o.calls) != 1 or o.calls[0]['name'] != R['chosen']:
                raise Violation("{}(): expected exactly one run of '{}' (first usable solver of {}), observed runs {}; {}".format(
                    o.what, R['chosen'], R['supported'] if R['mode'] == 'auto' else [R['chosen']],
                    [c['name'] for c in o.calls], ctx))
            got_flags = [a for a in (o.calls[0]['args'] or []) if a.startswith('-')]
            if got_flags != R['flags']:
                raise Violation("{}(): the command line {!r} reached the solver with options {} (all arguments {}); {}".format(
                    o.what, R['cmd'], got_flags, o.calls[0]['args'], ctx))
            if o.what == 'is_satisfiable':
                if o.value is not R['verdict']:
                    raise Violation("is_satisfiable() returned {!r}, the solver answered {}; {}".format(
                        o.value, R['verdict'], ctx))
                continue
            v = o.value
            if not (isinstance(v, tuple) and len(v) == 2):
                raise Violation("solve() returned {!r}, not a pair; {}".format(v, ctx))
            ok, A = v
            if ok is not R['verdict']:
                raise Violation("solve() returned verdict {!r}, the solver answered {}; {}".format(ok, R['verdict'], ctx))
            if not R['verdict']:
                if A is not None:
                    raise Violation("solve() returned (False, {!r}) for an unsatisfiable answer, expected (False, None); {}".format(A, ctx))
                continue
            want = sorted(R['model'], key=abs)
            if A is None and n == 0:
                raise Violation("solve() returned (True, None) for a satisfiable formula without variables: "
                                "the assignment (the empty list) is missing; {}".format(ctx),
                                signature="zero-variables-witness-none")
            if not isinstance(A, (list, tuple)):
                raise Violation("solve() returned (True, {!r}): no assignment although the solver printed {}; {}".format(A, want, ctx))
            A = list(A)
            if any(type(l) is not int for l in A):
                raise Violation("solve() returned a assignment with non-integer entries {!r}; {}".format(A, ctx))
            if sorted(A, key=abs) == want and A != want:
                raise Violation("solve() returned the assignment {} which is not ordered by variable; {}".format(A, ctx))
            if A != want:
                raise Violation("solve() returned the assignment {} but the solver printed the model {}; {}".format(A, want, ctx))
            if not satisfies(clauses, A):
                raise Violation("harness inconsistency: model {} does not satisfy {}".format(A, clauses))
        else:
            if o.exc is None:
                raise Violation("{}() returned {!r} where {} is documented ({}); {}".format(
                    o.what, o.value, exp.__name__, why_error(R), ctx))
            if not isinstance(o.exc, exp) and not (R['expect_alt'] and isinstance(o.exc, R['expect_alt'])):
                raise Violation("{}() raised {}({}) where {} is documented ({}); {}".format(
                    o.what, type(o.exc).__name__, str(o.exc).strip(), exp.__name__, why_error(R), ctx))
    if not R['untouched']:
        raise Violation("the formula was modified by solve()/is_satisfiable(); {}".format(ctx))


def why_error(R):
    m = R['mode']
    if m == 'badsameas':
        return "sameas={!r} is not a supported solver".format(R['sameas'])
    if m == 'unsupported':
        return "'{}' is not a supported solver and no sameas is given".format(R['target'])
    if R['chosen'] is None:
        return "no usable solver: programs in bin/ = {}".format(R['installed'])
    return "solver '{}' gave no answer ({})".format(R['chosen'], R['shape']['status'])


def check_tmp(case, R):
    ctx = describe(case, R)
    for o in R['obs']:
        if o.left:
            nfiles = [len([a for a in (c['args'] or []) if not a.startswith('-')]) for c in o.calls]
            sig = "tmpfile-left-filein-stdout" if nfiles == [1] else None
            raise Violation("{}() left {} in the temporary directory (outcome: {}; solver runs: {}); {}".format(
                o.what, o.left, 'raised ' + type(o.exc).__name__ if o.exc is not None else repr(o.value),
                [(c['name'], c['args']) for c in o.calls], ctx), signature=sig)


# ---------------------------------------------------------------------------
# labels

def labels_of(case, R):
    L = [R['mode']]
    sh = R['shape']
    n = R['n']
    if R['expect'] == 'verdict':
        ch = R['chosen']
        L.append('sameas:' + R['sameas'] if R['mode'] == 'sameas' else 'solver:' + ch)
        beh = R['behaviours'][ch]
        L.append(fs.CONVENTION_LABEL[beh])
        if ch in fs.GRAY_NAMES or (R['mode'] == 'sameas' and R['sameas'] in fs.GRAY_NAMES):
            L.append('gray-glucose')
        L.append('sat' if R['verdict'] else 'unsat')
        if R['verdict']:
            if beh != 'minisat':
                _, k = fs.render_stdout(True, R['model'], sh)
                L.append('vlines={}'.format(min(k, 4)))
                L.append('zero-' + sh.get('zero', 'same'))
                L.append('s-' + sh.get('s_pos', 'before'))
                if any(f % len(fs.FILLERS) for f in (sh.get('fill') or [0])):
                    L.append('comments-interleaved')
            else:
                L.append('minisat-zero-' + ('absent' if sh.get('zero', 'same') == 'none' else 'present'))
            if sh.get('order', 0) != 0 and n >= 2:
                L.append('model-unordered')
            if n >= 10:
                L.append('ten-or-more-variables')
        if sh.get('exit', 'std') == 'std':
            L.append('exit-10-20')
        if R['flags']:
            L.append('flags')
        if R['mode'] == 'sameas' and R['target'] in R['supported']:
            L.append('sameas-overrides')
        if R['mode'] == 'auto':
            first = R['supported'][0] if R['supported'] else None
            if ch != first:
                L.append('auto-skips-missing')
            if sum(1 for s in R['installed'].values() if s == 'ok') >= 2:
                L.append('auto-several-installed')
    else:
        if R['mode'] in ('named', 'sameas', 'auto'):
            if R['chosen'] is None:
                L.append('not-installed')
                t = R['target']
                if t is not None and R['installed'].get(t) in ('noexec', 'badformat'):
                    L.append('not-executable')
                if R['mode'] == 'named' and t not in R['supported']:
                    L.append('name-not-in-table')
            else:
                L.append('no-answer')
                L.append('no-answer:' + sh['status'])
                L.append('no-answer:' + fs.CONVENTION_LABEL[R['behaviours'][R['chosen']]])
    if n == 0:
        L.append('zero-variables')
    if any(len(c) == 0 for c in R['clauses']):
        L.append('empty-clause')
    used = set(abs(l) for c in R['clauses'] for l in c)
    if len(used) < n:
        L.append('unused-variables')
    if case.get('verbose', 0):
        L.append('verbose')
    return L


def nontrivial_of(R, labels):
    if R['expect'] != 'verdict':
        return False
    if not R['verdict']:
        return True
    if R['n'] < 2:
        return False
    return 'filein-fileout' in labels or any(l in labels for l in ('vlines=2', 'vlines=3', 'vlines=4'))


def run_verdict(case):
    R = execute(case)
    check_verdict(case, R)
    L = labels_of(case, R)
    return Outcome(labels=L, nontrivial=nontrivial_of(R, L), rejected=R['expect'] != 'verdict')


def run_tmp(case):
    R = execute(case)
    check_tmp(case, R)
    L = labels_of(case, R)
    # which interface did the tree use: number of file arguments the solver saw
    for o in R['obs']:
        for c in o.calls:
            L.append('files-passed={}'.format(len([a for a in (c['args'] or []) if not a.startswith('-')])))
        if o.exc is not None:
            L.append('after-' + type(o.exc).__name__)
    L = sorted(set(L))
    return Outcome(labels=L, nontrivial=bool(R['obs'][0].calls), rejected=R['expect'] != 'verdict')


# ---------------------------------------------------------------------------
# generators

def _lit(n):
    return st.integers(1, n).flatmap(lambda v: st.sampled_from([v, -v]))


@st.composite
def strat_formula(draw):
    n = draw(st.sampled_from([0, 0, 1, 2, 2, 3, 3, 4, 5, 6, 8, 10, 11]))
    kind = draw(st.sampled_from(['random', 'random', 'random', 'empty-clause', 'units', 'complete', 'few']))
    blocks = []
    if n >= 2 and draw(st.integers(0, 3)) == 0:
        a = draw(st.integers(1, n))
        blocks = [[a]] if n - a < 2 or draw(st.booleans()) else [[a], [1, n - a]]
    if n == 0:
        m = draw(st.sampled_from([0, 0, 1, 2]))
        return {'nvars': 0, 'clauses': [[] for _ in range(m)], 'blocks': []}
    if kind == 'few':
        clauses = draw(st.lists(st.lists(_lit(n), min_size=1, max_size=3), max_size=2))
    else:
        clauses = draw(st.lists(st.lists(_lit(n), min_size=0 if kind == 'empty-clause' else 1, max_size=4), max_size=8))
    if kind == 'empty-clause':
        clauses.insert(draw(st.integers(0, len(clauses))), [])
    elif kind == 'units':
        v = draw(st.integers(1, n))
        clauses.insert(draw(st.integers(0, len(clauses))), [v])
        clauses.append([-v])
    elif kind == 'complete':
        k = min(n, draw(st.integers(1, 3)))
        vs = draw(st.lists(st.integers(1, n), min_size=k, max_size=k, unique=True))
        for mask in range(1 << k):
            clauses.append([v if (mask >> i) & 1 else -v for i, v in enumerate(vs)])
    return {'nvars': n, 'clauses': clauses, 'blocks': blocks}


@st.composite
def strat_shape(draw):
    status = draw(st.sampled_from(['answer'] * 7 + ['nosline', 'unknown', 'crash']))
    sh = {'status': status,
          'fill': draw(st.lists(st.integers(0, len(fs.FILLERS) - 1), min_size=1, max_size=6))}
    if status == 'crash':
        sh['crash'] = draw(st.sampled_from(fs.CRASHES))
    if status == 'answer':
        sh['cuts'] = draw(st.lists(st.integers(0, 12), max_size=3))
        sh['zero'] = draw(st.sampled_from(fs.ZEROS))
        sh['s_pos'] = draw(st.sampled_from(fs.SPOS))
        sh['order'] = draw(st.sampled_from([0, 0, 0, 1]) | st.integers(2, 60))
        sh['exit'] = draw(st.sampled_from(['std', 'std', 'zero']))
    return sh


def _common(draw, case):
    case.update(draw(strat_formula()))
    case['shape'] = draw(strat_shape())
    case['pick'] = draw(st.sampled_from([0, 1, 2]) | st.integers(0, 5000))
    case['flags'] = draw(st.lists(st.sampled_from(FLAGS), max_size=2, unique=True))
    case['verbose'] = draw(st.sampled_from([0, 0, 0, 0, 1, 2]))
    return case


STATE_TARGET = ['ok'] * 8 + ['missing', 'noexec', 'badformat']


@st.composite
def strat_named(draw):
    solver = draw(st.sampled_from(NAMES))
    installed = {d: 'ok' for d in draw(st.lists(st.sampled_from(NAMES), max_size=3))}
    installed[solver] = draw(st.sampled_from(STATE_TARGET))
    return _common(draw, {'mode': 'named', 'solver': solver, 'installed': installed})


@st.composite
def strat_sameas(draw):
    kind = draw(st.sampled_from(['sameas'] * 6 + ['override', 'unsupported', 'badsameas', 'badsameas-none']))
    installed = {d: 'ok' for d in draw(st.lists(st.sampled_from(NAMES), max_size=2))}
    solver = draw(st.sampled_from(NAMES))
    if kind == 'override':
        exe = draw(st.sampled_from([s for s in NAMES if s != solver]))
    else:
        exe = draw(st.sampled_from(EXES))
    state = draw(st.sampled_from(STATE_TARGET))
    if kind in ('sameas', 'override'):
        installed[exe] = state
        case = {'mode': 'sameas', 'solver': solver, 'exe': exe}
    elif kind == 'unsupported':
        installed[exe] = state
        case = {'mode': 'unsupported', 'exe': exe}
    else:
        bad = draw(st.sampled_from(['nosuchsolver', 'minisat2', 'my-solver']))
        if kind == 'badsameas':
            exe = draw(st.sampled_from(EXES + NAMES))
            installed[exe] = state
        else:
            exe = None
        case = {'mode': 'badsameas', 'solver': bad, 'exe': exe}
    case['installed'] = installed
    return _common(draw, case)


@st.composite
def strat_auto(draw):
    installed = {}
    dens = draw(st.sampled_from([1, 2, 4]))
    for s in NAMES:
        stt = draw(st.sampled_from(['missing'] * dens + ['ok', 'ok', 'noexec', 'badformat']))
        if stt != 'missing':
            installed[s] = stt
    if draw(st.integers(0, 4)) == 0:
        installed[draw(st.sampled_from(EXES))] = 'ok'       # an unsupported program lying around
    return _common(draw, {'mode': 'auto', 'installed': installed})


def strat_any():
    return st.one_of(strat_named(), strat_named(), strat_sameas(), strat_auto())


# -- finite slices ----------------------------------------------------------

def _tree_names():
    from cnfgen.utils.solver import supported_satsolvers
    names = list(supported_satsolvers())
    return names + [s for s in NAMES if s not in names]


BIG = {'nvars': 12, 'clauses': [[-1, 12], [-12, 3], [10, 11, -2], [-11], [9, -10]], 'blocks': []}
ENUM_FORMULAS = [
    {'nvars': 0, 'clauses': [], 'blocks': []},
    {'nvars': 0, 'clauses': [[]], 'blocks': []},
    {'nvars': 1, 'clauses': [[1]], 'blocks': []},
    {'nvars': 3, 'clauses': [[1, -2], [2, -3], [3]], 'blocks': []},
    {'nvars': 3, 'clauses': [], 'blocks': [[3]]},
    {'nvars': 2, 'clauses': [[1, 2], [1, -2], [-1, 2], [-1, -2]], 'blocks': []},
    BIG,
]
ENUM_SHAPES = [
    {'status': 'answer', 'fill': [0], 'cuts': [], 'zero': 'same', 's_pos': 'before', 'order': 0, 'exit': 'std'},
    {'status': 'answer', 'fill': [1, 2, 4, 5], 'cuts': [1, 2, 7], 'zero': 'own', 's_pos': 'after', 'order': 1, 'exit': 'zero'},
    {'status': 'answer', 'fill': [6, 0, 3], 'cuts': [5], 'zero': 'none', 's_pos': 'middle', 'order': 7, 'exit': 'std'},
    {'status': 'nosline', 'fill': [1]},
    {'status': 'unknown', 'fill': [0]},
    {'status': 'crash', 'fill': [1], 'crash': 'kill'},
]


def _mk(base, f, sh, i):
    c = dict(base)
    c.update(f)
    c['shape'] = dict(sh)
    c['pick'] = i
    c['flags'] = [[], ['-q'], ['--plain', '-v']][i % 3]
    c['verbose'] = 0
    return c


def _formulas(tier):
    # quick: no variables (sat / unsat), three variables, twelve variables
    return ENUM_FORMULAS if tier != 'quick' else [ENUM_FORMULAS[0], ENUM_FORMULAS[1], ENUM_FORMULAS[3], BIG]


def enum_named(tier):
    i = 0
    for name in _tree_names():
        for f in _formulas(tier):
            for sh in ENUM_SHAPES:
                i += 1
                yield _mk({'mode': 'named', 'solver': name, 'installed': {name: 'ok'}}, f, sh, i)
        for stt in ('missing', 'noexec', 'badformat'):
            other = NAMES[(NAMES.index(name) + 1) % len(NAMES)] if name in NAMES else NAMES[0]
            yield _mk({'mode': 'named', 'solver': name, 'installed': {name: stt, other: 'ok'}},
                      ENUM_FORMULAS[3], ENUM_SHAPES[0], i)


def enum_sameas(tier):
    i = 0
    for name in _tree_names():
        for f in _formulas(tier):
            for sh in ENUM_SHAPES[:4]:
                i += 1
                exe = EXES[i % len(EXES)]
                yield _mk({'mode': 'sameas', 'solver': name, 'exe': exe, 'installed': {exe: 'ok'}}, f, sh, i)
        yield _mk({'mode': 'sameas', 'solver': name, 'exe': 'mysolver', 'installed': {name: 'ok'}},
                  ENUM_FORMULAS[3], ENUM_SHAPES[0], i)          # the program itself is missing
    # a supported program name whose interface is overridden by sameas (the program
    # speaks the convention of the sameas solver, not the one of its own name)
    for exe, name in (('lingeling', 'minisat'), ('cadical', 'march'), ('minisat', 'kissat'),
                      ('march', 'minisat'), ('sat4j', 'minisat'), ('minisat', 'sat4j')):
        for f in (ENUM_FORMULAS[3], ENUM_FORMULAS[5]):
            for sh in ENUM_SHAPES[:2]:
                i += 1
                yield _mk({'mode': 'sameas', 'solver': name, 'exe': exe, 'installed': {exe: 'ok'}}, f, sh, i)
    for exe in EXES:
        for stt in ('ok', 'missing'):
            yield _mk({'mode': 'unsupported', 'exe': exe, 'installed': {exe: stt}}, ENUM_FORMULAS[3], ENUM_SHAPES[0], 0)
            yield _mk({'mode': 'badsameas', 'solver': 'nosuchsolver', 'exe': exe, 'installed': {exe: stt}},
                      ENUM_FORMULAS[3], ENUM_SHAPES[0], 0)
    yield _mk({'mode': 'badsameas', 'solver': 'nosuchsolver', 'exe': None, 'installed': {'minisat': 'ok'}},
              ENUM_FORMULAS[3], ENUM_SHAPES[0], 0)
    yield _mk({'mode': 'badsameas', 'solver': 'nosuchsolver', 'exe': 'lingeling', 'installed': {'lingeling': 'ok'}},
              ENUM_FORMULAS[3], ENUM_SHAPES[0], 0)


def enum_auto(tier):
    names = _tree_names()
    i = 0
    for f in (ENUM_FORMULAS[0], ENUM_FORMULAS[3], ENUM_FORMULAS[5], BIG)[:2 if tier == 'quick' else 4]:
        yield _mk({'mode': 'auto', 'installed': {}}, f, ENUM_SHAPES[0], 0)
        yield _mk({'mode': 'auto', 'installed': {'mysolver': 'ok'}}, f, ENUM_SHAPES[0], 0)
        for a in names:
            for sh in ENUM_SHAPES[:2] + ENUM_SHAPES[3:4]:
                i += 1
                yield _mk({'mode': 'auto', 'installed': {a: 'ok'}}, f, sh, i)
        for a, b in zip(names, names[1:] + names[:1]):
            i += 1
            yield _mk({'mode': 'auto', 'installed': {a: 'ok', b: 'ok'}}, f, ENUM_SHAPES[1], i)
            yield _mk({'mode': 'auto', 'installed': {a: 'noexec', b: 'ok'}}, f, ENUM_SHAPES[2], i)
            yield _mk({'mode': 'auto', 'installed': {a: 'badformat', b: 'ok'}}, f, ENUM_SHAPES[0], i)


def enum_tmp(tier):
    i = 0
    for name in _tree_names():
        for f in (ENUM_FORMULAS[3], ENUM_FORMULAS[1])[:1 if tier == 'quick' else 2]:
            for sh in ENUM_SHAPES:
                i += 1
                yield _mk({'mode': 'named', 'solver': name, 'installed': {name: 'ok'}}, f, sh, i)
                yield _mk({'mode': 'sameas', 'solver': name, 'exe': 'mysolver', 'installed': {'mysolver': 'ok'}}, f, sh, i)
            yield _mk({'mode': 'auto', 'installed': {name: 'ok'}}, f, ENUM_SHAPES[0], i)
            yield _mk({'mode': 'named', 'solver': name, 'installed': {name: 'noexec'}}, f, ENUM_SHAPES[0], i)
            yield _mk({'mode': 'named', 'solver': name, 'installed': {}}, f, ENUM_SHAPES[0], i)


_SOLVER_LABELS = ['solver:' + s for s in NAMES]
_CONV = ['stdin-stdout', 'filein-stdout', 'filein-fileout']
_SHAPE_LABELS = ['vlines=1', 'vlines=2', 'vlines=3', 'vlines=4', 'zero-same', 'zero-own', 'zero-none',
                 's-before', 's-middle', 's-after', 'comments-interleaved', 'model-unordered',
                 'minisat-zero-absent', 'minisat-zero-present', 'sat', 'unsat', 'zero-variables',
                 'empty-clause', 'unused-variables', 'ten-or-more-variables', 'exit-10-20',
                 'no-answer:nosline', 'no-answer:unknown', 'no-answer:crash']

SUBCHECKS = [
    SubCheck('named', run_verdict, strategy=strat_named, enumerate_cases=enum_named,
             quick=400, thorough=24000,
             rule="cmd='<supported name> [options]': every name of the interface table x 7 fixed formulas (quick: 4) x 6 answer shapes enumerated, plus generated CNFs (0..12 variables, empty clauses, unused variables, variable blocks) x generated answer shapes (model over 1..4 'v' lines, terminating 0 same line/own line/absent, 's' line before/middle/after, comments and blank lines interleaved, model printed in any order, exit 10/20 or 0, no 's' line, 's UNKNOWN', crash; minisat: SAT/UNSAT/INDET/empty result) x solver present/missing/not executable/not a program, decoy solvers installed; oracle: captured DIMACS = formula (strict reader), options forwarded, (True, model sorted by variable) / (False, None) / RuntimeError, is_satisfiable agrees; non-trivial: unsatisfiable answer, or >=2 variables and model over >=2 'v' lines (or the minisat result file)",
             required_labels=_SOLVER_LABELS + _CONV + _SHAPE_LABELS + ['not-installed', 'not-executable', 'flags',
                                                                      'no-answer:filein-fileout', 'no-answer:filein-stdout',
                                                                      'no-answer:stdin-stdout', 'gray-glucose']),
    SubCheck('sameas', run_verdict, strategy=strat_sameas, enumerate_cases=enum_sameas,
             quick=320, thorough=16000,
             rule="cmd='x [options]' with sameas=<every supported name> (x an unsupported program speaking that solver's convention, or another supported name overridden by sameas); unsupported program without sameas -> RuntimeError; unknown sameas (with cmd, with cmd=None) -> ValueError; same formulas/answer shapes/oracle as 'named'",
             required_labels=['sameas:' + s for s in NAMES] + _CONV + ['sameas', 'unsupported', 'badsameas', 'sameas-overrides', 'sat', 'unsat',
                                                          'zero-variables', 'not-installed', 'no-answer', 'flags',
                                                          'vlines=2', 'vlines=3', 'model-unordered']),
    SubCheck('auto', run_verdict, strategy=strat_auto, enumerate_cases=enum_auto,
             quick=320, thorough=16000,
             rule="cmd=None with a generated set of programs in bin/ (each supported name missing/ok/not executable/not a program, sometimes an unsupported program too; every single solver and every adjacent pair enumerated); oracle: exactly one run, of the first usable solver in supported_satsolvers() order, speaking its own convention; none usable -> RuntimeError",
             required_labels=_SOLVER_LABELS + _CONV + ['auto', 'auto-skips-missing', 'auto-several-installed', 'not-installed',
                                                      'no-answer', 'sat', 'unsat', 'zero-variables']),
    SubCheck('tempfiles', run_tmp, strategy=strat_any, enumerate_cases=enum_tmp,
             quick=400, thorough=24000,
             rule="union of the three generators above; oracle: after solve() and after is_satisfiable() the private TMPDIR (tempfile.tempdir) of the case is empty, whatever the outcome (verdict, RuntimeError, ValueError); non-trivial: a solver was actually run",
             required_labels=['files-passed=0', 'files-passed=1', 'files-passed=2', 'after-RuntimeError', 'after-ValueError',
                              'no-answer:filein-fileout', 'no-answer:filein-stdout', 'no-answer:stdin-stdout',
                              'no-answer:crash', 'not-installed', 'sat', 'unsat'] + _CONV),
]
