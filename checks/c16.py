"""C16 - graph objects stay consistent under any sequence of updates.

A case is an operation log

    {"cls": "Graph", "n": 3, "ops": [["add_edge", 1, 2], ["update_vertex_number", 5],
                                     ["add_edges_from", [[1, 3], [0, 2], [2, 3]], "list"],
                                     ["remove_edge", 2, 1]], "nx": {"mul": 2, "add": -1, "rev": true}}

(``"L"``, ``"R"`` instead of ``"n"`` for BipartiteGraph; ``["add_batch", pairs, "list"|"iter"|"tuple"]`` is
add_edges_from judged without assuming an order of processing, see the batches section; ``["hold", kind, arg, mode]``
and ``["consult", k]`` keep an object returned by the graph and look at it later, see the held views section).
run_case replays the log on
a fresh object and on the model of vlib/graphmodel.py (vertex count + Python set of
edges) and compares every public view with the model after every step; at the end
(and every 8th step) the networkx conversions are checked as well.
"""
import itertools
import os
import sys

from hypothesis import strategies as st

from vlib.core import SubCheck, Violation, Outcome
from vlib import graphmodel as gm

PROPERTY = "C16"
ASSUMPTIONS = [
    "only public methods are observed (number_of_vertices/order/len/vertices/parts, number_of_edges, edges(), has_edge, "
    "neighbors/predecessors/successors/left_neighbors/right_neighbors, the degree functions, is_dag, is_directed, "
    "is_bipartite, to_networkx, from_networkx, normalize); no attribute is read",
    "remove_edge and update_vertex_number exist only in Graph (DirectedGraph.is_dag documents that edges are never "
    "removed), so only Graph histories contain them",
    "gray, both outcomes accepted: a self-loop in a DirectedGraph may be inserted (what the code does; is_dag() must "
    "then be False) or refused with ValueError (what its error message says)",
    "gray: add_edges_from with a pair that must be refused has to raise ValueError; the edges of the list before "
    "that pair may be kept (the code is a plain loop over add_edge) or the whole call may be undone; anything else "
    "is a violation",
    "batches sub-check (operation add_batch = add_edges_from): no order of processing and no atomicity is assumed; a "
    "list with a pair that must be refused has to raise ValueError and may leave any subset of its legal pairs in "
    "the graph (has_edge says which); every view must then agree with the former edges plus that subset",
    "gray: remove_edge of an edge that is not in the graph (including out-of-range arguments) and "
    "update_vertex_number(k) with 0 <= k <= n must leave the graph unchanged, silently or with ValueError",
    "has_edge / `in edges()` are expected to answer False for pairs with a vertex outside the graph (probed up to "
    "two positions outside the range)",
    "the order of edges_ordered_by_successors() is not asserted (no caller in the tree; the name does not pin it down), "
    "only its content",
    "edges() of a simple graph must be sorted as listed and contain every edge once in some orientation; the "
    "orientation itself (u<v) is not asserted",
    "held objects: the objects returned by edges() and edges_ordered_by_successors() answer through the graph (live "
    "views) in the tree, so a held one must describe the graph as it is whenever it is looked at; vertices(), parts() "
    "(ranges), right_neighbors()/left_neighbors() (copies) and neighbors()/predecessors()/successors() (generators, "
    "looked at once, for a vertex that exists when the call is made) are not documented as live: either the state at the "
    "time of the call or the present state is accepted; an iterator over a view that is advanced while the graph "
    "changes is not examined",
    "from_networkx on foreign networkx graphs: labels are an increasing integer relabelling of 1..n; for bipartite "
    "graphs the vertices of each side are inserted in increasing order (the class relabels each side by order of "
    "appearance, Graph/DirectedGraph by sorted label), possibly the whole right side before the left side",
]

NMAX = 12          # vertex growth is capped so that the cost of a step stays bounded


def _tier():
    a = sys.argv
    for i, x in enumerate(a):
        if x == '--tier' and i + 1 < len(a):
            return a[i + 1]
        if x.startswith('--tier='):
            return x.split('=', 1)[1]
    return os.environ.get('VERIF_TIER', 'quick')


# ---------------------------------------------------------------------------
# running a history

def run_case(case):
    clsname = case['cls']
    if clsname not in gm.KINDS:
        raise ValueError("unknown class in case: {}".format(clsname))
    sizes = [case['L'], case['R']] if clsname == 'BipartiteGraph' else [case['n']]
    if min(sizes) < 0:
        try:
            gm.build(clsname, case)
        except ValueError:
            return Outcome(labels=['bad-initial-size'], nontrivial=False, rejected=True)
        raise Violation("{}({}) with a negative size was not refused with ValueError".format(
            clsname, ','.join(map(str, sizes))))
    G, M = gm.build(clsname, case)
    n0 = M.n
    labels = set([clsname])
    if min(sizes) == 0:
        labels.add('initial-size-0')
    head = "{}({})".format(clsname, ','.join(map(str, sizes)))
    gm.check_views(G, M, head + " freshly created")
    grown = False
    refused_batch_at = None
    nxp = case.get('nx') or {'mul': 1, 'add': 0, 'rev': False}
    nxp = {'mul': nxp['mul'], 'add': nxp['add'], 'rev': nxp['rev']}
    ops = case['ops']
    held = []
    looked_last = False
    for i, op in enumerate(ops):
        if op[0] in ('hold', 'consult'):
            ctx = "{} at step {} {}".format(head, i, _show(op))
            labels |= _hold(G, M, op, held, i, ctx) if op[0] == 'hold' else _consult(G, M, op, held, i, ctx)
            looked_last = True
            continue
        if not hasattr(G, 'add_edges_from' if op[0] == 'add_batch' else op[0]):
            labels.add('operation-not-offered')
            continue
        looked_last = False
        ctx = "{} after step {} {}".format(head, i, _show(op))
        before = len(M.E)
        if op[0] == 'add_batch':
            got = _apply_batch(G, M, op, ctx)
            if 'batch-refused' in got:
                refused_batch_at = i
        else:
            got = gm.apply_op(G, M, op, ctx)
            if refused_batch_at is not None and op[0] == 'add_edge':
                labels.add('add_edge-after-refused-batch')
        labels |= got
        if 'growth' in got:
            grown = True
        if 'removal' in got and grown:
            labels.add('removal-after-growth')
        if n0 is not None and 'inserted' in got and op[0] == 'add_edge' and max(op[1], op[2]) > n0:
            labels.add('edge-on-new-vertex')
        if 'refused' in got and len(M.E) == before:
            labels.add('refused-nothing-changed')
        gm.check_views(G, M, ctx)
        for h in held:
            h['events'] |= got & _HELD_EVENTS
            if h['mode'] == 'eager':
                labels |= _check_held(G, M, h, i, ctx, full=False)
        if i % 8 == 7 and i != len(ops) - 1:
            gm.check_conversions(G, M, ctx, nxp)
    if looked_last:
        # looking at a held object is not an update
        gm.check_views(G, M, "{} at the end of {} steps".format(head, len(ops)))
    gm.check_conversions(G, M, "{} at the end of {} steps".format(head, len(ops)), nxp)
    for k, h in enumerate(held):
        labels |= _check_held(G, M, h, len(ops), "{} at the end of {} steps".format(head, len(ops)), full=True)
    if M.kind == 'directed' and M.E and M.is_dag():
        labels.add('dag-at-the-end')
    if M.kind == 'directed' and M.E and not M.is_dag():
        labels.add('not-dag-at-the-end')
    if nxp['rev'] or nxp['mul'] != 1 or nxp['add'] != 0:
        labels.add('networkx-relabelled')
    if M.kind == 'bipartite' and (M.L == 0) != (M.R == 0):
        labels.add('one-empty-side')
    if M.inserted_total >= 5:
        labels.add('5-insertions')
    nontrivial = M.inserted_total >= 5 and (M.kind != 'simple' or 'removal-after-growth' in labels)
    return Outcome(labels=sorted(labels), nontrivial=nontrivial)


def _show(op):
    if op[0] in ('add_edges_from', 'add_batch'):
        return "add_edges_from({}{})".format(op[1], {'iter': ' as iterator', 'tuple': ' as tuple'}.get(
            op[2] if len(op) > 2 else 'list', ''))
    if op[0] == 'hold':
        return "hold {}{} ({})".format(op[1], '({})'.format(op[2]) if op[1] in _HOLD_WITH_ARG else '()', op[3])
    if op[0] == 'consult':
        return "consult held object {}".format(op[1])
    return "{}({})".format(op[0], ','.join(map(str, op[1:])))


# ---------------------------------------------------------------------------
# held views: objects returned by the graph, kept across updates and looked at later
#
#   ["hold", kind, arg, mode]   obtain an object from the graph now and keep it (at most MAX_HELD, then the oldest
#                               is replaced);  mode 'eager': looked at after every later step, 'lazy': only when a
#                               "consult" names it (and at the end of the history)
#   ["consult", k]              look at the held object number k modulo the number of held objects
#
#   kind 'edges'       G.edges()                          the edge views are objects that answer through the graph
#        'edges_succ'  G.edges_ordered_by_successors()    (live views): at every later moment iteration, len() and
#                                                         `in` must describe the graph as it is then, exactly as a
#                                                         view obtained at that moment does
#        'vertices'    G.vertices()  /  'parts'  G.parts()         ranges: the vertices at the time of the call or now
#        'nbrs'        neighbors(u) / predecessors(u) / successors(u) (generators, looked at once) and
#                      right_neighbors(u) / left_neighbors(u) (lists): the neighbours at the time of the call or now
#                      (arg = the vertex, reduced modulo the number of vertices; for bipartite graphs an odd arg
#                      asks for the left neighbours of a right vertex)

MAX_HELD = 4
HOLD_KINDS = {
    'Graph': ('edges', 'vertices', 'nbrs'),
    'DirectedGraph': ('edges', 'edges_succ', 'vertices', 'nbrs'),
    'BipartiteGraph': ('edges', 'parts', 'nbrs'),
}
_HOLD_WITH_ARG = ('nbrs',)
_HELD_EVENTS = frozenset(['growth', 'removal', 'inserted', 'batch-ok', 'batch-refused', 'refused', 'duplicate', 'batch'])


def _model_nbrs(M, which, u):
    if which in ('neighbors',):
        return sorted([b for (a, b) in M.E if a == u] + [a for (a, b) in M.E if b == u])
    if which in ('successors', 'right_neighbors'):
        return sorted(b for (a, b) in M.E if a == u)
    return sorted(a for (a, b) in M.E if b == u)


def _hold(G, M, op, held, step, ctx):
    kind, arg, mode = op[1], op[2], op[3]
    if kind not in HOLD_KINDS[M.clsname]:
        return set(['hold-not-offered'])
    N = (M.L + M.R) if M.kind == 'bipartite' else M.n
    h = {'kind': kind, 'mode': mode, 'step': step, 'n0': N, 'E0': set(M.E), 'events': set(), 'looks': 0,
         'spent': False, 'what': kind + '()', 'E_last': None}
    if kind == 'edges':
        h['obj'] = gm._view(ctx, 'edges()', G.edges)
    elif kind == 'edges_succ':
        h['obj'] = gm._view(ctx, 'edges_ordered_by_successors()', G.edges_ordered_by_successors)
        h['what'] = 'edges_ordered_by_successors()'
    elif kind == 'vertices':
        h['obj'] = gm._view(ctx, 'vertices()', G.vertices)
        h['snap'] = list(range(1, N + 1))
    elif kind == 'parts':
        h['obj'] = gm._view(ctx, 'parts()', G.parts)
        h['snap'] = [list(range(1, M.L + 1)), list(range(1, M.R + 1))]
    else:
        if M.kind == 'bipartite':
            which = 'left_neighbors' if arg % 2 else 'right_neighbors'
            size = M.R if arg % 2 else M.L
        elif M.kind == 'directed':
            which, size = ('predecessors' if arg % 2 else 'successors'), M.n
        else:
            which, size = 'neighbors', M.n
        if size < 1:
            return set(['hold-no-vertex'])
        u = 1 + (arg // 2) % size
        h.update(which=which, u=u, what='{}({})'.format(which, u), snap=_model_nbrs(M, which, u),
                 once=(M.kind != 'bipartite'))
        h['obj'] = gm._view(ctx, h['what'], getattr(G, which), u)
    if len(held) >= MAX_HELD:
        held[step % MAX_HELD] = h
    else:
        held.append(h)
    labels = set(['view-held', 'held:' + kind, 'held-' + mode])
    if N == 0:
        labels.add('view-held-at-0-vertices')
    if not M.E:
        labels.add('view-held-on-edgeless-graph')
    return labels


def _consult(G, M, op, held, step, ctx):
    if not held:
        return set(['consult-nothing-held'])
    return _check_held(G, M, held[op[1] % len(held)], step, ctx, full=True) | set(['view-consulted'])


def _check_held(G, M, h, step, ctx, full):
    """The held object h, looked at now.  full: membership for every ordered pair from -1 to n+2 and a second
    iteration; otherwise len(), one iteration and membership of the listed pairs."""
    kind = h['kind']
    N = (M.L + M.R) if M.kind == 'bipartite' else M.n
    what = "{} obtained at step {} (when the graph had {} vertices and the edges {})".format(
        h['what'], h['step'], h['n0'], sorted(h['E0']))
    labels = set()

    def bad(msg):
        raise Violation("{}: {} {} | model: {}".format(ctx, what, msg, M.describe()), signature='held-' + kind)

    if kind in ('vertices', 'parts'):
        got = gm._view(ctx, what, lambda: [list(p) for p in h['obj']] if kind == 'parts' else list(h['obj']))
        now = [list(range(1, M.L + 1)), list(range(1, M.R + 1))] if kind == 'parts' else list(range(1, N + 1))
        if got != now and got != h['snap']:
            bad("lists {}: neither the vertices at that time nor the vertices now".format(got))
        labels.add('held-range-is-now' if got == now else 'held-range-is-snapshot')
        h['looks'] += 1
        return labels
    if kind == 'nbrs':
        if h['spent']:
            return labels
        now = _model_nbrs(M, h['which'], h['u'])
        got = gm._view(ctx, what, lambda: list(h['obj']))
        if got != now and got != h['snap']:
            bad("lists {}: neither the neighbours at that time, {}, nor the neighbours now, {}".format(
                got, h['snap'], now))
        if now != h['snap']:
            labels.add('held-nbrs-are-now' if got == now else 'held-nbrs-are-snapshot')
        if h['once']:
            h['spent'] = True       # a generator: there is nothing left to look at
        h['looks'] += 1
        return labels

    # ---- a held edge view
    V = h['obj']
    E = M.E
    size = gm._view(ctx, 'len of ' + what, len, V)
    if size != len(E):
        bad("has len() = {} instead of {}".format(size, len(E)))
    listing = gm._view(ctx, 'iteration of ' + what, lambda: gm._pairs(V, ctx, what))
    normed = [M.norm(u, v) for (u, v) in listing]
    if len(set(normed)) != len(normed):
        bad("lists an edge twice: {}".format(listing))
    if set(normed) != E:
        bad("lists {}".format(listing))
    if kind == 'edges':
        if listing != sorted(listing):
            bad("is not sorted: {}".format(listing))
        if M.kind != 'simple' and listing != sorted(E):
            bad("lists {}".format(listing))
    fresh = G.edges() if kind == 'edges' else G.edges_ordered_by_successors()
    flist = gm._pairs(fresh, ctx, 'a fresh ' + h['what'])
    if flist != listing or len(fresh) != size:
        bad("lists {} (len {}) while a view obtained now lists {} (len {})".format(listing, size, flist, len(fresh)))
    if full:
        if M.kind == 'bipartite':
            us, vs = range(-1, M.L + 3), range(-1, M.R + 3)
        else:
            us = vs = range(-1, N + 3)
        probes = [(u, v) for u in us for v in vs]
    else:
        probes = list(listing) + [(v, u) for (u, v) in listing] + sorted(h['E0'] - E)
    for (u, v) in probes:
        want = M.has(u, v)
        got = gm._view(ctx, '({},{}) in {}'.format(u, v, what), lambda: (u, v) in V)
        if bool(got) != want:
            bad("answers {} to `({},{}) in view`".format(got, u, v))
        if bool((u, v) in fresh) != want:
            bad("is consulted when a view obtained now answers {} to `({},{}) in view`".format((u, v) in fresh, u, v))
    if full:
        again = gm._pairs(V, ctx, what)
        if again != listing:
            bad("lists {} and, iterated once more, {}".format(listing, again))
        labels.add('held-edge-view-consulted')
        ev = h['events']
        if 'growth' in ev:
            labels.add('consult-after-growth')
            if any(min(e) > h['n0'] for e in E):
                labels.add('consult-sees-edge-among-new-vertices')
            if h['n0'] == 0 and E:
                labels.add('consult-sees-edges-of-a-graph-held-at-0-vertices')
        if 'removal' in ev:
            labels.add('consult-after-removal')
        if 'inserted' in ev:
            labels.add('consult-after-insertion')
        if 'batch' in ev or 'batch-ok' in ev or 'batch-refused' in ev:
            labels.add('consult-after-batch')
        if 'refused' in ev:
            labels.add('consult-after-refused-call')
        if E != h['E0'] and len(E) == len(h['E0']):
            labels.add('consult-same-count-other-edges')
    if h['looks'] >= 1 and E != h['E_last']:
        labels.add('looked-at-again-after-a-change')
    h['E_last'] = set(E)
    h['looks'] += 1
    return labels


# ---------------------------------------------------------------------------
# generated histories

WEIGHTS = {
    'Graph': ['add_edge'] * 9 + ['remove_edge'] * 4 + ['add_edges_from'] * 3 + ['update_vertex_number'] * 3 +
             ['hold'] * 2 + ['consult'] * 3 + ['grow-and-join'],
    'DirectedGraph': ['add_edge'] * 7 + ['add_edges_from'] * 2 + ['hold', 'consult', 'consult'],
    'BipartiteGraph': ['add_edge'] * 7 + ['add_edges_from'] * 2 + ['hold', 'consult', 'consult'],
}
_H_KIND = {c: st.sampled_from(HOLD_KINDS[c] + ('edges', 'edges')) for c in HOLD_KINDS}
_H_ARG = st.integers(0, 23)
_H_MODE = st.sampled_from(['lazy', 'lazy', 'eager'])
_H_WHICH = st.integers(0, MAX_HELD - 1)
_H_GROW = st.integers(2, 3)


def _draw_pair(draw, M):
    """A pair of arguments: mostly legal vertices, sometimes an edge that is already
    there (either orientation for simple graphs), sometimes anything in -1..n+2."""
    if M.kind == 'bipartite':
        hu, hv = M.L, M.R
    else:
        hu = hv = M.n
    mode = draw(st.sampled_from(['legal', 'legal', 'legal', 'present', 'any', 'any']))
    if mode == 'present' and M.E:
        u, v = draw(st.sampled_from(sorted(M.E)))
        if M.kind == 'simple' and draw(st.booleans()):
            u, v = v, u
        return u, v
    if mode == 'legal' and hu >= 1 and hv >= 1:
        return draw(st.integers(1, hu)), draw(st.integers(1, hv))
    return draw(st.integers(-1, hu + 2)), draw(st.integers(-1, hv + 2))


def _gen_insert(M, u, v):
    if M.classify(u, v) != 'bad':
        M.E.add(M.norm(u, v))


@st.composite
def _history(draw, clsname, max_steps):
    case = {'cls': clsname}
    if clsname == 'BipartiteGraph':
        case['L'] = draw(st.integers(0, 5))
        case['R'] = draw(st.integers(0, 5))
        M = gm.Model(clsname, L=case['L'], R=case['R'])
    else:
        case['n'] = draw(st.integers(0, 6))
        M = gm.Model(clsname, n=case['n'])
    # M is used here only to aim the arguments (existing edges, current size); the
    # oracle rebuilds its own model from the log.
    ops = []
    nsteps = draw(st.integers(0, max_steps))
    for _ in range(nsteps):
        name = draw(st.sampled_from(WEIGHTS[clsname]))
        if name == 'add_edge':
            u, v = _draw_pair(draw, M)
            ops.append(['add_edge', u, v])
            _gen_insert(M, u, v)
        elif name == 'remove_edge':
            u, v = _draw_pair(draw, M)
            ops.append(['remove_edge', u, v])
            M.E.discard(M.norm(u, v))
        elif name == 'hold':
            ops.append(['hold', draw(_H_KIND[clsname]), draw(_H_ARG), draw(_H_MODE)])
        elif name == 'consult':
            ops.append(['consult', draw(_H_WHICH)])
        elif name == 'grow-and-join':
            # growth by 2 or 3 vertices and an edge between two of the new vertices
            k = draw(_H_GROW)
            if M.n + k <= NMAX:
                ops.append(['update_vertex_number', M.n + k])
                ops.append(['add_edge', M.n + k, M.n + 1] if k == 3 else ['add_edge', M.n + 1, M.n + 2])
                M.n += k
                _gen_insert(M, ops[-1][1], ops[-1][2])
        elif name == 'update_vertex_number':
            k = draw(st.integers(-1, min(M.n + 3, NMAX)))
            ops.append(['update_vertex_number', k])
            if k > M.n:
                M.n = k
        else:
            k = draw(st.integers(0, 5))
            pairs = [list(_draw_pair(draw, M)) for _ in range(k)]
            if draw(st.booleans()):
                # a pair that must be refused, in the middle of the list
                if M.kind == 'bipartite':
                    badp = draw(st.sampled_from([[0, 1], [M.L + 1, 1], [1, M.R + 1], [1, 0], [-1, -1]]))
                elif M.kind == 'simple':
                    badp = draw(st.sampled_from([[0, 1], [M.n + 1, 1], [1, M.n + 1], [1, 1], [1, 0], [M.n + 2, -1]]))
                else:
                    badp = draw(st.sampled_from([[0, 1], [M.n + 1, 1], [1, M.n + 1], [1, 0], [M.n + 2, -1]]))
                pairs.insert(len(pairs) // 2, badp)
            ops.append(['add_edges_from', pairs, draw(st.sampled_from(['list', 'iter']))])
            for (u, v) in pairs:
                if M.classify(u, v) == 'bad':
                    break
                _gen_insert(M, u, v)
    case['ops'] = ops
    case['nx'] = {'mul': draw(st.integers(1, 3)), 'add': draw(st.integers(-3, 3)), 'rev': draw(st.booleans())}
    return case


def _strategy(clsname):
    def make():
        steps = 50 if _tier() == 'quick' else 200
        # most histories short enough to leave the graph sparse, some long
        return st.one_of(_history(clsname, 12), _history(clsname, steps), _history(clsname, steps))
    return make


# ---------------------------------------------------------------------------
# complete enumeration of the short histories over a small alphabet

def _alphabet(clsname):
    if clsname == 'Graph':
        r = range(0, 4)
        ops = [['add_edge', u, v] for u in r for v in r]
        ops += [['remove_edge', u, v] for u in r for v in r]
        ops += [['update_vertex_number', k] for k in range(-1, 4)]
        ops += [['add_edges_from', [[1, 2], [2, 2], [1, 3]], 'list'],
                ['add_edges_from', [[2, 1], [3, 1], [2, 3]], 'iter']]
        starts = [{'n': n} for n in (0, 1, 2)]
    elif clsname == 'DirectedGraph':
        r = range(0, 5)
        ops = [['add_edge', u, v] for u in r for v in r]
        ops += [['add_edges_from', [[1, 2], [2, 0], [2, 1]], 'list'],
                ['add_edges_from', [[1, 2], [1, 3], [2, 3]], 'iter'],
                ['add_edges_from', [[1, 2], [2, 2], [3, 2]], 'list']]
        starts = [{'n': n} for n in (0, 1, 2, 3)]
    else:
        r = range(0, 4)
        ops = [['add_edge', u, v] for u in r for v in r]
        ops += [['add_edges_from', [[1, 1], [1, 3], [2, 1]], 'list'],
                ['add_edges_from', [[2, 2], [1, 2], [2, 1]], 'iter']]
        starts = [{'L': a, 'R': b} for a in (0, 1, 2) for b in (0, 1, 2)]
    return starts, ops


def _enumerate(clsname):
    def gen(tier):
        starts, ops = _alphabet(clsname)
        maxlen = 2 if tier == 'quick' else 3
        if clsname == 'BipartiteGraph':
            yield {'cls': clsname, 'L': -1, 'R': 2, 'ops': [], 'nx': None}
            yield {'cls': clsname, 'L': 2, 'R': -1, 'ops': [], 'nx': None}
        else:
            yield {'cls': clsname, 'n': -1, 'ops': [], 'nx': None}
        k = 0
        for s in starts:
            for length in range(0, maxlen + 1):
                for seq in itertools.product(ops, repeat=length):
                    k += 1
                    c = {'cls': clsname, 'ops': [list(o) for o in seq],
                         'nx': {'mul': 1 + k % 2, 'add': k % 3 - 1, 'rev': bool(k % 4 >= 2)}}
                    c.update(s)
                    yield c
        for c in _view_histories(clsname, tier):
            yield c
    return gen


def _view_scripts(clsname):
    """Short update scripts: functions of the current sizes (a dict) giving the operations."""
    if clsname == 'Graph':
        def grow(k, edges):
            def f(z):
                n = z['n']
                z['n'] = n + k
                return [['update_vertex_number', n + k]] + [['add_edge', n + a, n + b] for a, b in edges] + \
                    ([['add_edge', 1, n + 1]] if n >= 1 and len(edges) > 1 else [])
            return f
        return [
            grow(2, [(1, 2)]),                                   # two new vertices and the edge between them
            grow(3, [(2, 3), (3, 1)]),                           # edges among new vertices and old-new
            lambda z: [['add_edge', 1, 2], ['add_edge', 3, 1], ['add_edge', z['n'], 1]],
            lambda z: [['remove_edge', 2, 1], ['remove_edge', 1, z['n']]],
            lambda z: [['add_edges_from', [[z['n'], 1], [2, 3], [z['n'] + 1, 1], [1, 2]], 'list']],
            grow(1, []),
            lambda z: [['add_batch', [[2, 1], [max(z['n'], 1), 2], [3, 2]], 'iter'], ['remove_edge', 1, 2],
                       ['add_edge', 2, 3]],
            lambda z: [['add_edge', 0, 1], ['add_edge', 2, 1], ['add_edge', 1, 2], ['update_vertex_number', z['n']]],
        ], [{'n': n} for n in (0, 1, 2, 3)], [['add_edge', 1, 2]]
    if clsname == 'DirectedGraph':
        return [
            lambda z: [['add_edge', 1, 2], ['add_edge', 2, 3]],
            lambda z: [['add_edge', z['n'], 1]],
            lambda z: [['add_edge', 1, 1], ['add_edge', 2, 1]],
            lambda z: [['add_edges_from', [[1, z['n']], [2, z['n']], [1, 3]], 'iter']],
            lambda z: [['add_edges_from', [[1, 2], [2, 4], [z['n'] + 1, 1], [3, 4]], 'list']],
            lambda z: [['add_edge', 0, 1], ['add_edge', 1, 2], ['add_batch', [[3, 1], [3, 2], [1, 3]], 'tuple']],
        ], [{'n': n} for n in (0, 1, 3, 4)], [['add_edge', 1, 2]]
    return [
        lambda z: [['add_edge', 1, 1], ['add_edge', 1, 2]],
        lambda z: [['add_edge', z['L'], z['R']], ['add_edge', 2, 1]],
        lambda z: [['add_edges_from', [[1, z['R']], [2, 1], [2, 2]], 'list']],
        lambda z: [['add_edges_from', [[1, 1], [z['L'] + 1, 1], [2, 3]], 'iter']],
        lambda z: [['add_edge', z['R'] + 1, 1], ['add_edge', 1, 1], ['add_edge', 1, 0]],
        lambda z: [['add_batch', [[2, 3], [1, 3], [1, 1]], 'tuple'], ['add_edge', 2, 2]],
    ], [{'L': 0, 'R': 0}, {'L': 0, 'R': 2}, {'L': 2, 'R': 3}, {'L': 3, 'R': 1}], [['add_edge', 1, 1]]


def _view_histories(clsname, tier):
    """[edge] hold script-a consult script-b consult [hold script-c consult]: every pair (a, b) of scripts from every
    start, the kinds of held object and the two modes in rotation (thorough tier: every kind and mode)."""
    scripts, starts, pre = _view_scripts(clsname)
    kinds = HOLD_KINDS[clsname]
    k = 0
    for s in starts:
        for with_pre in (0, 1):
            for a in range(len(scripts)):
                for b in range(len(scripts)):
                    k += 1
                    if tier == 'thorough':
                        variants = [(kd, md) for kd in kinds for md in ('lazy', 'eager')]
                    else:
                        variants = [((('edges',) + kinds)[k % (len(kinds) + 1)], ('lazy', 'eager')[(k // 5) % 2])]
                    for kd, md in variants:
                        z = dict(s)
                        ops = [list(o) for o in pre] if with_pre else []
                        ops.append(['hold', kd, k, md])
                        ops += scripts[a](z)
                        ops.append(['consult', 0])
                        ops += scripts[b](z)
                        ops.append(['consult', 0])
                        if k % 3 == 0:
                            # a second object, obtained in the middle of the history; both are looked at afterwards
                            ops.append(['hold', 'edges_succ' if (clsname == 'DirectedGraph' and k % 2) else 'edges', 0,
                                        'lazy'])
                            ops += scripts[(a + b + 1) % len(scripts)](z)
                            ops += [['consult', 1], ['consult', 0]]
                        c = {'cls': clsname, 'ops': ops, 'nx': {'mul': 1 + k % 2, 'add': k % 3 - 1, 'rev': bool(k % 4 >= 2)}}
                        c.update(s)
                        yield c


COMMON_RULE = ("model = vertex count + Python set of edges; after every step every public view is compared with "
               "the model (counts, edges() sorted/duplicate-free, has_edge and `in edges()` for every ordered pair "
               "from -1 to n+2, neighbour lists sorted, degrees, to_networkx); a call that must be refused has to "
               "raise ValueError and leave every view as it was; every 8th step and at the end "
               "from_networkx(to_networkx()), normalize(to_networkx()), normalize(G) is G and normalize of a "
               "relabelled networkx graph built from the model must give the model again. ")

VIEW_RULE = ("HELD VIEWS: the histories also contain `hold` (keep the object returned now by edges(), "
             "edges_ordered_by_successors(), vertices() / parts(), a neighbour generator or list; at most 4 are kept) and "
             "`consult k` steps (generated: about 1 step in 5; enumerated: from every start [an edge] hold, script a, consult, "
             "script b, consult, [a second hold, script c, consult both] for every pair (a, b) of 6-8 update scripts - growth by "
             "1..3 vertices with edges among the new vertices and between old and new ones, insertions, removals, batches "
             "with and without a forbidden pair, refused calls, duplicates - with the kind of object and the mode in "
             "rotation, thorough: every kind and mode). A held edge view is looked at when consulted, at the end of the "
             "history and (mode eager) after every later step: len(), iteration (sorted, each edge once, twice the same), "
             "and `in` for every ordered pair from -1 to n+2 must equal the model at that moment and the answers of a view "
             "obtained at that moment. Held ranges and neighbour lists/generators (snapshots in the tree) must show the "
             "graph at the time of the call or as it is now. ")
_VIEW_LABELS = ['view-held', 'view-consulted', 'held:edges', 'held:nbrs', 'held-eager', 'held-lazy',
                'held-edge-view-consulted', 'consult-after-insertion', 'consult-after-batch', 'consult-after-refused-call',
                'looked-at-again-after-a-change', 'view-held-at-0-vertices']

SUBCHECKS = [
    SubCheck('simple', run_case, strategy=_strategy('Graph'), enumerate_cases=_enumerate('Graph'),
             quick=4000, thorough=16000,
             rule="Graph(n), n=0..6, histories of 0..50 (thorough 0..200) calls of add_edge / remove_edge / "
                  "add_edges_from (half of them with a forbidden pair in the middle, list or iterator) / "
                  "update_vertex_number(-1..n+3, capped at 12), arguments legal, already present (either "
                  "orientation) or anything in -1..n+2; plus every history of length <=2 (thorough <=3) over 39 "
                  "operations from n=0,1,2. " + COMMON_RULE + VIEW_RULE +
                  "Non-trivial: >=5 successful insertions and a removal after a growth.",
             required_labels=['refused', 'refused-nothing-changed', 'duplicate', 'duplicate-other-orientation',
                              'removal', 'removal-other-orientation', 'remove-absent', 'growth',
                              'growth-not-above', 'growth-negative-refused', 'removal-after-growth',
                              'edge-on-new-vertex', 'selfloop-refused', 'refused-zero', 'batch-ok',
                              'batch-refused', 'batch-bad-in-the-middle', 'initial-size-0',
                              'networkx-relabelled', '5-insertions', 'bad-initial-size'] + _VIEW_LABELS +
             ['held:vertices', 'consult-after-growth', 'consult-after-removal', 'consult-sees-edge-among-new-vertices',
              'consult-sees-edges-of-a-graph-held-at-0-vertices', 'consult-same-count-other-edges']),
    SubCheck('directed', run_case, strategy=_strategy('DirectedGraph'), enumerate_cases=_enumerate('DirectedGraph'),
             quick=4000, thorough=16000,
             rule="DirectedGraph(n), n=0..6, histories of 0..50 (thorough 0..200) calls of add_edge / "
                  "add_edges_from with forward edges, back edges, loops, duplicates and out-of-range arguments; "
                  "plus every history of length <=2 (thorough <=3) over 28 operations from n=0..3. " + COMMON_RULE + VIEW_RULE +
                  "is_dag() must be True exactly when every inserted edge has src < dest (also after refused back "
                  "edges). Non-trivial: >=5 successful insertions.",
             required_labels=['refused', 'refused-nothing-changed', 'duplicate', 'back-edge', 'loop',
                              'dag-at-the-end', 'not-dag-at-the-end', 'batch-ok', 'batch-refused',
                              'batch-bad-in-the-middle', 'initial-size-0', 'networkx-relabelled',
                              '5-insertions', 'refused-zero', 'bad-initial-size'] + _VIEW_LABELS +
             ['held:edges_succ', 'held:vertices']),
    SubCheck('bipartite', run_case, strategy=_strategy('BipartiteGraph'), enumerate_cases=_enumerate('BipartiteGraph'),
             quick=4000, thorough=16000,
             rule="BipartiteGraph(L,R), L,R=0..5, histories of 0..50 (thorough 0..200) calls of add_edge / "
                  "add_edges_from, left argument in -1..L+2 and right argument in -1..R+2; plus every history of "
                  "length <=2 (thorough <=3) over 18 operations from L,R in 0..2. " + COMMON_RULE + VIEW_RULE +
                  "Non-trivial: >=5 successful insertions.",
             required_labels=['refused', 'refused-nothing-changed', 'duplicate', 'swapped-sides-refused',
                              'batch-ok', 'batch-refused', 'batch-bad-in-the-middle', 'initial-size-0',
                              'one-empty-side', 'networkx-relabelled', '5-insertions', 'refused-zero',
                              'bad-initial-size'] + _VIEW_LABELS + ['held:parts']),
]


# ---------------------------------------------------------------------------
# batches: add_edges_from with 1..100 pairs (beyond 32 and 64), any order, duplicates, one forbidden pair
#
# The operation ["add_batch", pairs, "list"|"iter"|"tuple"] is add_edges_from judged by a rule that does not
# assume an order of processing (nothing documents add_edges_from but its code):
#   * no forbidden pair in the list -> the call returns and every pair of the list is in the graph;
#   * a pair that must be refused   -> ValueError; the graph then holds its former edges plus ANY subset of
#     the legal pairs of the list (has_edge says which), and every view has to agree with exactly that set;
#   * only a gray pair (a loop in a directed graph) -> either of the two.
# Afterwards the history goes on (add_edge, remove_edge, growth, another batch) on the same model.

BATCH_SIZES_QUICK = (1, 2, 5, 31, 32, 33, 63, 64, 65, 100)
BATCH_SIZES_THOROUGH = tuple(range(1, 101))
BATCH_ORDERS = ('sorted', 'reversed', 'shuffled', 'by-second')
BATCH_BAD = {
    'Graph': ('none', 'above-range', 'zero', 'self-loop', 'negative'),
    'DirectedGraph': ('none', 'above-range', 'zero', 'negative', 'gray-loop'),
    'BipartiteGraph': ('none', 'above-left', 'above-right', 'zero', 'wrong-side'),
}
BATCH_POS = ('first', 'middle', 'last', 'random')


def _apply_batch(G, M, op, ctx):
    pairs = [tuple(p) for p in op[1]]
    how = op[2] if len(op) > 2 else 'list'
    arg = {'iter': iter(list(pairs)), 'tuple': tuple(pairs)}.get(how, list(pairs))
    kinds = [M.classify(u, v) for (u, v) in pairs]
    legal = set(M.norm(u, v) for (u, v), k in zip(pairs, kinds) if k != 'bad')
    labels = set(['batch'])
    n = len(pairs)
    labels.add('batch-size<32' if n < 32 else 'batch-size-32..63' if n < 64 else 'batch-size>=64')
    normed = [M.norm(u, v) for (u, v), k in zip(pairs, kinds) if k != 'bad']
    if len(set(normed)) < len(normed):
        labels.add('batch-repeats-a-pair')
    if any(e in M.E for e in normed):
        labels.add('batch-repeats-an-edge-of-the-graph')
    good = [p for p, k in zip(pairs, kinds) if k != 'bad']
    labels.add('batch-given-sorted' if good == sorted(good) else 'batch-given-unsorted')
    if 'bad' in kinds:
        k = kinds.index('bad')
        labels.add('batch-bad-first' if k == 0 else 'batch-bad-last' if k == n - 1 else 'batch-bad-inside')
    ok, res = gm._call(ctx, G.add_edges_from, arg)
    if ok:
        if 'bad' in kinds:
            raise Violation("{}: add_edges_from of {} pairs with the forbidden pair {} did not raise ValueError | model: {}".format(
                ctx, n, pairs[kinds.index('bad')], M.describe()))
        new = legal - M.E
        M.inserted_total += len(new)
        M.E |= legal
        labels.add('batch-ok')
        if new:
            labels.add('inserted')
        return labels
    if 'bad' not in kinds and 'gray' not in kinds:
        raise Violation("{}: add_edges_from of {} legal pairs raised ValueError({}) | model: {}".format(
            ctx, n, res, M.describe()))
    seen = set(e for e in legal if G.has_edge(e[0], e[1]))
    kept = seen - M.E
    labels.update(('refused', 'batch-refused'))
    if 'bad' in kinds:
        prefix = set(M.norm(u, v) for (u, v) in pairs[:kinds.index('bad')]) - M.E
        labels.add('batch-kept-nothing' if not kept else 'batch-kept-the-pairs-before-the-bad-one' if kept == prefix
                   else 'batch-kept-another-subset')
        if n >= 32:
            labels.add('big-batch-refused')
            if kinds.index('bad') >= 2 and 'batch-given-unsorted' in labels:
                labels.add('big-unsorted-batch-refused-after-legal-pairs')
    if kept:
        labels.add('inserted')
    M.inserted_total += len(kept)
    M.E |= kept
    return labels


def _universe(clsname, sizes):
    if clsname == 'BipartiteGraph':
        return [(u, v) for u in range(1, sizes[0] + 1) for v in range(1, sizes[1] + 1)]
    n = sizes[0]
    if clsname == 'Graph':
        return [(u, v) for u in range(1, n + 1) for v in range(u + 1, n + 1)]
    return [(u, v) for u in range(1, n + 1) for v in range(1, n + 1) if u != v]


def _bad_pair(rng, clsname, sizes, kind):
    if clsname == 'BipartiteGraph':
        L, Rr = sizes
        if kind == 'above-left':
            return [L + rng.randint(1, 2), rng.randint(1, max(Rr, 1))]
        if kind == 'above-right':
            return [rng.randint(1, max(L, 1)), Rr + rng.randint(1, 2)]
        if kind == 'wrong-side' and L != Rr:
            # a legal edge (u, v) given as (v, u), with v not a left vertex or u not a right vertex
            if Rr > L:
                return [rng.randint(L + 1, Rr), rng.randint(1, max(L, 1))]
            return [rng.randint(1, max(Rr, 1)), rng.randint(Rr + 1, L)]
        return [[0, rng.randint(1, max(Rr, 1))], [rng.randint(1, max(L, 1)), 0]][rng.randint(0, 1)]
    n = sizes[0]
    x = rng.randint(1, max(n, 1))
    if kind == 'above-range':
        return [[n + rng.randint(1, 2), x], [x, n + rng.randint(1, 2)]][rng.randint(0, 1)]
    if kind == 'negative':
        return [[-x, x], [x, -1]][rng.randint(0, 1)]
    if kind in ('self-loop', 'gray-loop'):
        return [x, x]
    return [[0, x], [x, 0]][rng.randint(0, 1)]


def make_batch_case(rseed, clsname, size, order, bad, pos, dups, pre, how='list'):
    """An explicit operation log: some edges first (pre), the batch, then more calls on the same object."""
    import random
    rng = random.Random(rseed)
    case = {'cls': clsname}
    if clsname == 'BipartiteGraph':
        sizes = rng.choice([(3, 4), (5, 8), (8, 8), (10, 12), (12, 9), (2, 20)])
        if bad == 'wrong-side' and sizes[0] == sizes[1]:
            sizes = (10, 12)
        case['L'], case['R'] = sizes
    else:
        sizes = (rng.choice([5, 8, 12, 16, 20] if clsname == 'Graph' else [4, 7, 10, 14]),)
        case['n'] = sizes[0]
    U = _universe(clsname, sizes)
    simple = clsname == 'Graph'
    orient = (lambda p: [p[1], p[0]] if (simple and rng.random() < 0.5) else [p[0], p[1]])
    ops = []
    present = []
    if pre >= 1:
        for p in rng.sample(U, min(len(U), rng.randint(1, 6))):
            ops.append(['add_edge'] + orient(p))
            present.append(p)
    if pre >= 2:
        extra = rng.sample(U, min(len(U), rng.randint(2, 40)))
        ops.append(['add_batch', [orient(p) for p in extra], 'list'])
        present.extend(extra)
        if simple and present:
            p = rng.choice(present)
            ops.append(['remove_edge'] + orient(p))
    # ---- the batch
    nbad = 0 if bad == 'none' else 1
    room = size - nbad
    distinct = room if dups == 0 else max(1, (room * 2) // 3) if room else 0
    distinct = min(distinct, len(U))
    chosen = rng.sample(U, distinct)
    if dups and present and chosen:
        chosen[0] = rng.choice(present)              # a pair that is already an edge of the graph
        chosen = list(dict.fromkeys(chosen))
    if order == 'sorted':
        chosen.sort()
    elif order == 'reversed':
        chosen.sort(reverse=True)
    elif order == 'by-second':
        chosen.sort(key=lambda p: (p[1], -p[0]))
    pairs = [orient(p) for p in chosen]
    while len(pairs) < room and chosen:                # repeated pairs, anywhere
        pairs.insert(rng.randint(0, len(pairs)), orient(rng.choice(chosen)))
    if nbad:
        k = {'first': 0, 'last': len(pairs), 'middle': len(pairs) // 2}.get(pos)
        if k is None:
            k = rng.randint(0, len(pairs))
        pairs.insert(k, _bad_pair(rng, clsname, sizes, bad))
    main_at = len(ops)
    ops.append(['add_batch', pairs, how])
    # ---- afterwards
    touched = chosen or U[:1]
    for _ in range(rng.randint(3, 7)):
        r = rng.random()
        if r < 0.3 and touched:
            ops.append(['add_edge'] + orient(rng.choice(touched)))         # a pair of the batch again
        elif r < 0.6 and U:
            u = rng.choice(touched)[0] if touched else 1
            near = [p for p in U if u in p]
            ops.append(['add_edge'] + orient(rng.choice(near or U)))        # at a vertex the batch touched
        elif r < 0.7:
            ops.append(['add_edge'] + _bad_pair(rng, clsname, sizes, BATCH_BAD[clsname][rng.randint(1, 3)]))
        elif r < 0.8 and simple and touched:
            ops.append(['remove_edge'] + orient(rng.choice(touched)))
        elif r < 0.87 and simple:
            ops.append(['update_vertex_number', sizes[0] + 1])
            ops.append(['add_edge', sizes[0] + 1, rng.randint(1, sizes[0])])
        elif U:
            again = rng.sample(U, min(len(U), rng.choice([3, 33, 70])))
            ops.append(['add_batch', [orient(p) for p in again], rng.choice(['list', 'iter'])])
    # ---- an edge view obtained before the batch (and, every other case, one obtained on the new object) is
    # looked at right after the batch and at the end of the history (positions fixed by rseed, no random draw)
    kind = 'edges_succ' if (clsname == 'DirectedGraph' and rseed % 4 == 1) else 'edges'
    ops.append(['consult', 0])
    ops.append(['consult', 1])
    ops.insert(main_at + 1, ['consult', rseed % 2])
    ops.insert(main_at, ['hold', kind, 0, 'eager' if rseed % 3 == 0 else 'lazy'])
    if rseed % 2:
        ops.insert(0, ['hold', 'edges', 0, 'lazy'])
    case['ops'] = ops
    case['nx'] = {'mul': 1 + rseed % 3, 'add': rseed % 5 - 2, 'rev': bool(rseed % 2)}
    case['meta'] = {'size': size, 'order': order, 'bad': bad, 'pos': pos, 'dups': dups, 'pre': pre}
    return case


def run_batch_case(case):
    out = run_case(case)
    meta = case.get('meta') or {}
    labels = list(out.labels)
    if meta:
        labels += ['bad:' + meta['bad'], 'order:' + meta['order'], 'pos:' + meta['pos'] if meta['bad'] != 'none' else 'pos:-']
    batches = [op for op in case['ops'] if op[0] == 'add_batch']
    big = any(len(op[1]) >= 5 for op in batches)
    return Outcome(labels=sorted(set(labels)), nontrivial=big and '5-insertions' in out.labels, rejected=out.rejected)


def enum_batches(tier):
    k = 0
    sizes = BATCH_SIZES_QUICK if tier == 'quick' else BATCH_SIZES_THOROUGH
    orders = BATCH_ORDERS[:3] if tier == 'quick' else BATCH_ORDERS
    for clsname in ('Graph', 'DirectedGraph', 'BipartiteGraph'):
        for size in sizes:
            for order in orders:
                for bad in BATCH_BAD[clsname][:4 if tier == 'quick' else 5]:
                    for pos in (('-',) if bad == 'none' else BATCH_POS[:3] if tier == 'quick' else BATCH_POS):
                        k += 1
                        yield make_batch_case(7 * k + 1, clsname, size, order, bad, pos, dups=k % 2, pre=k % 3,
                                              how=('list', 'iter', 'tuple')[k % 3])
    if tier == 'quick':
        # the fifth kind of forbidden pair of each class, at the sizes around the thresholds
        for clsname in ('Graph', 'DirectedGraph', 'BipartiteGraph'):
            for size in (2, 31, 33, 64, 100):
                for pos in BATCH_POS:
                    k += 1
                    yield make_batch_case(7 * k + 1, clsname, size, BATCH_ORDERS[k % 4], BATCH_BAD[clsname][4], pos,
                                          dups=k % 2, pre=k % 3)


_B_BIG = st.integers(0, 10 ** 6)
_B_SIZE = st.one_of(st.integers(1, 100), st.sampled_from([31, 32, 33, 63, 64, 65, 99, 100]))
_B_CLS = st.sampled_from(['Graph', 'DirectedGraph', 'BipartiteGraph'])


@st.composite
def _batch_strategy(draw):
    clsname = draw(_B_CLS)
    size = draw(_B_SIZE)
    a, b = draw(_B_BIG), draw(_B_BIG)
    bad = BATCH_BAD[clsname][a % 5] if (a // 5) % 4 else 'none'
    return make_batch_case(b, clsname, size, BATCH_ORDERS[(a // 20) % 4], bad, BATCH_POS[(a // 80) % 4],
                           dups=(a // 320) % 2, pre=(a // 640) % 3, how=('list', 'iter', 'tuple')[(a // 1920) % 3])


SUBCHECKS.append(
    SubCheck('batches', run_batch_case, strategy=lambda: _batch_strategy(), enumerate_cases=enum_batches,
             quick=500, thorough=20000,
             rule="add_edges_from on Graph(5..20), DirectedGraph(4..14), BipartiteGraph(3x4 .. 10x12, 2x20) with a list, "
                  "an iterator or a tuple of 1..100 pairs (enumerated quick: 1, 2, 5, 31, 32, 33, 63, 64, 65, 100; thorough: "
                  "every size 1..100; generated: any size), given sorted, reversed, shuffled or sorted by second "
                  "endpoint, simple graphs with either orientation of each pair, with or without repeated pairs inside "
                  "the list and pairs that are already edges, and with no or one forbidden pair (vertex above the "
                  "range, 0, negative, self-loop in a simple graph, right/left swapped out of range in a bipartite "
                  "graph; a loop in a directed graph is gray) at the first, middle, last or a random position; the graph "
                  "is empty or holds a few edges / an earlier batch / a removal before; after the batch 3..7 more "
                  "calls: add_edge of a pair of the batch, of a pair at a vertex the batch touched, of a forbidden "
                  "pair, remove_edge, update_vertex_number + an edge on the new vertex (Graph), another batch of 3, 33 "
                  "or 70 pairs; an edge view obtained just before the batch (every other case also one obtained on the new "
                  "object) is consulted right after the batch and at the end (see HELD VIEWS of the other sub-checks). "
                  "Oracle: the model; a batch without forbidden pair must return and insert every pair; a "
                  "batch with a forbidden pair must raise ValueError and may leave ANY subset of its legal pairs in "
                  "the graph (has_edge tells which, no order of processing or atomicity is assumed): the model becomes "
                  "old edges + that subset; then, as after every step, " + COMMON_RULE +
                  "Non-trivial: a batch of >=5 pairs and >=5 successful insertions.",
             required_labels=['Graph', 'DirectedGraph', 'BipartiteGraph', 'batch-size<32', 'batch-size-32..63',
                              'batch-size>=64', 'batch-ok', 'batch-refused', 'big-batch-refused',
                              'big-unsorted-batch-refused-after-legal-pairs', 'batch-bad-first', 'batch-bad-inside',
                              'batch-bad-last', 'batch-repeats-a-pair', 'batch-repeats-an-edge-of-the-graph',
                              'batch-given-sorted', 'batch-given-unsorted', 'add_edge-after-refused-batch',
                              'bad:above-range', 'bad:zero', 'bad:negative', 'bad:self-loop', 'bad:gray-loop',
                              'bad:above-left', 'bad:above-right', 'bad:wrong-side', 'bad:none', 'order:sorted',
                              'order:reversed', 'order:shuffled', 'order:by-second', 'removal', 'growth',
                              'duplicate', '5-insertions', 'networkx-relabelled', 'view-held', 'view-consulted',
                              'consult-after-batch', 'held:edges_succ', 'held-eager', 'held-lazy']))
