"""C16 - graph objects stay consistent under any sequence of updates.

A case is an operation log

    {"cls": "Graph", "n": 3, "ops": [["add_edge", 1, 2], ["update_vertex_number", 5],
                                     ["add_edges_from", [[1, 3], [0, 2], [2, 3]], "list"],
                                     ["remove_edge", 2, 1]], "nx": {"mul": 2, "add": -1, "rev": true}}

(``"L"``, ``"R"`` instead of ``"n"`` for BipartiteGraph; ``["add_batch", pairs, "list"|"iter"|"tuple"]`` is
add_edges_from judged without assuming an order of processing, see the batches section; ``["hold", kind, arg, mode]``
and ``["consult", k]`` keep an object returned by the graph and look at it later, see the held views section;
with ``"foreign": {...}`` instead of ``"n"`` the initial object is the conversion of a networkx graph (or of something
else) described by its node list and edge list, and ``["reconvert", ...]`` replaces the object by a conversion in the
middle of the history, see the conversion section; ``["fork", method, param]`` adds a copy of the object to the live
objects of the history and ``["switch", k]`` addresses the following operations to live object k, see the copies
section; ``["live_batch", shape, arg, "gen"|"iterable"]`` is add_edges_from of an iterable that reads and changes the
same graph while it is consumed, see the live batches section).
run_case replays the log on
a fresh object and on the model of vlib/graphmodel.py (vertex count + Python set of
edges) and compares every public view with the model after every step; at the end
(and every 8th step) the networkx conversions are checked as well.
"""
import itertools
import os
import sys

from hypothesis import strategies as st

from vlib.core import SubCheck, Violation, Outcome, derive_seed, exception_in_tree, short_tb
from vlib import graphmodel as gm

PROPERTY = "C16"
ASSUMPTIONS = [
    "only public methods are observed (number_of_vertices/order/len/vertices/parts, number_of_edges, edges(), has_edge, "
    "neighbors/predecessors/successors/left_neighbors/right_neighbors, the degree functions, is_dag, is_directed, "
    "is_bipartite, to_networkx, from_networkx, normalize); no attribute is read",
    "remove_edge and update_vertex_number exist only in Graph (DirectedGraph.is_dag documents that edges are never "
    "removed), so only Graph histories contain them",
    "gray, both outcomes accepted: a self-loop in a DirectedGraph may be inserted (what the code does; is_dag() must "
    "then be False) or refused with ValueError (what its error message says)",
    "gray: add_edges_from with a pair that must be refused has to raise ValueError; the edges of the list before "
    "that pair may be kept (the code is a plain loop over add_edge) or the whole call may be undone; anything else "
    "is a violation",
    "batches sub-check (operation add_batch = add_edges_from): no order of processing and no atomicity is assumed; a "
    "list with a pair that must be refused has to raise ValueError and may leave any subset of its legal pairs in "
    "the graph (has_edge says which); every view must then agree with the former edges plus that subset",
    "gray: remove_edge of an edge that is not in the graph (including out-of-range arguments) and "
    "update_vertex_number(k) with 0 <= k <= n must leave the graph unchanged, silently or with ValueError",
    "has_edge / `in edges()` are expected to answer False for pairs with a vertex outside the graph (probed up to "
    "two positions outside the range)",
    "the order of edges_ordered_by_successors() is not asserted (no caller in the tree; the name does not pin it down), "
    "only its content",
    "edges() of a simple graph must be sorted as listed and contain every edge once in some orientation; the "
    "orientation itself (u<v) is not asserted",
    "held objects: the objects returned by edges() and edges_ordered_by_successors() answer through the graph (live "
    "views) in the tree, so a held one must describe the graph as it is whenever it is looked at; vertices(), parts() "
    "(ranges), right_neighbors()/left_neighbors() (copies) and neighbors()/predecessors()/successors() (generators, "
    "looked at once, for a vertex that exists when the call is made) are not documented as live: either the state at the "
    "time of the call or the present state is accepted; an iterator over a view that is advanced while the graph "
    "changes is not examined",
    "from_networkx / normalize at the end and every 8th step of a history (check_conversions): the networkx graph is "
    "built from the model with an increasing integer relabelling of 1..n; for bipartite graphs the vertices of each "
    "side are inserted in increasing order, possibly the whole right side before the left side",
    "conversion of foreign objects (cases with 'foreign', operation 'reconvert'): which argument classes are taken is "
    "read off the type tests and error messages of the tree - Graph.* and BipartiteGraph.* take any networkx.Graph "
    "instance (DiGraph, MultiGraph, MultiDiGraph are subclasses), DirectedGraph.* only DiGraph / MultiDiGraph; "
    "everything else must be refused, with ValueError (what from_networkx raises) or TypeError (what normalize "
    "raises), either accepted from either entry point",
    "numbering of converted vertices: sorted labels -> 1..n for Graph/DirectedGraph ('the order is preserved' in the "
    "docstring of normalize), labels that are all strings of decimal digits in numeric order (comment in "
    "normalize_networkx_labels; the labels of a DOT file); gray: labels that cannot be sorted together (int and str, "
    "...) are numbered in order of insertion by the tree, any bijection is accepted; gray: BipartiteGraph numbers "
    "each side in order of insertion of the nodes (not by sorted label as the two other classes do; its docstring "
    "also says 'the order is preserved'), the sorted order of each side is accepted as well",
    "the node attribute 'bipartite' is accepted as 0/1 (documented), False/True (equal to 0/1) and '0'/'1' (what a "
    "GML/DOT reader delivers, accepted by the tree); 2, -1, 0.5, 'left', '', '2', None, [0] or no attribute must give "
    "ValueError (documented); 0.0/1.0 are not generated",
    "copies (operations fork / switch): copy.deepcopy, pickle (protocols 0..5), to_networkx + from_networkx / normalize "
    "and writeGraph + readGraph through StringIO (kthlist, dimacs / matrix, gml, dot) must give an independent object "
    "equal to the original in every view; copy.copy is Python's shallow copy (the classes define no __copy__): it shares "
    "the adjacency tables and the edge set with the original by design while the counters are private, so objects that "
    "share tables are only required to agree while none of them is changed (calls without effect included) and all but "
    "the changed one are dropped at the first change; gray: a DirectedGraph with a loop may be refused (ValueError) by "
    "from_networkx / readGraph; the name of the graph is not compared",
    "gray: a self-loop in a networkx graph given to DirectedGraph is kept (is_dag() False) or refused with ValueError, "
    "as for add_edge; a conversion is expected to leave its argument as it was (nodes, attributes, edges)",
    "live batches (operation live_batch): add_edges_from(iterable) inserts the pairs one by one (its code is a plain "
    "loop over add_edge), so an iterable that calls add_edge / remove_edge / update_vertex_number / number_of_edges / "
    "has_edge / edges() on the same graph between two pairs is a legal history step whose effects happen in the order "
    "of the calls, exactly as if the steps had been issued one by one: a pair handed out is in the graph when the "
    "iterable is asked for the next one, and the counters are up to date between two pairs; such an iterable never "
    "hands out a pair that must be refused, and the iterable must be read to its end exactly once",
]

NMAX = 12          # vertex growth is capped so that the cost of a step stays bounded


def _tier():
    a = sys.argv
    for i, x in enumerate(a):
        if x == '--tier' and i + 1 < len(a):
            return a[i + 1]
        if x.startswith('--tier='):
            return x.split('=', 1)[1]
    return os.environ.get('VERIF_TIER', 'quick')


# ---------------------------------------------------------------------------
# running a history

def run_case(case):
    clsname = case['cls']
    if clsname not in gm.KINDS:
        raise ValueError("unknown class in case: {}".format(clsname))
    labels = set([clsname])
    if 'foreign' in case:
        # the initial object is obtained by converting a foreign object (see the conversion section)
        G, M, head = _obtain_foreign(clsname, case['foreign'], labels)
        if G is None:
            return Outcome(labels=sorted(labels), nontrivial=False)
        sizes = [M.L, M.R] if clsname == 'BipartiteGraph' else [M.n]
        converted_edges = set(M.E)
    else:
        sizes = [case['L'], case['R']] if clsname == 'BipartiteGraph' else [case['n']]
        if min(sizes) < 0:
            try:
                gm.build(clsname, case)
            except ValueError:
                return Outcome(labels=['bad-initial-size'], nontrivial=False, rejected=True)
            raise Violation("{}({}) with a negative size was not refused with ValueError".format(
                clsname, ','.join(map(str, sizes))))
        G, M = gm.build(clsname, case)
        head = "{}({})".format(clsname, ','.join(map(str, sizes)))
        gm.check_views(G, M, head + " freshly created")
        converted_edges = None
    n0 = M.n
    if min(sizes) == 0:
        labels.add('initial-size-0')
    grown = False
    refused_batch_at = None
    nxp = case.get('nx') or {'mul': 1, 'add': 0, 'rev': False}
    nxp = {'mul': nxp['mul'], 'add': nxp['add'], 'rev': nxp['rev']}
    ops = case['ops']
    held = []
    looked_last = False
    # the live objects of the history (see the copies section): the operations are addressed to objs[cur]
    S = {'G': G, 'M': M, 'held': held, 'group': 0, 'alive': True, 'how': 'the initial object', 'born': -1,
         'parent': None, 'changes': 0, 'parent_changes': 0}
    objs = [S]
    groups = 1
    for i, op in enumerate(ops):
        if op[0] == 'fork':
            labels |= _fork(objs, S, op, i, head, groups)
            groups += 1
            looked_last = False
            continue
        if op[0] == 'switch':
            T = objs[op[1] % len(objs)]
            if not T['alive']:
                labels.add('switch-to-a-retired-object')
                continue
            if T is not S:
                labels.add('switched')
                if looked_last:
                    gm.check_views(G, M, "{} at step {}".format(head, i))
                    looked_last = False
            S = T
            G, M, held = S['G'], S['M'], S['held']
            continue
        many = len(objs) > 1
        me = " on object {} ({})".format(objs.index(S), S['how']) if many else ''
        if op[0] in ('hold', 'consult'):
            ctx = "{} at step {} {}{}".format(head, i, _show(op), me)
            labels |= _hold(G, M, op, held, i, ctx) if op[0] == 'hold' else _consult(G, M, op, held, i, ctx)
            looked_last = True
            continue
        if op[0] == 'reconvert':
            # the history goes on on the object obtained by converting a networkx graph built from the model
            ctx = "{} after step {} {}{}".format(head, i, _show(op), me)
            G = _reconvert(G, M, op, ctx)
            if G is not S['G']:
                S['G'] = G
                S['group'] = groups          # a new object: it shares nothing with shallow copies of the former one
                groups += 1
            del held[:]                      # the objects held so far belong to the former object
            labels.update(('reconverted', 'reconverted-' + op[1]))
            converted_edges = set(M.E)
            gm.check_views(G, M, ctx)
            looked_last = False
            continue
        if not hasattr(G, 'add_edges_from' if op[0] in ('add_batch', 'live_batch') else op[0]):
            labels.add('operation-not-offered')
            continue
        looked_last = False
        ctx = "{} after step {} {}{}".format(head, i, _show(op), me)
        before = len(M.E)
        state_before = (M.n, set(M.E)) if many else None
        if op[0] == 'add_batch':
            got = _apply_batch(G, M, op, ctx)
            if 'batch-refused' in got:
                refused_batch_at = i
        elif op[0] == 'live_batch':
            got = _live_run(G, M, op, ctx)
            if 'live-batch' in got:
                if S.get('live'):
                    labels.add('live-batch-after-live-batch')
                S['live'] = True
                if grown:
                    labels.add('live-batch-after-growth')
                if many:
                    labels.add('live-batch-with-several-live-objects')
                if held:
                    labels.add('live-batch-with-held-views')
        else:
            got = gm.apply_op(G, M, op, ctx)
            if refused_batch_at is not None and op[0] == 'add_edge':
                labels.add('add_edge-after-refused-batch')
            if S.get('live'):
                for ev in ('inserted', 'removal', 'growth', 'refused', 'duplicate'):
                    if ev in got:
                        labels.add('live-batch-then-' + ev)
        labels |= got
        if 'growth' in got:
            grown = True
        if 'removal' in got and grown:
            labels.add('removal-after-growth')
        if n0 is not None and 'inserted' in got and op[0] == 'add_edge' and max(op[1], op[2]) > n0:
            labels.add('edge-on-new-vertex')
        if 'refused' in got and len(M.E) == before:
            labels.add('refused-nothing-changed')
        if converted_edges is not None:
            for ev in ('inserted', 'duplicate', 'refused', 'removal', 'growth'):
                if ev in got:
                    labels.add('converted-then-' + ev)
            if 'duplicate' in got and op[0] == 'add_edge' and M.norm(op[1], op[2]) in converted_edges:
                labels.add('converted-then-duplicate-of-a-converted-edge')
            if 'removal' in got and op[0] == 'remove_edge' and M.norm(op[1], op[2]) in converted_edges:
                labels.add('converted-then-removal-of-a-converted-edge')
        gm.check_views(G, M, ctx)
        for h in held:
            h['events'] |= got & _HELD_EVENTS
            if h['mode'] == 'eager':
                labels |= _check_held(G, M, h, i, ctx, full=False)
        if many:
            labels |= _after_step_on_one(objs, S, state_before, got, i, ctx)
        if i % 8 == 7 and i != len(ops) - 1:
            gm.check_conversions(G, M, ctx, nxp)
    if looked_last:
        # looking at a held object is not an update
        gm.check_views(G, M, "{} at the end of {} steps".format(head, len(ops)))
    for k, T in enumerate(objs):
        if not T['alive']:
            continue
        end = "{} at the end of {} steps".format(head, len(ops))
        if len(objs) > 1:
            end += ", object {} ({})".format(k, T['how'])
            if T is not S:
                gm.check_views(T['G'], T['M'], end)
        gm.check_conversions(T['G'], T['M'], end, nxp)
        for h in T['held']:
            labels |= _check_held(T['G'], T['M'], h, len(ops), end, full=True)
    if len(objs) > 1:
        labels |= _fork_labels(objs)
        M = max((T['M'] for T in objs if T['alive']), key=lambda m: m.inserted_total)
    if M.kind == 'directed' and M.E and M.is_dag():
        labels.add('dag-at-the-end')
    if M.kind == 'directed' and M.E and not M.is_dag():
        labels.add('not-dag-at-the-end')
    if nxp['rev'] or nxp['mul'] != 1 or nxp['add'] != 0:
        labels.add('networkx-relabelled')
    if M.kind == 'bipartite' and (M.L == 0) != (M.R == 0):
        labels.add('one-empty-side')
    if M.inserted_total >= 5:
        labels.add('5-insertions')
    nontrivial = M.inserted_total >= 5 and (M.kind != 'simple' or 'removal-after-growth' in labels)
    return Outcome(labels=sorted(labels), nontrivial=nontrivial)


def _show(op):
    if op[0] in ('add_edges_from', 'add_batch'):
        return "add_edges_from({}{})".format(op[1], {'iter': ' as iterator', 'tuple': ' as tuple'}.get(
            op[2] if len(op) > 2 else 'list', ''))
    if op[0] == 'live_batch':
        return "add_edges_from({} '{}' {} reading and changing the graph)".format(
            'an iterable object, shape' if len(op) > 3 and op[3] == 'iterable' else 'a generator, shape', op[1], op[2])
    if op[0] == 'hold':
        return "hold {}{} ({})".format(op[1], '({})'.format(op[2]) if op[1] in _HOLD_WITH_ARG else '()', op[3])
    if op[0] == 'consult':
        return "consult held object {}".format(op[1])
    if op[0] == 'fork':
        return "fork by {}".format(_fork_how(op[1], op[2], None))
    if op[0] == 'switch':
        return "switch to object {}".format(op[1])
    if op[0] == 'reconvert':
        return "G = {}(a networkx {} built from the model, labels {}*i{:+d}{})".format(
            op[1], 'multigraph with every edge twice' if op[5] else 'graph', op[2], op[3],
            ', inserted in reverse' if op[4] else '')
    return "{}({})".format(op[0], ','.join(map(str, op[1:])))


# ---------------------------------------------------------------------------
# copies: another way to obtain a graph object, at any point of a history; the object and its copies then live on
#
#   ["fork", method, param]   copy the object the operations are addressed to at this moment; the copy becomes the
#                             live object number 1, 2, 3 of the history (at most MAX_OBJS objects, a fork beyond is
#                             skipped); the operations still go to the same object as before
#   ["switch", k]             from now on the operations (updates, hold, consult, reconvert, fork) are addressed to the
#                             live object number k modulo the number of objects
#
#   method 'deepcopy'   copy.deepcopy(G)                                  param odd: the pair (G, G.edges()) is copied /
#          'pickle'     pickle.loads(pickle.dumps(G, protocol=param % 6))  pickled instead and the copied view is kept
#                                                                         as a held view of the copy ((param // 6) odd)
#          'networkx'   cls.from_networkx(G.to_networkx()) (param even) / cls.normalize(G.to_networkx()) (param odd)
#          'file'       writeGraph(G, StringIO, type, format); readGraph(StringIO(text), type, format): format =
#                       FORK_FORMATS[cls][param % 8] (kthlist, dimacs / matrix, gml, seldom dot), type 'dag' instead of
#                       'digraph' when (param // 8) is odd and every edge of the model goes upwards
#          'copy'       copy.copy(G)
#
# What is demanded: the copy is another object of the same class, every view of the copy equals the model of the
# original at that moment, and the original is as it was.  From then on each object has its own model: after every
# step every view of EVERY live object is compared with its own model (an update of one never shows in another), held
# views stay views of the object they were obtained from, and at the end the networkx conversions of every live
# object are checked.  copy.copy is different: the classes define no __copy__, so Python's shallow copy shares the
# adjacency tables and the edge set with the original by design while the counters are private; what is demanded
# from the objects that share tables (a group) is only what holds and is reasonable: they show the same graph as
# long as none of them is changed, and calls that change nothing (refused calls, duplicates, removal of an absent
# edge, update_vertex_number not above n) change nothing in any of them; the first call that changes one member of a
# group retires the other members (they are not looked at any more), the changed one goes on.
# Gray: a graph with a loop (DirectedGraph) may be refused with ValueError by from_networkx / readGraph, as add_edge
# may; the fork then gives nothing and its number is never live.

MAX_OBJS = 4
FORK_METHODS = ('deepcopy', 'pickle', 'networkx', 'file', 'copy')
FORK_FORMATS = {
    'Graph': ('kthlist', 'dimacs', 'gml', 'kthlist', 'dimacs', 'gml', 'kthlist', 'dot'),
    'DirectedGraph': ('kthlist', 'dimacs', 'gml', 'kthlist', 'dimacs', 'gml', 'kthlist', 'dot'),
    'BipartiteGraph': ('kthlist', 'matrix', 'gml', 'kthlist', 'matrix', 'gml', 'kthlist', 'dot'),
}
FORK_TYPES = {'Graph': 'simple', 'DirectedGraph': 'digraph', 'BipartiteGraph': 'bipartite'}


def _fork_how(method, param, clsname):
    if method == 'deepcopy':
        return 'copy.deepcopy((G, G.edges()))[0]' if param % 2 else 'copy.deepcopy(G)'
    if method == 'pickle':
        return 'pickle.loads(pickle.dumps({}, protocol={})){}'.format(
            '(G, G.edges())' if (param // 6) % 2 else 'G', param % 6, '[0]' if (param // 6) % 2 else '')
    if method == 'networkx':
        return '{}(G.to_networkx())'.format(VIAS[param % 2])
    if method == 'file':
        if clsname is None:
            return 'writeGraph + readGraph through StringIO (format number {}{})'.format(
                param % 8, ', as dag if it is one' if (param // 8) % 2 else '')
        return 'writeGraph + readGraph through StringIO, format {}'.format(FORK_FORMATS[clsname][param % 8])
    if method == 'copy':
        return 'copy.copy(G)'
    raise ValueError("unknown fork method {!r}".format(method))


def _fork(objs, S, op, step, head, group):
    """One more live object: a copy of S.  -> labels.  Raises Violation."""
    import copy
    import io
    import pickle
    method, param = op[1], op[2]
    G, M = S['G'], S['M']
    clsname = M.clsname
    cls = gm.graph_class(clsname)
    how = _fork_how(method, param, clsname)
    src = objs.index(S)
    ctx = "{} at step {}, object {} = {} of object {}".format(head, step, len(objs), how, src)
    if len(objs) >= MAX_OBJS:
        return set(['fork-beyond-the-limit-skipped'])
    labels = set(['forked', 'fork:' + method])
    view = None
    loops = M.kind == 'directed' and any(u == v for (u, v) in M.E)

    def do():
        if method == 'deepcopy':
            if param % 2:
                return copy.deepcopy((G, G.edges()))
            return copy.deepcopy(G), None
        if method == 'pickle':
            if (param // 6) % 2:
                return pickle.loads(pickle.dumps((G, G.edges()), protocol=param % 6))
            return pickle.loads(pickle.dumps(G, protocol=param % 6)), None
        if method == 'copy':
            return copy.copy(G), None
        if method == 'networkx':
            return getattr(cls, VIAS[param % 2])(G.to_networkx()), None
        fmt = FORK_FORMATS[clsname][param % 8]
        gtype = FORK_TYPES[clsname]
        if gtype == 'digraph' and (param // 8) % 2 and M.is_dag():
            gtype = 'dag'
            labels.add('fork-file-as-dag')
        labels.add('fork-file:' + fmt)
        import cnfgen.graphs as cg
        out = io.StringIO()
        cg.writeGraph(G, out, gtype, fmt)
        return cg.readGraph(io.StringIO(out.getvalue()), gtype, fmt), None

    try:
        H, view = do()
    except ValueError as e:
        if not exception_in_tree(e):
            raise
        if loops and method in ('networkx', 'file'):
            # gray: a loop may be refused; this number is never live
            objs.append({'G': None, 'M': None, 'held': [], 'group': group, 'alive': False, 'how': how, 'born': step,
                         'parent': src, 'changes': 0, 'parent_changes': S['changes']})
            return set(['fork-refused-because-of-a-loop'])
        raise Violation("{}: raised ValueError({}) [{}] | model: {}".format(ctx, e, short_tb(e), M.describe()))
    except Violation:
        raise
    except Exception as e:   # noqa
        if method in ('deepcopy', 'pickle', 'copy') or exception_in_tree(e):
            # copy / pickle machinery walking over the attributes of the object: a failure is the object's
            raise Violation("{}: raised {}({}) [{}] | model: {}".format(
                ctx, type(e).__name__, e, short_tb(e), M.describe())) from e
        raise
    if not isinstance(H, cls):
        raise Violation("{}: gives a {} instead of a {}".format(ctx, type(H).__name__, clsname))
    if H is G:
        raise Violation("{}: gives the object itself, not a copy".format(ctx))
    M2 = M.copy()
    M2.inserted_total = M.inserted_total
    T = {'G': H, 'M': M2, 'held': [], 'group': S['group'] if method == 'copy' else group, 'alive': True, 'how': how,
         'born': step, 'parent': src, 'changes': 0, 'parent_changes': S['changes']}
    gm.check_views(H, M2, ctx + ": the copy")
    gm.check_views(G, M, ctx + ": the object copied, afterwards")
    if view is not None:
        N = (M.L + M.R) if M.kind == 'bipartite' else M.n
        T['held'].append({'kind': 'edges', 'mode': 'lazy', 'step': step, 'n0': N, 'E0': set(M.E), 'events': set(),
                          'looks': 0, 'spent': False, 'what': 'the copy of edges() that came with the copy', 'E_last': None,
                          'obj': view})
        labels.add('fork-with-a-copied-view')
        labels |= _check_held(H, M2, T['held'][0], step, ctx, full=True)
    for h in S['held']:
        if h['kind'] in ('edges', 'edges_succ'):
            labels.add('fork-while-a-view-is-held')
            labels |= _check_held(G, M, h, step, ctx + ": the object copied, afterwards", full=False)
    objs.append(T)
    if src != 0:
        labels.add('fork-of-a-copy')
    if M.E:
        labels.add('fork-with-edges')
    if M.kind == 'simple' and M.n and not any(M.n in e for e in M.E):
        labels.add('fork-with-last-vertex-isolated')
    if loops:
        labels.add('fork-with-a-loop')
    if sum(1 for o in objs if o['alive']) >= 3:
        labels.add('three-live-objects')
    return labels


def _after_step_on_one(objs, S, state_before, got, step, ctx):
    """An update call was made on S (already compared with its model): the other live objects are compared with
    THEIR models; objects sharing tables with S (shallow copies) are retired when the call changed S."""
    labels = set()
    M = S['M']
    changed = state_before != (M.n, M.E)
    if changed:
        S['changes'] += 1
    k = objs.index(S)
    for j, T in enumerate(objs):
        if T is S or not T['alive']:
            continue
        if T['group'] == S['group']:
            if changed:
                T['alive'] = False
                labels.add('shallow-copy-retired-at-first-change')
                continue
            labels.add('call-without-effect-in-a-group-of-shallow-copies')
        where = "{} / object {} ({}), which the call was not made on".format(ctx, j, T['how'])
        gm.check_views(T['G'], T['M'], where, networkx_too=(step % 4 == 0))
        for h in T['held']:
            if h['mode'] == 'eager':
                labels |= _check_held(T['G'], T['M'], h, step, where, full=False)
        if changed:
            labels.add('change-of-one-object-others-checked')
            if T['M'].E != M.E or T['M'].n != M.n or T['M'].L != M.L:
                labels.add('objects-differ')
    if changed and S['parent'] is not None:
        labels.add('copy-changed')
        labels.add('copy-' + sorted(got & set(['inserted', 'removal', 'growth']) or ['changed'])[0])
    if 'refused' in got and S['parent'] is not None:
        labels.add('refused-call-on-a-copy')
    if changed and any(T['parent'] == k and T['alive'] for T in objs):
        labels.add('original-changed-after-the-fork')
    return labels


def _fork_labels(objs):
    labels = set()
    for T in objs:
        if T['parent'] is None or not T['alive']:
            continue
        P = objs[T['parent']]
        if T['changes'] and P['alive'] and P['changes'] > T['parent_changes']:
            labels.add('both-changed-after-the-fork')
            if T['M'].n is not None and T['M'].n != P['M'].n:
                labels.add('copies-with-different-vertex-counts-at-the-end')
    return labels


# ---------------------------------------------------------------------------
# held views: objects returned by the graph, kept across updates and looked at later
#
#   ["hold", kind, arg, mode]   obtain an object from the graph now and keep it (at most MAX_HELD, then the oldest
#                               is replaced);  mode 'eager': looked at after every later step, 'lazy': only when a
#                               "consult" names it (and at the end of the history)
#   ["consult", k]              look at the held object number k modulo the number of held objects
#
#   kind 'edges'       G.edges()                          the edge views are objects that answer through the graph
#        'edges_succ'  G.edges_ordered_by_successors()    (live views): at every later moment iteration, len() and
#                                                         `in` must describe the graph as it is then, exactly as a
#                                                         view obtained at that moment does
#        'vertices'    G.vertices()  /  'parts'  G.parts()         ranges: the vertices at the time of the call or now
#        'nbrs'        neighbors(u) / predecessors(u) / successors(u) (generators, looked at once) and
#                      right_neighbors(u) / left_neighbors(u) (lists): the neighbours at the time of the call or now
#                      (arg = the vertex, reduced modulo the number of vertices; for bipartite graphs an odd arg
#                      asks for the left neighbours of a right vertex)

MAX_HELD = 4
HOLD_KINDS = {
    'Graph': ('edges', 'vertices', 'nbrs'),
    'DirectedGraph': ('edges', 'edges_succ', 'vertices', 'nbrs'),
    'BipartiteGraph': ('edges', 'parts', 'nbrs'),
}
_HOLD_WITH_ARG = ('nbrs',)
_HELD_EVENTS = frozenset(['growth', 'removal', 'inserted', 'batch-ok', 'batch-refused', 'refused', 'duplicate', 'batch'])


def _model_nbrs(M, which, u):
    if which in ('neighbors',):
        return sorted([b for (a, b) in M.E if a == u] + [a for (a, b) in M.E if b == u])
    if which in ('successors', 'right_neighbors'):
        return sorted(b for (a, b) in M.E if a == u)
    return sorted(a for (a, b) in M.E if b == u)


def _hold(G, M, op, held, step, ctx):
    kind, arg, mode = op[1], op[2], op[3]
    if kind not in HOLD_KINDS[M.clsname]:
        return set(['hold-not-offered'])
    N = (M.L + M.R) if M.kind == 'bipartite' else M.n
    h = {'kind': kind, 'mode': mode, 'step': step, 'n0': N, 'E0': set(M.E), 'events': set(), 'looks': 0,
         'spent': False, 'what': kind + '()', 'E_last': None}
    if kind == 'edges':
        h['obj'] = gm._view(ctx, 'edges()', G.edges)
    elif kind == 'edges_succ':
        h['obj'] = gm._view(ctx, 'edges_ordered_by_successors()', G.edges_ordered_by_successors)
        h['what'] = 'edges_ordered_by_successors()'
    elif kind == 'vertices':
        h['obj'] = gm._view(ctx, 'vertices()', G.vertices)
        h['snap'] = list(range(1, N + 1))
    elif kind == 'parts':
        h['obj'] = gm._view(ctx, 'parts()', G.parts)
        h['snap'] = [list(range(1, M.L + 1)), list(range(1, M.R + 1))]
    else:
        if M.kind == 'bipartite':
            which = 'left_neighbors' if arg % 2 else 'right_neighbors'
            size = M.R if arg % 2 else M.L
        elif M.kind == 'directed':
            which, size = ('predecessors' if arg % 2 else 'successors'), M.n
        else:
            which, size = 'neighbors', M.n
        if size < 1:
            return set(['hold-no-vertex'])
        u = 1 + (arg // 2) % size
        h.update(which=which, u=u, what='{}({})'.format(which, u), snap=_model_nbrs(M, which, u),
                 once=(M.kind != 'bipartite'))
        h['obj'] = gm._view(ctx, h['what'], getattr(G, which), u)
    if len(held) >= MAX_HELD:
        held[step % MAX_HELD] = h
    else:
        held.append(h)
    labels = set(['view-held', 'held:' + kind, 'held-' + mode])
    if N == 0:
        labels.add('view-held-at-0-vertices')
    if not M.E:
        labels.add('view-held-on-edgeless-graph')
    return labels


def _consult(G, M, op, held, step, ctx):
    if not held:
        return set(['consult-nothing-held'])
    return _check_held(G, M, held[op[1] % len(held)], step, ctx, full=True) | set(['view-consulted'])


def _check_held(G, M, h, step, ctx, full):
    """The held object h, looked at now.  full: membership for every ordered pair from -1 to n+2 and a second
    iteration; otherwise len(), one iteration and membership of the listed pairs."""
    kind = h['kind']
    N = (M.L + M.R) if M.kind == 'bipartite' else M.n
    what = "{} obtained at step {} (when the graph had {} vertices and the edges {})".format(
        h['what'], h['step'], h['n0'], sorted(h['E0']))
    labels = set()

    def bad(msg):
        raise Violation("{}: {} {} | model: {}".format(ctx, what, msg, M.describe()), signature='held-' + kind)

    if kind in ('vertices', 'parts'):
        got = gm._view(ctx, what, lambda: [list(p) for p in h['obj']] if kind == 'parts' else list(h['obj']))
        now = [list(range(1, M.L + 1)), list(range(1, M.R + 1))] if kind == 'parts' else list(range(1, N + 1))
        if got != now and got != h['snap']:
            bad("lists {}: neither the vertices at that time nor the vertices now".format(got))
        labels.add('held-range-is-now' if got == now else 'held-range-is-snapshot')
        h['looks'] += 1
        return labels
    if kind == 'nbrs':
        if h['spent']:
            return labels
        now = _model_nbrs(M, h['which'], h['u'])
        got = gm._view(ctx, what, lambda: list(h['obj']))
        if got != now and got != h['snap']:
            bad("lists {}: neither the neighbours at that time, {}, nor the neighbours now, {}".format(
                got, h['snap'], now))
        if now != h['snap']:
            labels.add('held-nbrs-are-now' if got == now else 'held-nbrs-are-snapshot')
        if h['once']:
            h['spent'] = True       # a generator: there is nothing left to look at
        h['looks'] += 1
        return labels

    # ---- a held edge view
    V = h['obj']
    E = M.E
    size = gm._view(ctx, 'len of ' + what, len, V)
    if size != len(E):
        bad("has len() = {} instead of {}".format(size, len(E)))
    listing = gm._view(ctx, 'iteration of ' + what, lambda: gm._pairs(V, ctx, what))
    normed = [M.norm(u, v) for (u, v) in listing]
    if len(set(normed)) != len(normed):
        bad("lists an edge twice: {}".format(listing))
    if set(normed) != E:
        bad("lists {}".format(listing))
    if kind == 'edges':
        if listing != sorted(listing):
            bad("is not sorted: {}".format(listing))
        if M.kind != 'simple' and listing != sorted(E):
            bad("lists {}".format(listing))
    fresh = G.edges() if kind == 'edges' else G.edges_ordered_by_successors()
    flist = gm._pairs(fresh, ctx, 'a fresh ' + h['what'])
    if flist != listing or len(fresh) != size:
        bad("lists {} (len {}) while a view obtained now lists {} (len {})".format(listing, size, flist, len(fresh)))
    if full:
        if M.kind == 'bipartite':
            us, vs = range(-1, M.L + 3), range(-1, M.R + 3)
        else:
            us = vs = range(-1, N + 3)
        probes = [(u, v) for u in us for v in vs]
    else:
        probes = list(listing) + [(v, u) for (u, v) in listing] + sorted(h['E0'] - E)
    for (u, v) in probes:
        want = M.has(u, v)
        got = gm._view(ctx, '({},{}) in {}'.format(u, v, what), lambda: (u, v) in V)
        if bool(got) != want:
            bad("answers {} to `({},{}) in view`".format(got, u, v))
        if bool((u, v) in fresh) != want:
            bad("is consulted when a view obtained now answers {} to `({},{}) in view`".format((u, v) in fresh, u, v))
    if full:
        again = gm._pairs(V, ctx, what)
        if again != listing:
            bad("lists {} and, iterated once more, {}".format(listing, again))
        # two readers of ONE view object at a time (nested loops, zip): each iteration is a listing of its own
        if len(listing) <= 12:
            pairs = gm._view(ctx, 'zip of ' + what + ' with itself', lambda: [(tuple(a), tuple(b)) for a, b in zip(V, V)])
            if pairs != [(tuple(e), tuple(e)) for e in listing]:
                bad("zipped with itself gives {} instead of every edge paired with itself".format(pairs[:6]))
            nested = gm._view(ctx, 'nested loops over ' + what, lambda: sum(1 for _a in V for _b in V))
            if nested != len(listing) ** 2:
                bad("read by two nested loops gives {} pairs instead of {}".format(nested, len(listing) ** 2))
            labels.add('two-readers-of-one-view')
        labels.add('held-edge-view-consulted')
        ev = h['events']
        if 'growth' in ev:
            labels.add('consult-after-growth')
            if any(min(e) > h['n0'] for e in E):
                labels.add('consult-sees-edge-among-new-vertices')
            if h['n0'] == 0 and E:
                labels.add('consult-sees-edges-of-a-graph-held-at-0-vertices')
        if 'removal' in ev:
            labels.add('consult-after-removal')
        if 'inserted' in ev:
            labels.add('consult-after-insertion')
        if 'batch' in ev or 'batch-ok' in ev or 'batch-refused' in ev:
            labels.add('consult-after-batch')
        if 'refused' in ev:
            labels.add('consult-after-refused-call')
        if E != h['E0'] and len(E) == len(h['E0']):
            labels.add('consult-same-count-other-edges')
    if h['looks'] >= 1 and E != h['E_last']:
        labels.add('looked-at-again-after-a-change')
    h['E_last'] = set(E)
    h['looks'] += 1
    return labels


# ---------------------------------------------------------------------------
# conversion from foreign objects: another way to obtain the graph object of a history
#
#   "foreign": {"nx": "Graph"|"DiGraph"|"MultiGraph"|"MultiDiGraph",   the networkx class of the object given
#               "via": "from_networkx"|"normalize",                    the class method it is given to
#               "nodes": [{"l": label, "b": colour}, ...],             in order of insertion ("b": the node attribute
#                                                                      'bipartite'; no "b" = no attribute)
#               "edges": [[i, j], ...]}                                positions in "nodes", in order of insertion,
#                                                                      repeated pairs and i == j allowed
#   or         {"other": kind, "via": ...}                             an object that is not a networkx graph
#
# (labels and colours are JSON values; a list stands for a tuple in a label).  What the conversion has to do is
# worked out here from the node list and the edge list alone (_foreign_expect); the tree is not consulted:
#   * class of the argument: Graph.* and BipartiteGraph.* take the four networkx classes (the three others are
#     subclasses of networkx.Graph), DirectedGraph.* takes DiGraph and MultiDiGraph; anything else - an undirected
#     graph given to DirectedGraph, an object of another cnfgen class, None, a list of edges, a dict, ... - is refused
#     with ValueError (from_networkx in the tree) or TypeError (normalize in the tree); either is accepted from either;
#   * vertices: k nodes give the vertices 1..k; Graph/DirectedGraph number the labels in sorted order, labels that are
#     all strings of decimal digits in numeric order ('2' before '10'), labels that cannot be sorted together in order
#     of insertion (gray: any bijection is accepted); BipartiteGraph numbers each side 1..L / 1..R (gray: in order of
#     insertion of the nodes, what the tree does, or in sorted order of the labels of the side);
#   * the attribute 'bipartite' must be 0/1, False/True or '0'/'1' on every node, otherwise ValueError;
#   * edges: parallel and antiparallel pairs are merged exactly as duplicate insertions are (a DiGraph (a,b)+(b,a)
#     gives one edge of a Graph and two edges of a DirectedGraph); bipartite edges may be given (left,right) or
#     (right,left); an edge inside one side and a self-loop (Graph, BipartiteGraph) must be refused with ValueError,
#     a self-loop given to DirectedGraph is gray as in add_edge (kept, then is_dag() is False, or ValueError);
#   * a refusal returns nothing, and nobody's argument is modified; the history then goes on from the repaired
#     argument (class changed to a directed one / bad colours replaced / offending edges dropped), which must convert.
# The object that comes back is compared with the model in every view (gm.check_views) and the operations of the
# case follow on it.  The operation ["reconvert", via, mul, add, rev, multi] replaces the object, in the middle of
# a history, by the conversion of a networkx graph built by the harness from the model (gm.foreign_networkx;
# multi: a MultiGraph/MultiDiGraph with every edge twice); objects held so far are dropped.

NX_CLASSES = ('Graph', 'DiGraph', 'MultiGraph', 'MultiDiGraph')
NX_ACCEPTED = {'Graph': NX_CLASSES, 'DirectedGraph': ('DiGraph', 'MultiDiGraph'), 'BipartiteGraph': NX_CLASSES}
VIAS = ('from_networkx', 'normalize')
OTHER_KINDS = ('none', 'edge-list', 'adjacency-dict', 'string', 'integer', 'networkx-class-itself',
               'cnfgen-other-class-a', 'cnfgen-other-class-b')


def _label(x):
    return tuple(_label(y) for y in x) if isinstance(x, list) else x


def _side(node):
    """0 / 1 for a node with a usable 'bipartite' attribute, else None"""
    c = node.get('b', None)
    if isinstance(c, bool):
        return int(c)
    if isinstance(c, int) and c in (0, 1):
        return c
    if isinstance(c, str) and c in ('0', '1'):
        return int(c)
    return None


def _order(labels):
    """The positions of the labels in the order in which they get the numbers 1..k, and the name of the rule."""
    k = len(labels)
    if k and all(isinstance(x, str) and x.isdecimal() for x in labels):
        return sorted(range(k), key=lambda i: int(labels[i])), 'digit-strings'
    try:
        return sorted(range(k), key=lambda i: labels[i]), 'sorted'
    except TypeError:
        return list(range(k)), 'unsortable'


def _foreign_expect(clsname, F):
    """-> (refusal, why, models).  refusal: None, 'class', 'content' or 'gray'; why: labels naming the reasons;
    models: function giving the (rule, Model) candidates in order of preference, None when nothing may come back."""
    if 'other' in F:
        return 'class', set(['foreign-not-a-networkx-graph-refused']), None
    if F['nx'] not in NX_ACCEPTED[clsname]:
        return 'class', set(['foreign-class-refused']), None
    labels = [_label(nd['l']) for nd in F['nodes']]
    k = len(labels)
    edges = [(e[0], e[1]) for e in F['edges']]
    why = set()

    def model(num, sides=None):
        if sides is None:
            M = gm.Model(clsname, n=k)
            M.E = set(M.norm(num[i], num[j]) for (i, j) in edges)
        else:
            M = gm.Model(clsname, L=sides.count(0), R=sides.count(1))
            M.E = set((num[i], num[j]) if sides[i] == 0 else (num[j], num[i]) for (i, j) in edges)
        M.inserted_total = len(M.E)
        return M

    if clsname == 'BipartiteGraph':
        sides = [_side(nd) for nd in F['nodes']]
        for nd, s in zip(F['nodes'], sides):
            if s is None:
                why.add('foreign-bad-colour-refused' if 'b' in nd else 'foreign-missing-colour-refused')
        for (i, j) in edges:
            if sides[i] is not None and sides[i] == sides[j]:
                why.add('foreign-selfloop-refused' if i == j else 'foreign-edge-inside-a-side-refused')
        if why:
            return 'content', why, None

        def models():
            nums = []
            for rule in ('insertion-order', 'sorted'):
                num = {}
                for s in (0, 1):
                    members = [i for i in range(k) if sides[i] == s]
                    if rule == 'sorted':
                        members = [members[p] for p in _order([labels[i] for i in members])[0]]
                    for pos, i in enumerate(members, start=1):
                        num[i] = pos
                if num not in nums:
                    nums.append(num)
                    yield 'side-by-' + rule, model(num, sides)
        return None, why, models

    order, rule = _order(labels)

    def models():
        yield rule, model(dict((i, p) for p, i in enumerate(order, start=1)))
        if rule == 'unsortable' and k <= 6:
            for perm in itertools.permutations(range(k)):
                yield 'unsortable-some-bijection', model(dict((i, p + 1) for i, p in enumerate(perm)))
    if any(i == j for (i, j) in edges):
        if clsname == 'Graph':
            return 'content', set(['foreign-selfloop-refused']), None
        return 'gray', set(['foreign-loop-refused']), models
    return None, why, models


def _foreign_repair(clsname, F, refusal):
    """The argument after the user mended what was refused; None when there is nothing to mend."""
    if 'other' in F:
        return None
    F2 = dict(F)
    if refusal == 'class':
        F2['nx'] = 'MultiDiGraph' if F['nx'].startswith('Multi') else 'DiGraph'
    elif clsname == 'BipartiteGraph':
        mend = (0, '1', False, 1, '0', True)
        F2['nodes'] = [nd if _side(nd) is not None else dict(nd, b=mend[p % 6]) for p, nd in enumerate(F['nodes'])]
        sides = [_side(nd) for nd in F2['nodes']]
        F2['edges'] = [e for e in F['edges'] if sides[e[0]] != sides[e[1]]]
    else:
        F2['edges'] = [e for e in F['edges'] if e[0] != e[1]]
    return F2


def _foreign_final(clsname, F):
    """The model a history on this foreign object starts from (first candidate, after the repairs); used to aim
    the operations of a case, None when nothing is ever converted."""
    for _ in range(4):
        refusal, _why, models = _foreign_expect(clsname, F)
        if refusal in (None, 'gray'):
            return next(iter(models()))[1]
        F = _foreign_repair(clsname, F, refusal)
        if F is None:
            return None
    raise RuntimeError("repairs do not end: {}".format(F))


def _foreign_object(clsname, F):
    import networkx
    if 'other' in F:
        kind = F['other']
        if kind.startswith('cnfgen-other-class'):
            others = [c for c in ('Graph', 'DirectedGraph', 'BipartiteGraph') if c != clsname]
            other = others[0 if kind.endswith('a') else 1]
            X = gm.graph_class(other)(2, 2) if other == 'BipartiteGraph' else gm.graph_class(other)(3)
            X.add_edge(1, 2)
            return X
        return {'none': None, 'edge-list': [(1, 2), (2, 3)], 'adjacency-dict': {1: [2], 2: [1]}, 'string': 'K3',
                'integer': 3, 'networkx-class-itself': networkx.Graph}[kind]
    X = getattr(networkx, F['nx'])()
    labels = [_label(nd['l']) for nd in F['nodes']]
    if len(set(labels)) != len(labels):
        raise RuntimeError("case with equal labels: {}".format(labels))
    for nd, lab in zip(F['nodes'], labels):
        if 'b' in nd:
            X.add_node(lab, bipartite=nd['b'])
        else:
            X.add_node(lab)
    for e in F['edges']:
        X.add_edge(labels[e[0]], labels[e[1]])
    return X


def _snapshot(X):
    import networkx
    if isinstance(X, networkx.Graph):
        return (type(X).__name__, [(v, dict(d)) for v, d in X.nodes(data=True)],
                list(X.edges(keys=True)) if X.is_multigraph() else list(X.edges()))
    if isinstance(X, (list, dict)):
        return repr(X)
    if hasattr(X, 'number_of_edges') and hasattr(X, 'number_of_vertices'):
        return (X.number_of_vertices(), X.number_of_edges(), [tuple(e) for e in X.edges()])
    return None


def _convert(ctx, f, X):
    """(object, None), or (None, exception) when the tree refuses with ValueError or TypeError."""
    try:
        return f(X), None
    except (ValueError, TypeError) as e:
        if exception_in_tree(e):
            return None, e
        raise
    except Violation:
        raise
    except Exception as e:   # noqa
        if exception_in_tree(e):
            raise Violation("{}: unexpected {} from the code under test: {} [{}]".format(
                ctx, type(e).__name__, e, short_tb(e))) from e
        raise


def _foreign_head(clsname, F):
    if 'other' in F:
        return "{}.{}({})".format(clsname, F['via'], F['other'])
    nodes = ', '.join(repr(_label(nd['l'])) + (' bipartite={!r}'.format(nd['b']) if 'b' in nd else '') for nd in F['nodes'])
    labels = [_label(nd['l']) for nd in F['nodes']]
    return "{}.{}(networkx.{} with the nodes [{}] and the edges {})".format(
        clsname, F['via'], F['nx'], nodes, [(labels[e[0]], labels[e[1]]) for e in F['edges']])


def _foreign_labels(clsname, F, M):
    """What kind of argument was converted (M: the model adopted for the result)."""
    out = set(['converted'])
    labels = [_label(nd['l']) for nd in F['nodes']]
    k = len(labels)
    edges = [(e[0], e[1]) for e in F['edges']]
    if k <= 1:
        out.add('converted-null-graph' if k == 0 else 'converted-single-vertex')
    types = set(type(x).__name__ for x in labels)
    if k and types == set(['int']):
        out.add('labels:int')
        if min(labels) <= 0:
            out.add('labels:int<=0')
        if max(labels) > k:
            out.add('labels:int-with-gaps')
    elif k and types == set(['str']):
        out.add('labels:digit-strings' if all(x.isdecimal() for x in labels) else 'labels:strings')
    elif k and len(types) == 1:
        out.add('labels:' + types.pop())
    elif k:
        out.add('labels:mixed-types')
    order = _order(labels)
    if order[1] != 'unsortable' and order[0] != list(range(k)):
        out.add('labels-not-inserted-in-their-order')
    if len(set(edges)) < len(edges):
        out.add('converted-parallel-edges')
    if any((j, i) in edges for (i, j) in edges if i != j):
        out.add('converted-antiparallel-edges')
    if any(i == j for (i, j) in edges):
        out.add('converted-loop')
    touched = set(x for e in M.E for x in e) if M.kind != 'bipartite' else None
    if M.kind == 'bipartite':
        lt, rt = set(e[0] for e in M.E), set(e[1] for e in M.E)
        if len(lt) < M.L or len(rt) < M.R:
            out.add('converted-isolated-vertex')
        if (M.L and M.L not in lt) or (M.R and M.R not in rt):
            out.add('converted-last-vertex-isolated')
        sides = [_side(nd) for nd in F['nodes']]
        if any(sides[i] == 1 for (i, j) in edges):
            out.add('converted-edge-given-right-left')
        for nd in F['nodes']:
            out.add('colours:' + type(nd['b']).__name__)
        if (M.L == 0) != (M.R == 0):
            out.add('converted-one-empty-side')
    else:
        if len(touched) < M.n:
            out.add('converted-isolated-vertex')
        if M.n and M.n not in touched:
            out.add('converted-last-vertex-isolated')
        if M.E:
            out.add('converted-with-edges')
    return out


def _describe(G):
    try:
        return "a {} with {} vertices, number_of_edges() = {} and edges() = {}".format(
            type(G).__name__, G.number_of_vertices(), G.number_of_edges(), [tuple(e) for e in G.edges()])
    except Exception:   # noqa
        return "a {}".format(type(G).__name__)


def _obtain_foreign(clsname, F, labels):
    """Convert the foreign object of the case; -> (object, model, description) or (None, None, description) when the
    argument had to be refused for good.  Raises Violation."""
    cls = gm.graph_class(clsname)
    refusals = 0
    for _ in range(4):
        refusal, why, models = _foreign_expect(clsname, F)
        head = _foreign_head(clsname, F)
        X = _foreign_object(clsname, F)
        before = _snapshot(X)
        G, exc = _convert(head, getattr(cls, F['via']), X)
        labels.add('via:' + F['via'])
        labels.add('nx:' + F.get('nx', 'other'))
        if _snapshot(X) != before:
            raise Violation("{}: the call changed its argument from {} to {}".format(head, before, _snapshot(X)))
        if exc is not None:
            if refusal is None:
                raise Violation("{}: an argument that can be converted was refused with {}({})".format(
                    head, type(exc).__name__, exc))
            if refusal != 'class' and not isinstance(exc, ValueError):
                raise Violation("{}: refused with {}({}) instead of ValueError ({})".format(
                    head, type(exc).__name__, exc, ', '.join(sorted(why))))
            labels |= why
            labels.add('conversion-refused-with-' + type(exc).__name__)
            refusals += 1
            F = _foreign_repair(clsname, F, refusal)
            if F is None:
                return None, None, head
            continue
        if refusal in ('class', 'content'):
            raise Violation("{}: gave back {} instead of raising {} ({})".format(
                head, _describe(G), 'ValueError' if refusal == 'content' else 'ValueError or TypeError',
                ', '.join(sorted(why))))
        if not isinstance(G, cls):
            raise Violation("{}: gave back a {}".format(head, type(G).__name__))
        first = None
        for rule, M in models():
            try:
                gm.check_views(G, M, head)
                break
            except Violation as v:
                first = first or v
        else:
            raise first
        labels.add('numbering:' + rule)
        labels |= _foreign_labels(clsname, F, M)
        if refusals:
            labels.add('converted-after-repair')
        return G, M, head
    raise RuntimeError("repairs do not end: {}".format(F))


def _reconvert(G, M, op, ctx):
    import networkx
    via, mul, add, rev, multi = op[1], op[2], op[3], op[4], op[5]
    cls = gm.graph_class(M.clsname)
    X = gm.foreign_networkx(M, mul=mul, add=add, rev=rev)
    if multi:
        Y = (networkx.MultiDiGraph if X.is_directed() else networkx.MultiGraph)(X)
        Y.add_edges_from(list(X.edges()))
        X = Y
    before = _snapshot(X)
    G2, exc = _convert(ctx, getattr(cls, via), X)
    if _snapshot(X) != before:
        raise Violation("{}: the call changed its argument from {} to {}".format(ctx, before, _snapshot(X)))
    if exc is not None:
        if M.kind == 'directed' and any(u == v for (u, v) in M.E) and isinstance(exc, ValueError):
            return G            # gray: a loop may be refused; the history goes on on the former object
        raise Violation("{}: the conversion raised {}({}) | model: {}".format(ctx, type(exc).__name__, exc, M.describe()))
    if not isinstance(G2, cls):
        raise Violation("{}: the conversion gave back a {}".format(ctx, type(G2).__name__))
    return G2


# ---------------------------------------------------------------------------
# live batches: add_edges_from(iterable) where the iterable looks at, or changes, the SAME graph while it is read
#
#   ["live_batch", shape, arg, "gen"|"iterable"]     G.add_edges_from(<a generator> | <an object whose __iter__ is one>)
#
# add_edges_from inserts the pairs one by one, so whatever the iterable does to the graph between two pairs is a
# sequence of ordinary steps.  The model is updated in the order of the calls - a pair handed out is in the graph
# when the iterable is asked for the next one - exactly as if the steps had been issued one by one; every answer the
# iterable gets from the graph is compared with the model as it is at that moment, and after the call every view is.
# The shapes are small programs over the graph AS IT IS when the step is reached (so the step can stand anywhere):
#
#   'subdivide' [k, order]   Graph: for up to k edges {u,v} of the graph (sorted / reversed / every second / from the
#                            middle): remove_edge(u,v) (either orientation), update_vertex_number(n+1), hand out (u,w)
#                            and (w,v) for the new vertex w, asking has_edge / number_of_edges in between
#   'chords'    [pairs, mask] all classes: pair i is inserted by the iterable itself with add_edge (bit i of mask set)
#                            or handed out
#   'query'     [pairs]      all classes: hands out every pair; in between number_of_edges(), has_edge of the pair just
#                            handed out (both orientations), len(edges()) and, half way, every view (check_views)
#   'toggle'    [pairs]      Graph: an edge that is there is removed and (every second one) handed out again; an edge
#                            that is not there is handed out and (every third one) removed when the next is asked for
#   'grow'      [k]          Graph: update_vertex_number(n+k) first, then edges on the new vertices are handed out, one
#                            more vertex, one more edge
# A pair that add_edge must refuse is never handed out (a refused batch is the business of add_edges_from/add_batch):
# the iterable tries it itself (ValueError expected, nothing changes) and goes on; loops of directed graphs are skipped.
# The vertex count never exceeds LIVE_NMAX.

LIVE_NMAX = 16
LIVE_SHAPES = {'Graph': ('subdivide', 'chords', 'query', 'toggle', 'grow'),
               'DirectedGraph': ('chords', 'query'), 'BipartiteGraph': ('chords', 'query')}


def _shape_subdivide(M, arg, call):
    k, order = arg[0], arg[1]
    E = sorted(M.E)
    E = [E, E[::-1], E[::2], E[len(E) // 2:] + E[:len(E) // 2]][order % 4]
    for i, (u, v) in enumerate(E[:k]):
        if M.n >= LIVE_NMAX:
            break
        if i % 2:
            u, v = v, u
        call('remove_edge', u, v)
        w = M.n + 1
        call('update_vertex_number', w)
        yield (u, w)
        if i % 3 == 0:
            call('has_edge', w, u)
            call('number_of_edges')
        yield (w, v)
        call('has_edge', u, v)
    call('number_of_edges')


def _shape_chords(M, arg, call):
    pairs, mask = arg[0], arg[1]
    for i, (u, v) in enumerate(pairs):
        if (mask >> i) & 1:
            call('add_edge', u, v)
        else:
            yield (u, v)
    call('number_of_edges')


def _shape_query(M, arg, call):
    pairs = arg[0]
    for i, (u, v) in enumerate(pairs):
        call('number_of_edges')
        yield (u, v)
        call('has_edge', u, v)
        if M.kind != 'bipartite':
            call('has_edge', v, u)
        if i % 2:
            call('len_edges')
        if i == len(pairs) // 2:
            call('views')
    call('number_of_edges')
    call('len_edges')


def _shape_toggle(M, arg, call):
    pairs = arg[0]
    for i, (u, v) in enumerate(pairs):
        if M.classify(u, v) != 'ok':
            continue
        if M.has(u, v):
            call('remove_edge', v, u)
            if i % 2 == 0:
                yield (u, v)
        else:
            yield (u, v)
            if i % 3 == 0:
                call('remove_edge', u, v)
    call('number_of_edges')


def _shape_grow(M, arg, call):
    n0 = M.n
    k = min(arg[0], LIVE_NMAX - n0)
    if k >= 1:
        call('update_vertex_number', n0 + k)
        yield (n0 + 1, n0 + k) if k >= 2 else (1, n0 + 1)
        yield (n0 + k, 1)
        call('has_edge', 1, n0 + k)
        if M.n < LIVE_NMAX:
            call('update_vertex_number', M.n + 1)
            yield (M.n, n0 + 1)
    call('number_of_edges')


_SHAPES = {'subdivide': _shape_subdivide, 'chords': _shape_chords, 'query': _shape_query, 'toggle': _shape_toggle,
           'grow': _shape_grow}


class _LiveIterable:
    """an iterable that is not an iterator: add_edges_from has to ask it for one"""

    def __init__(self, make):
        self._make = make
        self.asked = 0

    def __iter__(self):
        self.asked += 1
        return self._make()


def _live_run(G, M, op, ctx):
    """Executes the step on G and on the model; with G None only on the model (the generators of histories aim the
    later steps with it).  Returns the labels of what happened."""
    shape, arg = op[1], op[2]
    how = op[3] if len(op) > 3 else 'gen'
    labels = set(['live-batch', 'live:' + shape, 'live-how-' + how, 'batch'])
    state = {'pending': None, 'taken': 0, 'problem': None, 'harness': None, 'finished': False}

    def flush():
        p = state['pending']
        if p is not None:
            state['pending'] = None
            e = M.norm(*p)
            if e in M.E:
                labels.add('duplicate')
            else:
                M.E.add(e)
                M.inserted_total += 1
                labels.add('inserted')

    def call(name, *args):
        where = "{} / inside the iterable, after {} pairs were handed out, {}({})".format(
            ctx, state['taken'], name, ','.join(map(str, args)))
        if name in ('add_edge', 'remove_edge', 'update_vertex_number'):
            if name == 'add_edge' and M.classify(*args) == 'gray':
                return
            if G is None:
                if name == 'add_edge':
                    _gen_insert(M, *args)
                elif name == 'remove_edge':
                    M.E.discard(M.norm(*args))
                elif args[0] > M.n:
                    M.n = args[0]
                return
            got = gm.apply_op(G, M, [name] + list(args), where)
            labels.update(got)
            for ev, lab in (('inserted', 'live-insertion-by-the-iterable'), ('removal', 'live-removal-by-the-iterable'),
                            ('growth', 'live-growth-by-the-iterable'), ('refused', 'live-refused-call-by-the-iterable')):
                if ev in got:
                    labels.add(lab)
            return
        if G is None:
            return
        labels.add('live-query-by-the-iterable')
        if name == 'number_of_edges':
            got, want = gm._view(where, 'number_of_edges()', G.number_of_edges), len(M.E)
        elif name == 'len_edges':
            got, want = gm._view(where, 'len(edges())', lambda: len(G.edges())), len(M.E)
        elif name == 'has_edge':
            got, want = bool(gm._view(where, 'has_edge', G.has_edge, *args)), M.has(*args)
        elif name == 'views':
            gm.check_views(G, M, where, networkx_too=False)
            return
        else:
            raise KeyError(name)
        if got != want:
            raise Violation("{} answers {} instead of {} | model at that moment: {}".format(where, got, want, M.describe()))

    def source():
        try:
            it = _SHAPES[shape](M, arg, call)
            while True:
                flush()             # the pair handed out last is in the graph by now
                try:
                    pair = next(it)
                except StopIteration:
                    break
                c = M.classify(*pair)
                if c == 'gray':
                    continue
                if c == 'bad':
                    call('add_edge', *pair)
                    continue
                state['pending'] = tuple(pair)
                state['taken'] += 1
                yield tuple(pair)
            state['finished'] = True
        except Violation as v:
            state['problem'] = v
        except Exception as e:   # noqa - a defect of the harness must not pass for one of the tree
            state['harness'] = e

    if shape not in LIVE_SHAPES[M.clsname]:
        return set(['live-shape-not-offered'])
    if G is None:
        for _ in source():
            pass
        return labels
    src = _LiveIterable(source) if how == 'iterable' else source()
    ok, res = gm._call(ctx, G.add_edges_from, src)
    if state['harness'] is not None:
        raise state['harness']
    if state['problem'] is not None:
        raise state['problem']
    if not ok:
        raise Violation("{}: the iterable hands out legal insertions only, yet add_edges_from raised ValueError({}) after {} "
                        "pairs | model: {}".format(ctx, res, state['taken'], M.describe()))
    if not state['finished']:
        raise Violation("{}: add_edges_from returned before the iterable was read to its end ({} pairs taken) | model: {}".format(
            ctx, state['taken'], M.describe()))
    if how == 'iterable' and src.asked != 1:
        raise Violation("{}: add_edges_from asked the iterable for {} iterators".format(ctx, src.asked))
    if state['taken'] >= 2:
        labels.add('live-2-pairs-taken')
    return labels


# ---------------------------------------------------------------------------
# generated histories

WEIGHTS = {
    'Graph': ['add_edge'] * 9 + ['remove_edge'] * 4 + ['add_edges_from'] * 3 + ['update_vertex_number'] * 3 +
             ['hold'] * 2 + ['consult'] * 3 + ['grow-and-join', 'reconvert'] + ['fork'] * 3 + ['switch'] * 4 +
             ['live_batch'] * 3,
    'DirectedGraph': (['add_edge'] * 7 + ['add_edges_from'] * 2 + ['hold', 'consult', 'consult']) * 2 + ['reconvert'] +
                     ['fork'] * 3 + ['switch'] * 4 + ['live_batch'] * 2,
    'BipartiteGraph': (['add_edge'] * 7 + ['add_edges_from'] * 2 + ['hold', 'consult', 'consult']) * 2 + ['reconvert'] +
                      ['fork'] * 3 + ['switch'] * 4 + ['live_batch'] * 2,
}
_F_METHOD = st.sampled_from(FORK_METHODS + ('deepcopy', 'pickle', 'file'))
_B_BIG = st.integers(0, 10 ** 6)           # positions and choices are drawn as a big integer modulo the number of options
_BOOL = st.booleans()
_P_MODE = st.sampled_from(['legal', 'legal', 'legal', 'present', 'any', 'any'])
_W_OP = {c: st.sampled_from(WEIGHTS[c]) for c in WEIGHTS}
_N_STEPS = {}
_N_PAIRS = st.integers(0, 5)
_N_START = st.integers(0, 6)
_HOW = st.sampled_from(['list', 'iter'])
_H_KIND = {c: st.sampled_from(HOLD_KINDS[c] + ('edges', 'edges')) for c in HOLD_KINDS}
_H_ARG = st.integers(0, 23)
_H_MODE = st.sampled_from(['lazy', 'lazy', 'eager'])
_H_WHICH = st.integers(0, MAX_HELD - 1)
_H_GROW = st.integers(2, 3)
_L_SHAPE = {c: st.sampled_from(LIVE_SHAPES[c] + (('subdivide', 'subdivide') if c == 'Graph' else ())) for c in LIVE_SHAPES}
_L_HOW = st.sampled_from(['gen', 'gen', 'iterable'])


def _draw_pair(draw, M):
    """A pair of arguments: mostly legal vertices, sometimes an edge that is already
    there (either orientation for simple graphs), sometimes anything in -1..n+2."""
    if M.kind == 'bipartite':
        hu, hv = M.L, M.R
    else:
        hu = hv = M.n
    mode = draw(_P_MODE)
    if mode == 'present' and M.E:
        E = sorted(M.E)
        u, v = E[draw(_B_BIG) % len(E)]
        if M.kind == 'simple' and draw(_BOOL):
            u, v = v, u
        return u, v
    if mode == 'legal' and hu >= 1 and hv >= 1:
        return 1 + draw(_B_BIG) % hu, 1 + draw(_B_BIG) % hv
    return draw(_B_BIG) % (hu + 4) - 1, draw(_B_BIG) % (hv + 4) - 1


def _gen_insert(M, u, v):
    if M.classify(u, v) != 'bad':
        M.E.add(M.norm(u, v))


@st.composite
def _history(draw, clsname, max_steps):
    case = {'cls': clsname}
    if clsname == 'BipartiteGraph':
        case['L'] = draw(_N_PAIRS)
        case['R'] = draw(_N_PAIRS)
        M = gm.Model(clsname, L=case['L'], R=case['R'])
    else:
        case['n'] = draw(_N_START)
        M = gm.Model(clsname, n=case['n'])
    # M is used here only to aim the arguments (existing edges, current size); the
    # oracle rebuilds its own model from the log.
    case['ops'] = _draw_ops(draw, clsname, M, max_steps)
    b = draw(_B_BIG)
    case['nx'] = {'mul': 1 + b % 3, 'add': (b // 3) % 7 - 3, 'rev': bool((b // 21) % 2)}
    return case


def _draw_ops(draw, clsname, M, max_steps):
    """0..max_steps operations aimed at the graph described by M (M is updated along)."""
    ops = []
    if max_steps not in _N_STEPS:
        _N_STEPS[max_steps] = st.integers(0, max_steps)
    nsteps = draw(_N_STEPS[max_steps])
    # the live objects as the generator sees them: [model, group, alive]; M is the model of the addressed one
    slots = [[M, 0, True]]
    cur = 0
    with_forks = draw(_B_BIG) % 3 == 0           # a third of the histories have copies
    for _ in range(nsteps):
        name = draw(_W_OP[clsname])
        if name in ('fork', 'switch') and not with_forks:
            name = 'add_edge'
        before = (M.n, len(M.E), hash(frozenset(M.E))) if len(slots) > 1 else None
        if name == 'fork':
            if len(slots) < MAX_OBJS:
                method = draw(_F_METHOD)
                ops.append(['fork', method, draw(_B_BIG) % 48])
                slots.append([M.copy(), slots[cur][1] if method == 'copy' else len(slots), True])
                if draw(_BOOL):
                    cur = len(slots) - 1
                    ops.append(['switch', cur])
                    M = slots[cur][0]
            continue
        if name == 'switch':
            live = [k for k in range(len(slots)) if slots[k][2]]
            if len(live) > 1:
                cur = live[draw(_B_BIG) % len(live)]
                ops.append(['switch', cur])
                M = slots[cur][0]
            continue
        if name == 'add_edge':
            u, v = _draw_pair(draw, M)
            ops.append(['add_edge', u, v])
            _gen_insert(M, u, v)
        elif name == 'remove_edge':
            u, v = _draw_pair(draw, M)
            ops.append(['remove_edge', u, v])
            M.E.discard(M.norm(u, v))
        elif name == 'hold':
            ops.append(['hold', draw(_H_KIND[clsname]), draw(_H_ARG), draw(_H_MODE)])
        elif name == 'consult':
            ops.append(['consult', draw(_H_WHICH)])
        elif name == 'reconvert':
            a = draw(_B_BIG)
            ops.append(['reconvert', VIAS[a % 2], 1 + (a // 2) % 3, (a // 6) % 7 - 3, bool((a // 42) % 2),
                        bool((a // 84) % 2)])
        elif name == 'live_batch':
            shape = draw(_L_SHAPE[clsname])
            a = draw(_B_BIG)
            if shape == 'subdivide':
                arg = [1 + a % 4, (a // 4) % 4]
            elif shape == 'grow':
                arg = [1 + a % 3]
            else:
                arg = [[list(_draw_pair(draw, M)) for _ in range(1 + draw(_N_PAIRS))]]
                if shape == 'chords':
                    arg.append(a % 64)
            ops.append(['live_batch', shape, arg, draw(_L_HOW)])
            _live_run(None, M, ops[-1], '')
        elif name == 'grow-and-join':
            # growth by 2 or 3 vertices and an edge between two of the new vertices
            k = draw(_H_GROW)
            if M.n + k <= NMAX:
                ops.append(['update_vertex_number', M.n + k])
                ops.append(['add_edge', M.n + k, M.n + 1] if k == 3 else ['add_edge', M.n + 1, M.n + 2])
                M.n += k
                _gen_insert(M, ops[-1][1], ops[-1][2])
        elif name == 'update_vertex_number':
            k = draw(_B_BIG) % (min(M.n + 3, NMAX) + 2) - 1
            ops.append(['update_vertex_number', k])
            if k > M.n:
                M.n = k
        else:
            k = draw(_N_PAIRS)
            pairs = [list(_draw_pair(draw, M)) for _ in range(k)]
            if draw(_BOOL):
                # a pair that must be refused, in the middle of the list
                if M.kind == 'bipartite':
                    bads = [[0, 1], [M.L + 1, 1], [1, M.R + 1], [1, 0], [-1, -1]]
                elif M.kind == 'simple':
                    bads = [[0, 1], [M.n + 1, 1], [1, M.n + 1], [1, 1], [1, 0], [M.n + 2, -1]]
                else:
                    bads = [[0, 1], [M.n + 1, 1], [1, M.n + 1], [1, 0], [M.n + 2, -1]]
                pairs.insert(len(pairs) // 2, bads[draw(_B_BIG) % len(bads)])
            ops.append(['add_edges_from', pairs, draw(_HOW)])
            for (u, v) in pairs:
                if M.classify(u, v) == 'bad':
                    break
                _gen_insert(M, u, v)
        if before is not None and before != (M.n, len(M.E), hash(frozenset(M.E))):
            # a change retires the shallow copies that share the tables of the object (see the copies section)
            for k, sl in enumerate(slots):
                if k != cur and sl[1] == slots[cur][1]:
                    sl[2] = False
        if name == 'reconvert':
            slots[cur][1] = 100 + len(ops)
    return ops


def _strategy(clsname):
    def make():
        steps = 50 if _tier() == 'quick' else 200
        # most histories short enough to leave the graph sparse, some long
        return st.one_of(_history(clsname, 12), _history(clsname, steps), _history(clsname, steps),
                         _foreign_history(clsname, steps // 2))
    return make


# ---------------------------------------------------------------------------
# complete enumeration of the short histories over a small alphabet

def _alphabet(clsname):
    if clsname == 'Graph':
        r = range(0, 4)
        ops = [['add_edge', u, v] for u in r for v in r]
        ops += [['remove_edge', u, v] for u in r for v in r]
        ops += [['update_vertex_number', k] for k in range(-1, 4)]
        ops += [['add_edges_from', [[1, 2], [2, 2], [1, 3]], 'list'],
                ['add_edges_from', [[2, 1], [3, 1], [2, 3]], 'iter']]
        starts = [{'n': n} for n in (0, 1, 2)]
    elif clsname == 'DirectedGraph':
        r = range(0, 5)
        ops = [['add_edge', u, v] for u in r for v in r]
        ops += [['add_edges_from', [[1, 2], [2, 0], [2, 1]], 'list'],
                ['add_edges_from', [[1, 2], [1, 3], [2, 3]], 'iter'],
                ['add_edges_from', [[1, 2], [2, 2], [3, 2]], 'list']]
        starts = [{'n': n} for n in (0, 1, 2, 3)]
    else:
        r = range(0, 4)
        ops = [['add_edge', u, v] for u in r for v in r]
        ops += [['add_edges_from', [[1, 1], [1, 3], [2, 1]], 'list'],
                ['add_edges_from', [[2, 2], [1, 2], [2, 1]], 'iter']]
        starts = [{'L': a, 'R': b} for a in (0, 1, 2) for b in (0, 1, 2)]
    return starts, ops


def _enumerate(clsname):
    def gen(tier):
        starts, ops = _alphabet(clsname)
        maxlen = 2 if tier == 'quick' else 3
        if clsname == 'BipartiteGraph':
            yield {'cls': clsname, 'L': -1, 'R': 2, 'ops': [], 'nx': None}
            yield {'cls': clsname, 'L': 2, 'R': -1, 'ops': [], 'nx': None}
        else:
            yield {'cls': clsname, 'n': -1, 'ops': [], 'nx': None}
        k = 0
        for s in starts:
            for length in range(0, maxlen + 1):
                for seq in itertools.product(ops, repeat=length):
                    k += 1
                    c = {'cls': clsname, 'ops': [list(o) for o in seq],
                         'nx': {'mul': 1 + k % 2, 'add': k % 3 - 1, 'rev': bool(k % 4 >= 2)}}
                    c.update(s)
                    yield c
        for c in _view_histories(clsname, tier):
            yield c
        for c in _fork_histories(clsname, tier):
            yield c
        for c in _live_histories(clsname, tier):
            yield c
        for c in _foreign_sweep(clsname, tier):
            yield c
    return gen


def _view_scripts(clsname):
    """Short update scripts: functions of the current sizes (a dict) giving the operations."""
    if clsname == 'Graph':
        def grow(k, edges):
            def f(z):
                n = z['n']
                z['n'] = n + k
                return [['update_vertex_number', n + k]] + [['add_edge', n + a, n + b] for a, b in edges] + \
                    ([['add_edge', 1, n + 1]] if n >= 1 and len(edges) > 1 else [])
            return f
        return [
            grow(2, [(1, 2)]),                                   # two new vertices and the edge between them
            grow(3, [(2, 3), (3, 1)]),                           # edges among new vertices and old-new
            lambda z: [['add_edge', 1, 2], ['add_edge', 3, 1], ['add_edge', z['n'], 1]],
            lambda z: [['remove_edge', 2, 1], ['remove_edge', 1, z['n']]],
            lambda z: [['add_edges_from', [[z['n'], 1], [2, 3], [z['n'] + 1, 1], [1, 2]], 'list']],
            grow(1, []),
            lambda z: [['add_batch', [[2, 1], [max(z['n'], 1), 2], [3, 2]], 'iter'], ['remove_edge', 1, 2],
                       ['add_edge', 2, 3]],
            lambda z: [['add_edge', 0, 1], ['add_edge', 2, 1], ['add_edge', 1, 2], ['update_vertex_number', z['n']]],
        ], [{'n': n} for n in (0, 1, 2, 3)], [['add_edge', 1, 2]]
    if clsname == 'DirectedGraph':
        return [
            lambda z: [['add_edge', 1, 2], ['add_edge', 2, 3]],
            lambda z: [['add_edge', z['n'], 1]],
            lambda z: [['add_edge', 1, 1], ['add_edge', 2, 1]],
            lambda z: [['add_edges_from', [[1, z['n']], [2, z['n']], [1, 3]], 'iter']],
            lambda z: [['add_edges_from', [[1, 2], [2, 4], [z['n'] + 1, 1], [3, 4]], 'list']],
            lambda z: [['add_edge', 0, 1], ['add_edge', 1, 2], ['add_batch', [[3, 1], [3, 2], [1, 3]], 'tuple']],
        ], [{'n': n} for n in (0, 1, 3, 4)], [['add_edge', 1, 2]]
    return [
        lambda z: [['add_edge', 1, 1], ['add_edge', 1, 2]],
        lambda z: [['add_edge', z['L'], z['R']], ['add_edge', 2, 1]],
        lambda z: [['add_edges_from', [[1, z['R']], [2, 1], [2, 2]], 'list']],
        lambda z: [['add_edges_from', [[1, 1], [z['L'] + 1, 1], [2, 3]], 'iter']],
        lambda z: [['add_edge', z['R'] + 1, 1], ['add_edge', 1, 1], ['add_edge', 1, 0]],
        lambda z: [['add_batch', [[2, 3], [1, 3], [1, 1]], 'tuple'], ['add_edge', 2, 2]],
    ], [{'L': 0, 'R': 0}, {'L': 0, 'R': 2}, {'L': 2, 'R': 3}, {'L': 3, 'R': 1}], [['add_edge', 1, 1]]


def _view_histories(clsname, tier):
    """[edge] hold script-a consult script-b consult [hold script-c consult]: every pair (a, b) of scripts from every
    start, the kinds of held object and the two modes in rotation (thorough tier: every kind and mode)."""
    scripts, starts, pre = _view_scripts(clsname)
    kinds = HOLD_KINDS[clsname]
    k = 0
    for s in starts:
        for with_pre in (0, 1):
            for a in range(len(scripts)):
                for b in range(len(scripts)):
                    k += 1
                    if tier == 'thorough':
                        variants = [(kd, md) for kd in kinds for md in ('lazy', 'eager')]
                    else:
                        variants = [((('edges',) + kinds)[k % (len(kinds) + 1)], ('lazy', 'eager')[(k // 5) % 2])]
                    for kd, md in variants:
                        z = dict(s)
                        ops = [list(o) for o in pre] if with_pre else []
                        ops.append(['hold', kd, k, md])
                        ops += scripts[a](z)
                        ops.append(['consult', 0])
                        ops += scripts[b](z)
                        ops.append(['consult', 0])
                        if k % 3 == 0:
                            # a second object, obtained in the middle of the history; both are looked at afterwards
                            ops.append(['hold', 'edges_succ' if (clsname == 'DirectedGraph' and k % 2) else 'edges', 0,
                                        'lazy'])
                            ops += scripts[(a + b + 1) % len(scripts)](z)
                            ops += [['consult', 1], ['consult', 0]]
                        c = {'cls': clsname, 'ops': ops, 'nx': {'mul': 1 + k % 2, 'add': k % 3 - 1, 'rev': bool(k % 4 >= 2)}}
                        c.update(s)
                        yield c


def _fork_variants(clsname):
    """(method, param): every way of copying; every pickle protocol, with and without a copied view; every format"""
    out = [('deepcopy', 0), ('deepcopy', 1), ('copy', 0), ('networkx', 0), ('deepcopy', 2), ('networkx', 1), ('deepcopy', 3)]
    out += [('pickle', p + 6 * (p % 2)) for p in range(6)]
    out += [('file', f) for f in (0, 1, 2, 7)]
    if clsname == 'DirectedGraph':
        out += [('file', 8 + f) for f in (0, 1, 2)]
    return out


def _fork_histories(clsname, tier):
    """[edge] script-a, hold edges(), FORK, script-b on the copy, script-c on the original, consult the view of the
    original, [a second fork - of the copy or of the original -, script-b on the newest, script-a on the first copy,
    script-c on the original]: every pair (a, b) of the update scripts of the held-view histories from every start;
    the ways of copying in rotation (thorough: every way for every pair)."""
    scripts, starts, pre = _view_scripts(clsname)
    variants = _fork_variants(clsname)
    k = 0
    for s in starts:
        for with_pre in (0, 1):
            for a in range(len(scripts)):
                for b in range(len(scripts)):
                    k += 1
                    c3 = (a + b + 1) % len(scripts)
                    for v in (range(len(variants)) if tier == 'thorough' else [k % len(variants)]):
                        z0 = dict(s)
                        ops = [list(o) for o in pre] if with_pre else []
                        ops += scripts[a](z0)
                        ops.append(['hold', 'edges', 0, ('lazy', 'eager')[k % 2]])
                        ops.append(['fork', variants[v][0], variants[v][1]])
                        z1 = dict(z0)
                        ops.append(['switch', 1])
                        ops += scripts[b](z1)
                        ops.append(['switch', 0])
                        ops += scripts[c3](z0)
                        ops.append(['consult', 0])
                        if k % 2:
                            w = variants[(v * 7 + k // 2) % len(variants)]
                            if k % 4 == 1:
                                ops.append(['switch', 1])
                                z2 = dict(z1)
                            else:
                                z2 = dict(z0)
                            ops.append(['fork', w[0], w[1]])
                            ops.append(['switch', 2])
                            ops += scripts[b](z2)
                            ops.append(['switch', 1])
                            ops += scripts[a](z1)
                            ops.append(['consult', 0])
                            ops.append(['switch', 0])
                            ops += scripts[c3](z0)
                        c = {'cls': clsname, 'ops': ops, 'nx': {'mul': 1 + k % 2, 'add': k % 3 - 1, 'rev': bool(k % 4 >= 2)}}
                        c.update(s)
                        yield c


def _live_variants(clsname):
    if clsname == 'Graph':
        P = [[1, 2], [2, 3], [3, 1], [1, 2], [2, 2], [1, 4], [4, 2]]
        return [['subdivide', [9, 0]], ['subdivide', [2, 1]], ['subdivide', [1, 2]], ['subdivide', [3, 3]],
                ['chords', [P, 0b0101010]], ['chords', [P, 0b1111111]], ['chords', [P, 0]], ['chords', [P[::-1], 0b0011001]],
                ['query', [P]], ['query', [[[2, 1], [1, 3]]]], ['toggle', [P]], ['toggle', [[[1, 2], [2, 1], [1, 3], [3, 2], [1, 2]]]],
                ['grow', [1]], ['grow', [2]], ['grow', [3]]]
    if clsname == 'DirectedGraph':
        P = [[1, 2], [2, 1], [2, 3], [1, 1], [3, 1], [1, 2], [4, 1]]
    else:
        P = [[1, 1], [1, 2], [2, 1], [3, 1], [1, 3], [1, 1], [2, 2]]
    return [['chords', [P, 0b0101010]], ['chords', [P, 0b1111111]], ['chords', [P, 0]], ['chords', [P[::-1], 0b1100110]],
            ['query', [P]], ['query', [P[:2]]]]


def _live_histories(clsname, tier):
    """[edge] script-a, [hold edges()], [FORK], LIVE BATCH, consult, script-b, [a second live batch], consult, [script-c on the
    copy]: every pair (a, b) of the update scripts of the held-view histories from every start; the shapes of live batch
    in rotation, two per pair (thorough: every shape for every pair); generator and iterable object alternate."""
    scripts, starts, pre = _view_scripts(clsname)
    variants = _live_variants(clsname)
    k = 0
    for s in starts:
        for with_pre in (0, 1):
            for a in range(len(scripts)):
                for b in range(len(scripts)):
                    k += 1
                    for v in (range(len(variants)) if tier == 'thorough' else [k % len(variants), (k * 7 + 3) % len(variants)]):
                        z = dict(s)
                        ops = [list(o) for o in pre] if with_pre else []
                        ops += scripts[a](z)
                        if (k + v) % 3:
                            ops.append(['hold', 'edges', 0, ('lazy', 'eager')[k % 2]])
                        forked = (k + v) % 4 == 0
                        if forked:
                            ops.append(['fork', ('deepcopy', 'pickle', 'networkx')[k % 3], k % 6])
                        live = ['live_batch', variants[v][0], variants[v][1], ('gen', 'iterable')[(k + v) % 2]]
                        ops.append(live)
                        if clsname == 'Graph':
                            # the sizes the later scripts are aimed at: what the live batch makes of the model
                            Z = gm.Model(clsname, n=z['n'])
                            for o in ops:
                                if o[0] == 'update_vertex_number':
                                    Z.n = max(Z.n, o[1])
                                elif o[0] == 'add_edge':
                                    _gen_insert(Z, o[1], o[2])
                                elif o[0] == 'remove_edge':
                                    Z.E.discard(Z.norm(o[1], o[2]))
                                elif o[0] == 'live_batch':
                                    _live_run(None, Z, o, '')
                            z['n'] = Z.n
                        ops.append(['consult', 0])
                        ops += scripts[b](z)
                        if k % 2:
                            w = variants[(v + 1 + k // 2) % len(variants)]
                            ops.append(['live_batch', w[0], w[1], ('iterable', 'gen')[(k + v) % 2]])
                        ops.append(['consult', 0])
                        if forked:
                            ops.append(['switch', 1])
                            ops += scripts[(a + b + 1) % len(scripts)](dict(s))
                        c = {'cls': clsname, 'ops': ops, 'nx': {'mul': 1 + k % 2, 'add': k % 3 - 1, 'rev': bool(k % 4 >= 2)}}
                        c.update(s)
                        yield c


# ---------------------------------------------------------------------------
# foreign objects, enumerated: every small networkx graph, then a short history on the converted object

SWEEP_LABELS = (
    [5, 3, 9, 7],                           # integers with gaps, not inserted in sorted order
    [0, -2, 1, -1],                         # starting at 0, negative
    ['10', '2', '1', '33'],                 # strings of digits: numbered as numbers
    ['b', 'a', 'c', 'B'],                   # strings
    [[0, 1], [0, 0], [1, 0], [1, 1]],       # tuples (a grid)
    [2.5, -1.0, 1000.0, 0.5],               # floats
    [True, 3, False, 2.5],                  # bool, int, float: sortable together
    ['a', 1, [0], 2.0],                     # not sortable together
    [1, 2, 3, 4],                           # already 1..n
    ['10', 'a', '9', 'b'],                  # strings, only some of digits: plain string order
    [4, 3, 2, 1],                           # 1..n inserted in decreasing order
)
COLOUR_SPELLINGS = ((0, 1), (False, True), ('0', '1'), (0, '1'), (False, 1), ('0', True))
BAD_COLOURS = (2, -1, 'left', '', None, [0], 'missing', '2', 0.5)


def _sweep_case(clsname, k, edges, nxname, via, colouring, c, scripts):
    fam = SWEEP_LABELS[c % len(SWEEP_LABELS)]
    nodes = [{'l': fam[i]} for i in range(k)]
    if colouring is not None:
        sp = COLOUR_SPELLINGS[(c // 3) % len(COLOUR_SPELLINGS)]
        for i in range(k):
            nodes[i]['b'] = sp[(colouring >> i) & 1]
    edges = [list(e) for e in edges]
    variant = (c // 5) % 4
    if variant == 1:
        edges = edges + edges[::-1]             # every edge twice
    elif variant == 2 and edges:
        edges = edges + [edges[0]]              # one edge twice
    elif variant == 3:
        edges = edges[::-1]
    F = {'nx': nxname, 'via': via, 'nodes': nodes, 'edges': edges}
    return _with_tail(clsname, F, c, scripts)


def _with_tail(clsname, F, c, scripts):
    """The case: the foreign object, then two of the update scripts of the held-view histories (insertions,
    duplicates, refused calls, batches, removals and growth for simple graphs), a held edge view, and in one case
    out of four a second conversion in the middle."""
    M = _foreign_final(clsname, F)
    ops = []
    if M is not None:
        z = {'L': M.L, 'R': M.R} if clsname == 'BipartiteGraph' else {'n': M.n}
        a, b = c % len(scripts), (c // len(scripts)) % len(scripts)
        ops.append(['hold', 'edges', 0, 'lazy'])
        ops += scripts[a](z)
        if sorted(M.E):
            u, v = sorted(M.E)[c % len(M.E)]
            ops.append(['add_edge', v, u] if clsname == 'Graph' else ['add_edge', u, v])    # an edge that came with the conversion, again
            if clsname == 'Graph' and c % 2:
                ops.append(['remove_edge', u, v])
        if c % 4 == 0:
            ops.append(['reconvert', VIAS[(c // 4) % 2], 1 + c % 3, c % 5 - 2, bool((c // 8) % 2), bool((c // 16) % 2)])
        ops += scripts[b](z)
        ops.append(['consult', 0])
    return {'cls': clsname, 'foreign': F, 'ops': ops,
            'nx': {'mul': 1 + c % 2, 'add': c % 3 - 1, 'rev': bool(c % 4 >= 2)}}


def _foreign_sweep(clsname, tier):
    """Every networkx graph on k <= 3 inserted labels: every set of ordered pairs (i, j), loops included, as edge
    list (as it is, reversed, every edge twice, one edge twice, in rotation), thorough: for each of the four
    networkx classes, both class methods and (bipartite) every colouring; quick: one of these combinations per edge
    set, chosen by a hash of the running number and VERIF_SEED.  Thorough also k = 4 with one combination each."""
    seed = int(os.environ.get('VERIF_SEED', '1'))
    scripts = _view_scripts(clsname)[0]
    c = 0
    for k in range(0, 4 if tier == 'quick' else 5):
        pairs = [(i, j) for i in range(k) for j in range(k)]
        colourings = list(range(1 << k)) if clsname == 'BipartiteGraph' else [None]
        combos = [(x, via, col) for col in colourings for x in NX_CLASSES for via in VIAS]
        everything = tier == 'thorough' and k <= 3
        for mask in range(1 << len(pairs)):
            edges = [pairs[b] for b in range(len(pairs)) if (mask >> b) & 1]
            for (x, via, col) in (combos if everything else [combos[derive_seed(seed, clsname, k, mask) % len(combos)]]):
                c += 1
                yield _sweep_case(clsname, k, edges, x, via, col, c, scripts)
    # objects that are not networkx graphs
    for kind in OTHER_KINDS:
        for via in VIAS:
            yield {'cls': clsname, 'foreign': {'other': kind, 'via': via}, 'ops': [], 'nx': None}
    # isolated vertices beyond the last edge; paths and stars on 4..6 labels of every family, inserted as listed
    for fi, fam in enumerate(SWEEP_LABELS):
        for shape in range(6):
            c += 1
            k = len(fam)
            if shape == 0:
                edges = [[0, 1]]                                    # two vertices joined, two isolated
            elif shape == 1:
                edges = [[i, i + 1] for i in range(k - 1)]          # a path in order of insertion
            elif shape == 2:
                edges = [[i + 1, i] for i in range(k - 1)] + [[0, k - 1]]
            elif shape == 3:
                edges = [[0, i] for i in range(1, k)]               # a star
            elif shape == 4:
                edges = [[i, j] for i in range(k) for j in range(k) if i != j]     # complete, both orientations
            else:
                edges = []
            nodes = [{'l': x} for x in fam]
            if clsname == 'BipartiteGraph':
                sp = COLOUR_SPELLINGS[c % len(COLOUR_SPELLINGS)]
                for i, nd in enumerate(nodes):
                    nd['b'] = sp[(i + shape // 3) % 2]
            F = {'nx': NX_CLASSES[c % 4], 'via': VIAS[(c // 4) % 2], 'nodes': nodes, 'edges': edges}
            yield _with_tail(clsname, F, c, scripts)
    if clsname == 'BipartiteGraph':
        # one node without a usable 'bipartite' attribute
        for k in (1, 2, 3):
            for pos in range(k):
                for bad in BAD_COLOURS:
                    c += 1
                    fam = SWEEP_LABELS[c % len(SWEEP_LABELS)]
                    nodes = [{'l': fam[i], 'b': COLOUR_SPELLINGS[c % 3][i % 2]} for i in range(k)]
                    if bad == 'missing':
                        del nodes[pos]['b']
                    else:
                        nodes[pos]['b'] = bad
                    edges = [[i, i + 1] for i in range(k - 1)] if c % 2 else [[i + 1, i] for i in range(k - 1)]
                    F = {'nx': NX_CLASSES[c % 4], 'via': VIAS[(c // 4) % 2], 'nodes': nodes, 'edges': edges}
                    yield _with_tail(clsname, F, c, scripts)


# foreign objects, generated
FAMILIES = ('int', 'digits', 'str', 'tuple', 'float', 'bool-int', 'int-float', 'mixed', 'mixed-str', '1..n')
_F_VALS = st.lists(st.integers(-9, 30), unique=True, min_size=6, max_size=6)
_F_EDGES = st.lists(st.tuples(_B_BIG, _B_BIG), max_size=14)
_F_COLS = st.lists(st.integers(0, 11), min_size=6, max_size=6)


def _family_label(fam, v, p):
    if fam == 'int':
        return v
    if fam == 'digits':
        return str(v + 9)
    if fam == 'str':
        return 'n{}'.format(v)
    if fam == 'tuple':
        return [v // 4, v % 4]
    if fam == 'float':
        return v / 2
    if fam == 'bool-int':
        return False if v == 0 else True if v == 1 else v
    if fam == 'int-float':
        return v if p % 2 else v + 0.5
    if fam == 'mixed':
        return v if p % 2 == 0 else 'n{}'.format(v)
    if fam == 'mixed-str':
        return str(v + 9) if p % 2 else 'x{}'.format(v)
    return p + 1


@st.composite
def _foreign_history(draw, clsname, max_steps):
    k = draw(_N_START)
    vals = draw(_F_VALS)[:k]
    a = draw(_B_BIG)
    fam = FAMILIES[a % len(FAMILIES)]
    flags = a // len(FAMILIES)
    with_loops = flags % 3 == 0
    strict = (flags // 3) % 3 != 0              # bipartite: only edges between the sides
    bad_colour = (flags // 9) % 8 == 0
    stray_attribute = (flags // 72) % 4 == 0    # simple / directed: a 'bipartite' attribute that means nothing
    nodes = [{'l': _family_label(fam, v, p)} for p, v in enumerate(vals)]
    cols = draw(_F_COLS)
    if clsname == 'BipartiteGraph' or stray_attribute:
        for p, nd in enumerate(nodes):
            nd['b'] = COLOUR_SPELLINGS[(cols[p] // 2) % len(COLOUR_SPELLINGS)][cols[p] % 2]
        if bad_colour and k:
            bad = BAD_COLOURS[(flags // 288) % len(BAD_COLOURS)]
            if bad == 'missing':
                del nodes[cols[0] % k]['b']
            else:
                nodes[cols[0] % k]['b'] = bad
    edges = [[i % k, j % k] for (i, j) in draw(_F_EDGES)] if k else []
    if not with_loops:
        edges = [e for e in edges if e[0] != e[1]]
    if clsname == 'BipartiteGraph' and strict:
        # an edge inside a side is moved to the next node of the other side, if there is one
        for e in edges:
            for d in range(k):
                if cols[e[0]] % 2 != cols[(e[1] + d) % k] % 2:
                    e[1] = (e[1] + d) % k
                    break
        edges = [e for e in edges if cols[e[0]] % 2 != cols[e[1]] % 2]
    b = draw(_B_BIG)
    F = {'nx': NX_CLASSES[b % 4], 'via': VIAS[(b // 4) % 2], 'nodes': nodes, 'edges': edges}
    M = _foreign_final(clsname, F)
    case = {'cls': clsname, 'foreign': F, 'ops': _draw_ops(draw, clsname, M, max_steps),
            'nx': {'mul': 1 + (b // 8) % 3, 'add': (b // 24) % 7 - 3, 'rev': bool((b // 168) % 2)}}
    return case


COMMON_RULE = ("model = vertex count + Python set of edges; after every step every public view is compared with "
               "the model (counts, edges() sorted/duplicate-free, has_edge and `in edges()` for every ordered pair "
               "from -1 to n+2, neighbour lists sorted, degrees, to_networkx); a call that must be refused has to "
               "raise ValueError and leave every view as it was; every 8th step and at the end "
               "from_networkx(to_networkx()), normalize(to_networkx()), normalize(G) is G and normalize of a "
               "relabelled networkx graph built from the model must give the model again. ")

VIEW_RULE = ("HELD VIEWS: the histories also contain `hold` (keep the object returned now by edges(), "
             "edges_ordered_by_successors(), vertices() / parts(), a neighbour generator or list; at most 4 are kept) and "
             "`consult k` steps (generated: about 1 step in 5; enumerated: from every start [an edge] hold, script a, consult, "
             "script b, consult, [a second hold, script c, consult both] for every pair (a, b) of 6-8 update scripts - growth by "
             "1..3 vertices with edges among the new vertices and between old and new ones, insertions, removals, batches "
             "with and without a forbidden pair, refused calls, duplicates - with the kind of object and the mode in "
             "rotation, thorough: every kind and mode). A held edge view is looked at when consulted, at the end of the "
             "history and (mode eager) after every later step: len(), iteration (sorted, each edge once, twice the same), "
             "and `in` for every ordered pair from -1 to n+2 must equal the model at that moment and the answers of a view "
             "obtained at that moment. Held ranges and neighbour lists/generators (snapshots in the tree) must show the "
             "graph at the time of the call or as it is now. ")
FOREIGN_RULE = ("FOREIGN OBJECTS: a quarter of the generated histories and an enumerated sweep start from "
                "cls.from_networkx(X) / cls.normalize(X) instead of cls(n), and any history may replace its object by the "
                "conversion of a networkx graph built from the model (operation reconvert: labels mul*i+add, insertion "
                "reversed or not, Graph/DiGraph or Multi(Di)Graph with every edge twice). X: networkx Graph, DiGraph, "
                "MultiGraph or MultiDiGraph; generated: 0..6 nodes inserted in any order with labels that are integers "
                "(negative, 0, gaps), strings of digits, other strings, tuples, floats, bool+int, int+float, int+str (not "
                "sortable), 1..n, up to 14 edges with parallel, antiparallel pairs and (a third of the cases) self-loops, "
                "'bipartite' attributes spelled 0/1, False/True, '0'/'1' or mixed, one case in 8 with an unusable one (2, "
                "-1, 0.5, 'left', '', '2', None, [0], missing), bipartite edges given in either orientation, a third of "
                "the cases with edges inside a side; enumerated: EVERY edge list over the ordered pairs (loops included) "
                "of k<=3 nodes (as it is / reversed / every edge twice / one edge twice and 11 label families in "
                "rotation), thorough: for each of the 4 networkx classes x 2 class methods (x every 2-colouring for "
                "BipartiteGraph) and k=4 with one combination per edge list, quick: one combination per edge list picked "
                "by a hash of VERIF_SEED; plus paths, cycles, stars, complete and edgeless graphs on the 4 labels of each "
                "family, every unusable colour at every position (k<=3), and 8 objects that are not networkx graphs "
                "(None, edge list, dict, str, int, the class networkx.Graph, objects of the two other cnfgen classes). "
                "Oracle, computed by the harness from the node list and the edge list alone: argument classes the target "
                "does not take (undirected graphs for DirectedGraph, non-graphs) -> ValueError or TypeError; a self-loop "
                "(Graph, BipartiteGraph), an edge inside a side, a node without usable colour -> ValueError; (DirectedGraph: "
                "loop kept or ValueError); nothing comes back from a refusal and the argument is never modified; the case "
                "then mends the argument (directed class / colours replaced / offending edges dropped) and converts "
                "again; otherwise the result is an object of the class whose EVERY view equals the model: k vertices, "
                "labels numbered in sorted order (all-digit strings numerically, unsortable labels: insertion order or "
                "any bijection; bipartite: each side 1..L / 1..R by insertion order or sorted), edge set = the "
                "pairs mapped, merged as duplicate insertions are (DiGraph (a,b)+(b,a): one edge of a Graph, two of a "
                "DirectedGraph). The history then continues on the converted object (enumerated: a held edge view, two "
                "update scripts, an edge of the conversion inserted again in the other orientation and removed, one case "
                "in 4 a reconvert in the middle) with all views compared after every step. ")
_CONV_LABELS = ['converted', 'via:from_networkx', 'via:normalize', 'nx:Graph', 'nx:DiGraph', 'nx:MultiGraph',
                'nx:MultiDiGraph', 'nx:other', 'foreign-not-a-networkx-graph-refused', 'conversion-refused-with-ValueError',
                'conversion-refused-with-TypeError', 'converted-after-repair', 'converted-parallel-edges',
                'converted-antiparallel-edges', 'converted-isolated-vertex', 'converted-last-vertex-isolated',
                'converted-null-graph', 'converted-single-vertex', 'labels:int', 'labels:int<=0', 'labels:int-with-gaps',
                'labels:digit-strings', 'labels:strings', 'labels:tuple', 'labels:float', 'labels:mixed-types',
                'labels-not-inserted-in-their-order', 'converted-then-inserted', 'converted-then-duplicate',
                'converted-then-duplicate-of-a-converted-edge', 'converted-then-refused', 'reconverted',
                'reconverted-from_networkx', 'reconverted-normalize']
_NUMBERING_LABELS = ['numbering:sorted', 'numbering:digit-strings', 'numbering:unsortable']
FORK_RULE = ("COPIES: a third of the generated histories and an enumerated family also contain `fork` steps (copy the object "
             "addressed at that moment: copy.deepcopy(G), copy.deepcopy((G, G.edges()))[0] with the copied view kept as a held "
             "view of the copy, pickle.loads(pickle.dumps(..)) with every protocol 0..5 with and without such a view, "
             "from_networkx / normalize of G.to_networkx(), writeGraph + readGraph through StringIO as kthlist, dimacs / "
             "matrix, gml, seldom dot (DirectedGraph: also as type 'dag' when it is one), copy.copy(G)) and `switch k` steps "
             "(the following operations - updates, batches, refused calls, growth, removals, hold / consult, reconvert, "
             "another fork - go to live object k); at most 4 objects live in a history; enumerated: from every start [an "
             "edge] script a, hold edges(), fork, script b on the copy, script c on the original, consult, and every other "
             "case a second fork (of the copy or of the original) followed by scripts on all three, for every pair (a, b) "
             "of the update scripts, the ways of copying in rotation (thorough: each of the 17-20 ways for every pair). "
             "Oracle: a fork gives another object of the same class whose every view equals the model at that moment and "
             "leaves the original as it was; then each object has its own model and after EVERY step every view of EVERY "
             "live object is compared with its own model (an update of one never shows in another; eager held views of "
             "each object too), at the end every live object passes the networkx conversions and its held views are "
             "consulted. copy.copy shares the tables of the original by construction of Python's shallow copy (no "
             "__copy__ in the classes): objects sharing tables must only agree as long as none is changed, calls without "
             "effect (refused, duplicate, absent removal, no growth) must leave all of them as they are, and the first "
             "call that changes one retires the others. ")
_FORK_LABELS = ['forked', 'fork:deepcopy', 'fork:pickle', 'fork:networkx', 'fork:file', 'fork:copy', 'switched',
                'copy-changed', 'original-changed-after-the-fork', 'both-changed-after-the-fork', 'objects-differ',
                'refused-call-on-a-copy', 'three-live-objects', 'fork-of-a-copy', 'fork-with-a-copied-view',
                'fork-while-a-view-is-held', 'fork-with-edges', 'shallow-copy-retired-at-first-change',
                'call-without-effect-in-a-group-of-shallow-copies', 'change-of-one-object-others-checked',
                'fork-file:kthlist', 'fork-file:gml', 'fork-file:dot']
LIVE_RULE = ("LIVE BATCHES: the histories also contain `live_batch` steps (generated: about 1 step in 12 for Graph, 1 in 18 for the "
             "other classes, at any point of the history, also on copies and with held views around; enumerated: from every "
             "start [an edge] script a, [hold edges()], [fork], LIVE BATCH, consult, script b, [a second live batch], consult, "
             "[script c on the copy] for every pair (a, b) of the 6-8 update scripts with the 15 (Graph) / 6 (other classes) "
             "scripted shapes in rotation, thorough: every shape for every pair): add_edges_from(iterable) where the iterable - "
             "a generator or an object whose __iter__ returns one - looks at and CHANGES THE SAME GRAPH between two pairs. "
             "Shapes: subdivide (Graph; for 1..4 (enumerated up to 9) edges of the graph as it is, in sorted / reversed / "
             "every-second / rotated order: remove_edge(u,v) in either orientation, update_vertex_number(n+1), hand out (u,w) "
             "and (w,v), has_edge and number_of_edges asked in between), chords (1..6 pairs drawn like the arguments of "
             "add_edge, each inserted by the iterable itself with add_edge or handed out, by a 6-bit mask), query (1..6 pairs "
             "handed out; number_of_edges(), has_edge of the pair just handed out in both orientations, len(edges()) and, half "
             "way, every view asked in between), toggle (Graph; present edges removed by the iterable and every second one "
             "handed out again, absent ones handed out and every third one removed when the next pair is asked for), grow "
             "(Graph; update_vertex_number(n+1..3) by the iterable, then edges on the new vertices, one more vertex, one more "
             "edge); vertex count capped at 16; pairs that must be refused are tried by the iterable itself (ValueError, "
             "nothing changes), never handed out. Oracle: add_edges_from inserts the pairs one by one, so the effects happen in "
             "the order of the calls exactly as if the steps had been issued one by one - the model is updated call by call (a "
             "pair handed out is in the graph when the next one is asked for), every answer the iterable gets is compared with "
             "the model at that moment, the call must read the iterable to its end, once, without ValueError, and afterwards "
             "(and after every later step) every view - number_of_edges, len(edges()), the listing, degrees, neighbours, "
             "has_edge, the networkx copy, held views, the other live objects - must agree with the model. ")
_LIVE_LABELS = ['live-batch', 'live:chords', 'live:query', 'live-how-gen', 'live-how-iterable', 'live-2-pairs-taken',
                'live-insertion-by-the-iterable', 'live-query-by-the-iterable', 'live-refused-call-by-the-iterable',
                'live-batch-then-inserted', 'live-batch-then-duplicate', 'live-batch-then-refused',
                'live-batch-after-live-batch', 'live-batch-with-held-views', 'live-batch-with-several-live-objects']
_LIVE_LABELS_SIMPLE = ['live:subdivide', 'live:toggle', 'live:grow', 'live-removal-by-the-iterable',
                       'live-growth-by-the-iterable', 'live-batch-then-removal', 'live-batch-then-growth',
                       'live-batch-after-growth']
_VIEW_LABELS = ['view-held', 'view-consulted', 'held:edges', 'held:nbrs', 'held-eager', 'held-lazy',
                'held-edge-view-consulted', 'consult-after-insertion', 'consult-after-batch', 'consult-after-refused-call',
                'looked-at-again-after-a-change', 'view-held-at-0-vertices']

SUBCHECKS = [
    SubCheck('simple', run_case, strategy=_strategy('Graph'), enumerate_cases=_enumerate('Graph'),
             quick=4000, thorough=16000,
             rule="Graph(n), n=0..6, histories of 0..50 (thorough 0..200) calls of add_edge / remove_edge / "
                  "add_edges_from (half of them with a forbidden pair in the middle, list or iterator) / "
                  "update_vertex_number(-1..n+3, capped at 12), arguments legal, already present (either "
                  "orientation) or anything in -1..n+2; plus every history of length <=2 (thorough <=3) over 39 "
                  "operations from n=0,1,2. " + COMMON_RULE + VIEW_RULE + FOREIGN_RULE + FORK_RULE + LIVE_RULE +
                  "Non-trivial: >=5 successful insertions and a removal after a growth.",
             required_labels=['refused', 'refused-nothing-changed', 'duplicate', 'duplicate-other-orientation',
                              'removal', 'removal-other-orientation', 'remove-absent', 'growth',
                              'growth-not-above', 'growth-negative-refused', 'removal-after-growth',
                              'edge-on-new-vertex', 'selfloop-refused', 'refused-zero', 'batch-ok',
                              'batch-refused', 'batch-bad-in-the-middle', 'initial-size-0',
                              'networkx-relabelled', '5-insertions', 'bad-initial-size'] + _VIEW_LABELS +
             ['held:vertices', 'consult-after-growth', 'consult-after-removal', 'consult-sees-edge-among-new-vertices',
              'consult-sees-edges-of-a-graph-held-at-0-vertices', 'consult-same-count-other-edges'] + _CONV_LABELS +
             _NUMBERING_LABELS + ['foreign-selfloop-refused', 'converted-then-growth', 'converted-then-removal',
                                  'converted-then-removal-of-a-converted-edge'] + _FORK_LABELS +
             ['copy-growth', 'copy-removal', 'copy-inserted', 'copies-with-different-vertex-counts-at-the-end',
              'fork-with-last-vertex-isolated', 'fork-file:dimacs'] + _LIVE_LABELS + _LIVE_LABELS_SIMPLE),
    SubCheck('directed', run_case, strategy=_strategy('DirectedGraph'), enumerate_cases=_enumerate('DirectedGraph'),
             quick=4000, thorough=16000,
             rule="DirectedGraph(n), n=0..6, histories of 0..50 (thorough 0..200) calls of add_edge / "
                  "add_edges_from with forward edges, back edges, loops, duplicates and out-of-range arguments; "
                  "plus every history of length <=2 (thorough <=3) over 28 operations from n=0..3. " + COMMON_RULE + VIEW_RULE +
                  FOREIGN_RULE + FORK_RULE + LIVE_RULE +
                  "is_dag() must be True exactly when every inserted edge has src < dest (also after refused back "
                  "edges). Non-trivial: >=5 successful insertions.",
             required_labels=['refused', 'refused-nothing-changed', 'duplicate', 'back-edge', 'loop',
                              'dag-at-the-end', 'not-dag-at-the-end', 'batch-ok', 'batch-refused',
                              'batch-bad-in-the-middle', 'initial-size-0', 'networkx-relabelled',
                              '5-insertions', 'refused-zero', 'bad-initial-size'] + _VIEW_LABELS +
             ['held:edges_succ', 'held:vertices'] + _CONV_LABELS + _NUMBERING_LABELS +
             ['foreign-class-refused', 'converted-loop'] + _FORK_LABELS +
             ['fork-with-a-loop', 'fork-file-as-dag', 'fork-file:dimacs'] + _LIVE_LABELS),
    SubCheck('bipartite', run_case, strategy=_strategy('BipartiteGraph'), enumerate_cases=_enumerate('BipartiteGraph'),
             quick=4000, thorough=16000,
             rule="BipartiteGraph(L,R), L,R=0..5, histories of 0..50 (thorough 0..200) calls of add_edge / "
                  "add_edges_from, left argument in -1..L+2 and right argument in -1..R+2; plus every history of "
                  "length <=2 (thorough <=3) over 18 operations from L,R in 0..2. " + COMMON_RULE + VIEW_RULE + FOREIGN_RULE + FORK_RULE + LIVE_RULE +
                  "Non-trivial: >=5 successful insertions.",
             required_labels=['refused', 'refused-nothing-changed', 'duplicate', 'swapped-sides-refused',
                              'batch-ok', 'batch-refused', 'batch-bad-in-the-middle', 'initial-size-0',
                              'one-empty-side', 'networkx-relabelled', '5-insertions', 'refused-zero',
                              'bad-initial-size'] + _VIEW_LABELS + ['held:parts'] + _CONV_LABELS +
             ['foreign-selfloop-refused', 'foreign-edge-inside-a-side-refused', 'foreign-bad-colour-refused',
              'foreign-missing-colour-refused', 'colours:int', 'colours:bool', 'colours:str',
              'converted-edge-given-right-left', 'converted-one-empty-side'] + _FORK_LABELS + ['fork-file:matrix'] + _LIVE_LABELS),
]


# ---------------------------------------------------------------------------
# batches: add_edges_from with 1..100 pairs (beyond 32 and 64), any order, duplicates, one forbidden pair
#
# The operation ["add_batch", pairs, "list"|"iter"|"tuple"] is add_edges_from judged by a rule that does not
# assume an order of processing (nothing documents add_edges_from but its code):
#   * no forbidden pair in the list -> the call returns and every pair of the list is in the graph;
#   * a pair that must be refused   -> ValueError; the graph then holds its former edges plus ANY subset of
#     the legal pairs of the list (has_edge says which), and every view has to agree with exactly that set;
#   * only a gray pair (a loop in a directed graph) -> either of the two.
# Afterwards the history goes on (add_edge, remove_edge, growth, another batch) on the same model.

BATCH_SIZES_QUICK = (1, 2, 5, 31, 32, 33, 63, 64, 65, 100)
BATCH_SIZES_THOROUGH = tuple(range(1, 101))
BATCH_ORDERS = ('sorted', 'reversed', 'shuffled', 'by-second')
BATCH_BAD = {
    'Graph': ('none', 'above-range', 'zero', 'self-loop', 'negative'),
    'DirectedGraph': ('none', 'above-range', 'zero', 'negative', 'gray-loop'),
    'BipartiteGraph': ('none', 'above-left', 'above-right', 'zero', 'wrong-side'),
}
BATCH_POS = ('first', 'middle', 'last', 'random')


def _apply_batch(G, M, op, ctx):
    pairs = [tuple(p) for p in op[1]]
    how = op[2] if len(op) > 2 else 'list'
    arg = {'iter': iter(list(pairs)), 'tuple': tuple(pairs)}.get(how, list(pairs))
    kinds = [M.classify(u, v) for (u, v) in pairs]
    legal = set(M.norm(u, v) for (u, v), k in zip(pairs, kinds) if k != 'bad')
    labels = set(['batch'])
    n = len(pairs)
    labels.add('batch-size<32' if n < 32 else 'batch-size-32..63' if n < 64 else 'batch-size>=64')
    normed = [M.norm(u, v) for (u, v), k in zip(pairs, kinds) if k != 'bad']
    if len(set(normed)) < len(normed):
        labels.add('batch-repeats-a-pair')
    if any(e in M.E for e in normed):
        labels.add('batch-repeats-an-edge-of-the-graph')
    good = [p for p, k in zip(pairs, kinds) if k != 'bad']
    labels.add('batch-given-sorted' if good == sorted(good) else 'batch-given-unsorted')
    if 'bad' in kinds:
        k = kinds.index('bad')
        labels.add('batch-bad-first' if k == 0 else 'batch-bad-last' if k == n - 1 else 'batch-bad-inside')
    ok, res = gm._call(ctx, G.add_edges_from, arg)
    if ok:
        if 'bad' in kinds:
            raise Violation("{}: add_edges_from of {} pairs with the forbidden pair {} did not raise ValueError | model: {}".format(
                ctx, n, pairs[kinds.index('bad')], M.describe()))
        new = legal - M.E
        M.inserted_total += len(new)
        M.E |= legal
        labels.add('batch-ok')
        if new:
            labels.add('inserted')
        return labels
    if 'bad' not in kinds and 'gray' not in kinds:
        raise Violation("{}: add_edges_from of {} legal pairs raised ValueError({}) | model: {}".format(
            ctx, n, res, M.describe()))
    seen = set(e for e in legal if G.has_edge(e[0], e[1]))
    kept = seen - M.E
    labels.update(('refused', 'batch-refused'))
    if 'bad' in kinds:
        prefix = set(M.norm(u, v) for (u, v) in pairs[:kinds.index('bad')]) - M.E
        labels.add('batch-kept-nothing' if not kept else 'batch-kept-the-pairs-before-the-bad-one' if kept == prefix
                   else 'batch-kept-another-subset')
        if n >= 32:
            labels.add('big-batch-refused')
            if kinds.index('bad') >= 2 and 'batch-given-unsorted' in labels:
                labels.add('big-unsorted-batch-refused-after-legal-pairs')
    if kept:
        labels.add('inserted')
    M.inserted_total += len(kept)
    M.E |= kept
    return labels


def _universe(clsname, sizes):
    if clsname == 'BipartiteGraph':
        return [(u, v) for u in range(1, sizes[0] + 1) for v in range(1, sizes[1] + 1)]
    n = sizes[0]
    if clsname == 'Graph':
        return [(u, v) for u in range(1, n + 1) for v in range(u + 1, n + 1)]
    return [(u, v) for u in range(1, n + 1) for v in range(1, n + 1) if u != v]


def _bad_pair(rng, clsname, sizes, kind):
    if clsname == 'BipartiteGraph':
        L, Rr = sizes
        if kind == 'above-left':
            return [L + rng.randint(1, 2), rng.randint(1, max(Rr, 1))]
        if kind == 'above-right':
            return [rng.randint(1, max(L, 1)), Rr + rng.randint(1, 2)]
        if kind == 'wrong-side' and L != Rr:
            # a legal edge (u, v) given as (v, u), with v not a left vertex or u not a right vertex
            if Rr > L:
                return [rng.randint(L + 1, Rr), rng.randint(1, max(L, 1))]
            return [rng.randint(1, max(Rr, 1)), rng.randint(Rr + 1, L)]
        return [[0, rng.randint(1, max(Rr, 1))], [rng.randint(1, max(L, 1)), 0]][rng.randint(0, 1)]
    n = sizes[0]
    x = rng.randint(1, max(n, 1))
    if kind == 'above-range':
        return [[n + rng.randint(1, 2), x], [x, n + rng.randint(1, 2)]][rng.randint(0, 1)]
    if kind == 'negative':
        return [[-x, x], [x, -1]][rng.randint(0, 1)]
    if kind in ('self-loop', 'gray-loop'):
        return [x, x]
    return [[0, x], [x, 0]][rng.randint(0, 1)]


def make_batch_case(rseed, clsname, size, order, bad, pos, dups, pre, how='list'):
    """An explicit operation log: some edges first (pre), the batch, then more calls on the same object."""
    import random
    rng = random.Random(rseed)
    case = {'cls': clsname}
    if clsname == 'BipartiteGraph':
        sizes = rng.choice([(3, 4), (5, 8), (8, 8), (10, 12), (12, 9), (2, 20)])
        if bad == 'wrong-side' and sizes[0] == sizes[1]:
            sizes = (10, 12)
        case['L'], case['R'] = sizes
    else:
        sizes = (rng.choice([5, 8, 12, 16, 20] if clsname == 'Graph' else [4, 7, 10, 14]),)
        case['n'] = sizes[0]
    U = _universe(clsname, sizes)
    simple = clsname == 'Graph'
    orient = (lambda p: [p[1], p[0]] if (simple and rng.random() < 0.5) else [p[0], p[1]])
    ops = []
    present = []
    if pre >= 1:
        for p in rng.sample(U, min(len(U), rng.randint(1, 6))):
            ops.append(['add_edge'] + orient(p))
            present.append(p)
    if pre >= 2:
        extra = rng.sample(U, min(len(U), rng.randint(2, 40)))
        ops.append(['add_batch', [orient(p) for p in extra], 'list'])
        present.extend(extra)
        if simple and present:
            p = rng.choice(present)
            ops.append(['remove_edge'] + orient(p))
    # ---- the batch
    nbad = 0 if bad == 'none' else 1
    room = size - nbad
    distinct = room if dups == 0 else max(1, (room * 2) // 3) if room else 0
    distinct = min(distinct, len(U))
    chosen = rng.sample(U, distinct)
    if dups and present and chosen:
        chosen[0] = rng.choice(present)              # a pair that is already an edge of the graph
        chosen = list(dict.fromkeys(chosen))
    if order == 'sorted':
        chosen.sort()
    elif order == 'reversed':
        chosen.sort(reverse=True)
    elif order == 'by-second':
        chosen.sort(key=lambda p: (p[1], -p[0]))
    pairs = [orient(p) for p in chosen]
    while len(pairs) < room and chosen:                # repeated pairs, anywhere
        pairs.insert(rng.randint(0, len(pairs)), orient(rng.choice(chosen)))
    if nbad:
        k = {'first': 0, 'last': len(pairs), 'middle': len(pairs) // 2}.get(pos)
        if k is None:
            k = rng.randint(0, len(pairs))
        pairs.insert(k, _bad_pair(rng, clsname, sizes, bad))
    main_at = len(ops)
    ops.append(['add_batch', pairs, how])
    # ---- afterwards
    touched = chosen or U[:1]
    for _ in range(rng.randint(3, 7)):
        r = rng.random()
        if r < 0.3 and touched:
            ops.append(['add_edge'] + orient(rng.choice(touched)))         # a pair of the batch again
        elif r < 0.6 and U:
            u = rng.choice(touched)[0] if touched else 1
            near = [p for p in U if u in p]
            ops.append(['add_edge'] + orient(rng.choice(near or U)))        # at a vertex the batch touched
        elif r < 0.7:
            ops.append(['add_edge'] + _bad_pair(rng, clsname, sizes, BATCH_BAD[clsname][rng.randint(1, 3)]))
        elif r < 0.8 and simple and touched:
            ops.append(['remove_edge'] + orient(rng.choice(touched)))
        elif r < 0.87 and simple:
            ops.append(['update_vertex_number', sizes[0] + 1])
            ops.append(['add_edge', sizes[0] + 1, rng.randint(1, sizes[0])])
        elif U:
            again = rng.sample(U, min(len(U), rng.choice([3, 33, 70])))
            ops.append(['add_batch', [orient(p) for p in again], rng.choice(['list', 'iter'])])
    # ---- an edge view obtained before the batch (and, every other case, one obtained on the new object) is
    # looked at right after the batch and at the end of the history (positions fixed by rseed, no random draw)
    kind = 'edges_succ' if (clsname == 'DirectedGraph' and rseed % 4 == 1) else 'edges'
    ops.append(['consult', 0])
    ops.append(['consult', 1])
    ops.insert(main_at + 1, ['consult', rseed % 2])
    ops.insert(main_at, ['hold', kind, 0, 'eager' if rseed % 3 == 0 else 'lazy'])
    if rseed % 2:
        ops.insert(0, ['hold', 'edges', 0, 'lazy'])
    case['ops'] = ops
    case['nx'] = {'mul': 1 + rseed % 3, 'add': rseed % 5 - 2, 'rev': bool(rseed % 2)}
    case['meta'] = {'size': size, 'order': order, 'bad': bad, 'pos': pos, 'dups': dups, 'pre': pre}
    return case


def run_batch_case(case):
    out = run_case(case)
    meta = case.get('meta') or {}
    labels = list(out.labels)
    if meta:
        labels += ['bad:' + meta['bad'], 'order:' + meta['order'], 'pos:' + meta['pos'] if meta['bad'] != 'none' else 'pos:-']
    batches = [op for op in case['ops'] if op[0] == 'add_batch']
    big = any(len(op[1]) >= 5 for op in batches)
    return Outcome(labels=sorted(set(labels)), nontrivial=big and '5-insertions' in out.labels, rejected=out.rejected)


def enum_batches(tier):
    k = 0
    sizes = BATCH_SIZES_QUICK if tier == 'quick' else BATCH_SIZES_THOROUGH
    orders = BATCH_ORDERS[:3] if tier == 'quick' else BATCH_ORDERS
    for clsname in ('Graph', 'DirectedGraph', 'BipartiteGraph'):
        for size in sizes:
            for order in orders:
                for bad in BATCH_BAD[clsname][:4 if tier == 'quick' else 5]:
                    for pos in (('-',) if bad == 'none' else BATCH_POS[:3] if tier == 'quick' else BATCH_POS):
                        k += 1
                        yield make_batch_case(7 * k + 1, clsname, size, order, bad, pos, dups=k % 2, pre=k % 3,
                                              how=('list', 'iter', 'tuple')[k % 3])
    if tier == 'quick':
        # the fifth kind of forbidden pair of each class, at the sizes around the thresholds
        for clsname in ('Graph', 'DirectedGraph', 'BipartiteGraph'):
            for size in (2, 31, 33, 64, 100):
                for pos in BATCH_POS:
                    k += 1
                    yield make_batch_case(7 * k + 1, clsname, size, BATCH_ORDERS[k % 4], BATCH_BAD[clsname][4], pos,
                                          dups=k % 2, pre=k % 3)


_B_SIZE = st.one_of(st.integers(1, 100), st.sampled_from([31, 32, 33, 63, 64, 65, 99, 100]))
_B_CLS = st.sampled_from(['Graph', 'DirectedGraph', 'BipartiteGraph'])


@st.composite
def _batch_strategy(draw):
    clsname = draw(_B_CLS)
    size = draw(_B_SIZE)
    a, b = draw(_B_BIG), draw(_B_BIG)
    bad = BATCH_BAD[clsname][a % 5] if (a // 5) % 4 else 'none'
    return make_batch_case(b, clsname, size, BATCH_ORDERS[(a // 20) % 4], bad, BATCH_POS[(a // 80) % 4],
                           dups=(a // 320) % 2, pre=(a // 640) % 3, how=('list', 'iter', 'tuple')[(a // 1920) % 3])


SUBCHECKS.append(
    SubCheck('batches', run_batch_case, strategy=lambda: _batch_strategy(), enumerate_cases=enum_batches,
             quick=500, thorough=20000,
             rule="add_edges_from on Graph(5..20), DirectedGraph(4..14), BipartiteGraph(3x4 .. 10x12, 2x20) with a list, "
                  "an iterator or a tuple of 1..100 pairs (enumerated quick: 1, 2, 5, 31, 32, 33, 63, 64, 65, 100; thorough: "
                  "every size 1..100; generated: any size), given sorted, reversed, shuffled or sorted by second "
                  "endpoint, simple graphs with either orientation of each pair, with or without repeated pairs inside "
                  "the list and pairs that are already edges, and with no or one forbidden pair (vertex above the "
                  "range, 0, negative, self-loop in a simple graph, right/left swapped out of range in a bipartite "
                  "graph; a loop in a directed graph is gray) at the first, middle, last or a random position; the graph "
                  "is empty or holds a few edges / an earlier batch / a removal before; after the batch 3..7 more "
                  "calls: add_edge of a pair of the batch, of a pair at a vertex the batch touched, of a forbidden "
                  "pair, remove_edge, update_vertex_number + an edge on the new vertex (Graph), another batch of 3, 33 "
                  "or 70 pairs; an edge view obtained just before the batch (every other case also one obtained on the new "
                  "object) is consulted right after the batch and at the end (see HELD VIEWS of the other sub-checks). "
                  "Oracle: the model; a batch without forbidden pair must return and insert every pair; a "
                  "batch with a forbidden pair must raise ValueError and may leave ANY subset of its legal pairs in "
                  "the graph (has_edge tells which, no order of processing or atomicity is assumed): the model becomes "
                  "old edges + that subset; then, as after every step, " + COMMON_RULE +
                  "Non-trivial: a batch of >=5 pairs and >=5 successful insertions.",
             required_labels=['Graph', 'DirectedGraph', 'BipartiteGraph', 'batch-size<32', 'batch-size-32..63',
                              'batch-size>=64', 'batch-ok', 'batch-refused', 'big-batch-refused',
                              'big-unsorted-batch-refused-after-legal-pairs', 'batch-bad-first', 'batch-bad-inside',
                              'batch-bad-last', 'batch-repeats-a-pair', 'batch-repeats-an-edge-of-the-graph',
                              'batch-given-sorted', 'batch-given-unsorted', 'add_edge-after-refused-batch',
                              'bad:above-range', 'bad:zero', 'bad:negative', 'bad:self-loop', 'bad:gray-loop',
                              'bad:above-left', 'bad:above-right', 'bad:wrong-side', 'bad:none', 'order:sorted',
                              'order:reversed', 'order:shuffled', 'order:by-second', 'removal', 'growth',
                              'duplicate', '5-insertions', 'networkx-relabelled', 'view-held', 'view-consulted',
                              'consult-after-batch', 'held:edges_succ', 'held-eager', 'held-lazy']))
