"""C16 - graph objects stay consistent under any sequence of updates.

A case is an operation log

    {"cls": "Graph", "n": 3, "ops": [["add_edge", 1, 2], ["update_vertex_number", 5],
                                     ["add_edges_from", [[1, 3], [0, 2], [2, 3]], "list"],
                                     ["remove_edge", 2, 1]], "nx": {"mul": 2, "add": -1, "rev": true}}

(``"L"``, ``"R"`` instead of ``"n"`` for BipartiteGraph).  run_case replays the log on
a fresh object and on the model of vlib/graphmodel.py (vertex count + Python set of
edges) and compares every public view with the model after every step; at the end
(and every 8th step) the networkx conversions are checked as well.
"""
import itertools
import os
import sys

from hypothesis import strategies as st

from vlib.core import SubCheck, Violation, Outcome
from vlib import graphmodel as gm

PROPERTY = "C16"
ASSUMPTIONS = [
    "only public methods are observed (number_of_vertices/order/len/vertices/parts, number_of_edges, edges(), has_edge, "
    "neighbors/predecessors/successors/left_neighbors/right_neighbors, the degree functions, is_dag, is_directed, "
    "is_bipartite, to_networkx, from_networkx, normalize); no attribute is read",
    "remove_edge and update_vertex_number exist only in Graph (DirectedGraph.is_dag documents that edges are never "
    "removed), so only Graph histories contain them",
    "gray, both outcomes accepted: a self-loop in a DirectedGraph may be inserted (what the code does; is_dag() must "
    "then be False) or refused with ValueError (what its error message says)",
    "gray: add_edges_from with a pair that must be refused has to raise ValueError; the edges of the list before "
    "that pair may be kept (the code is a plain loop over add_edge) or the whole call may be undone; anything else "
    "is a violation",
    "gray: remove_edge of an edge that is not in the graph (including out-of-range arguments) and "
    "update_vertex_number(k) with 0 <= k <= n must leave the graph unchanged, silently or with ValueError",
    "has_edge / `in edges()` are expected to answer False for pairs with a vertex outside the graph (probed up to "
    "two positions outside the range)",
    "the order of edges_ordered_by_successors() is not asserted (no caller in the tree; the name does not pin it down), "
    "only its content",
    "edges() of a simple graph must be sorted as listed and contain every edge once in some orientation; the "
    "orientation itself (u<v) is not asserted",
    "from_networkx on foreign networkx graphs: labels are an increasing integer relabelling of 1..n; for bipartite "
    "graphs the vertices of each side are inserted in increasing order (the class relabels each side by order of "
    "appearance, Graph/DirectedGraph by sorted label), possibly the whole right side before the left side",
]

NMAX = 12          # vertex growth is capped so that the cost of a step stays bounded


def _tier():
    a = sys.argv
    for i, x in enumerate(a):
        if x == '--tier' and i + 1 < len(a):
            return a[i + 1]
        if x.startswith('--tier='):
            return x.split('=', 1)[1]
    return os.environ.get('VERIF_TIER', 'quick')


# ---------------------------------------------------------------------------
# running a history

def run_case(case):
    clsname = case['cls']
    if clsname not in gm.KINDS:
        raise ValueError("unknown class in case: {}".format(clsname))
    sizes = [case['L'], case['R']] if clsname == 'BipartiteGraph' else [case['n']]
    if min(sizes) < 0:
        try:
            gm.build(clsname, case)
        except ValueError:
            return Outcome(labels=['bad-initial-size'], nontrivial=False, rejected=True)
        raise Violation("{}({}) with a negative size was not refused with ValueError".format(
            clsname, ','.join(map(str, sizes))))
    G, M = gm.build(clsname, case)
    n0 = M.n
    labels = set([clsname])
    if min(sizes) == 0:
        labels.add('initial-size-0')
    head = "{}({})".format(clsname, ','.join(map(str, sizes)))
    gm.check_views(G, M, head + " freshly created")
    grown = False
    nxp = case.get('nx') or {'mul': 1, 'add': 0, 'rev': False}
    nxp = {'mul': nxp['mul'], 'add': nxp['add'], 'rev': nxp['rev']}
    ops = case['ops']
    for i, op in enumerate(ops):
        if not hasattr(G, op[0]):
            labels.add('operation-not-offered')
            continue
        ctx = "{} after step {} {}".format(head, i, _show(op))
        before = len(M.E)
        got = gm.apply_op(G, M, op, ctx)
        labels |= got
        if 'growth' in got:
            grown = True
        if 'removal' in got and grown:
            labels.add('removal-after-growth')
        if n0 is not None and 'inserted' in got and op[0] == 'add_edge' and max(op[1], op[2]) > n0:
            labels.add('edge-on-new-vertex')
        if 'refused' in got and len(M.E) == before:
            labels.add('refused-nothing-changed')
        gm.check_views(G, M, ctx)
        if i % 8 == 7 and i != len(ops) - 1:
            gm.check_conversions(G, M, ctx, nxp)
    gm.check_conversions(G, M, "{} at the end of {} steps".format(head, len(ops)), nxp)
    if M.kind == 'directed' and M.E and M.is_dag():
        labels.add('dag-at-the-end')
    if M.kind == 'directed' and M.E and not M.is_dag():
        labels.add('not-dag-at-the-end')
    if nxp['rev'] or nxp['mul'] != 1 or nxp['add'] != 0:
        labels.add('networkx-relabelled')
    if M.kind == 'bipartite' and (M.L == 0) != (M.R == 0):
        labels.add('one-empty-side')
    if M.inserted_total >= 5:
        labels.add('5-insertions')
    nontrivial = M.inserted_total >= 5 and (M.kind != 'simple' or 'removal-after-growth' in labels)
    return Outcome(labels=sorted(labels), nontrivial=nontrivial)


def _show(op):
    if op[0] == 'add_edges_from':
        return "add_edges_from({}{})".format(op[1], ' as iterator' if len(op) > 2 and op[2] == 'iter' else '')
    return "{}({})".format(op[0], ','.join(map(str, op[1:])))


# ---------------------------------------------------------------------------
# generated histories

WEIGHTS = {
    'Graph': ['add_edge'] * 9 + ['remove_edge'] * 4 + ['add_edges_from'] * 3 + ['update_vertex_number'] * 3,
    'DirectedGraph': ['add_edge'] * 7 + ['add_edges_from'] * 2,
    'BipartiteGraph': ['add_edge'] * 7 + ['add_edges_from'] * 2,
}


def _draw_pair(draw, M):
    """A pair of arguments: mostly legal vertices, sometimes an edge that is already
    there (either orientation for simple graphs), sometimes anything in -1..n+2."""
    if M.kind == 'bipartite':
        hu, hv = M.L, M.R
    else:
        hu = hv = M.n
    mode = draw(st.sampled_from(['legal', 'legal', 'legal', 'present', 'any', 'any']))
    if mode == 'present' and M.E:
        u, v = draw(st.sampled_from(sorted(M.E)))
        if M.kind == 'simple' and draw(st.booleans()):
            u, v = v, u
        return u, v
    if mode == 'legal' and hu >= 1 and hv >= 1:
        return draw(st.integers(1, hu)), draw(st.integers(1, hv))
    return draw(st.integers(-1, hu + 2)), draw(st.integers(-1, hv + 2))


def _gen_insert(M, u, v):
    if M.classify(u, v) != 'bad':
        M.E.add(M.norm(u, v))


@st.composite
def _history(draw, clsname, max_steps):
    case = {'cls': clsname}
    if clsname == 'BipartiteGraph':
        case['L'] = draw(st.integers(0, 5))
        case['R'] = draw(st.integers(0, 5))
        M = gm.Model(clsname, L=case['L'], R=case['R'])
    else:
        case['n'] = draw(st.integers(0, 6))
        M = gm.Model(clsname, n=case['n'])
    # M is used here only to aim the arguments (existing edges, current size); the
    # oracle rebuilds its own model from the log.
    ops = []
    nsteps = draw(st.integers(0, max_steps))
    for _ in range(nsteps):
        name = draw(st.sampled_from(WEIGHTS[clsname]))
        if name == 'add_edge':
            u, v = _draw_pair(draw, M)
            ops.append(['add_edge', u, v])
            _gen_insert(M, u, v)
        elif name == 'remove_edge':
            u, v = _draw_pair(draw, M)
            ops.append(['remove_edge', u, v])
            M.E.discard(M.norm(u, v))
        elif name == 'update_vertex_number':
            k = draw(st.integers(-1, min(M.n + 3, NMAX)))
            ops.append(['update_vertex_number', k])
            if k > M.n:
                M.n = k
        else:
            k = draw(st.integers(0, 5))
            pairs = [list(_draw_pair(draw, M)) for _ in range(k)]
            if draw(st.booleans()):
                # a pair that must be refused, in the middle of the list
                if M.kind == 'bipartite':
                    badp = draw(st.sampled_from([[0, 1], [M.L + 1, 1], [1, M.R + 1], [1, 0], [-1, -1]]))
                elif M.kind == 'simple':
                    badp = draw(st.sampled_from([[0, 1], [M.n + 1, 1], [1, M.n + 1], [1, 1], [1, 0], [M.n + 2, -1]]))
                else:
                    badp = draw(st.sampled_from([[0, 1], [M.n + 1, 1], [1, M.n + 1], [1, 0], [M.n + 2, -1]]))
                pairs.insert(len(pairs) // 2, badp)
            ops.append(['add_edges_from', pairs, draw(st.sampled_from(['list', 'iter']))])
            for (u, v) in pairs:
                if M.classify(u, v) == 'bad':
                    break
                _gen_insert(M, u, v)
    case['ops'] = ops
    case['nx'] = {'mul': draw(st.integers(1, 3)), 'add': draw(st.integers(-3, 3)), 'rev': draw(st.booleans())}
    return case


def _strategy(clsname):
    def make():
        steps = 50 if _tier() == 'quick' else 200
        # most histories short enough to leave the graph sparse, some long
        return st.one_of(_history(clsname, 12), _history(clsname, steps), _history(clsname, steps))
    return make


# ---------------------------------------------------------------------------
# complete enumeration of the short histories over a small alphabet

def _alphabet(clsname):
    if clsname == 'Graph':
        r = range(0, 4)
        ops = [['add_edge', u, v] for u in r for v in r]
        ops += [['remove_edge', u, v] for u in r for v in r]
        ops += [['update_vertex_number', k] for k in range(-1, 4)]
        ops += [['add_edges_from', [[1, 2], [2, 2], [1, 3]], 'list'],
                ['add_edges_from', [[2, 1], [3, 1], [2, 3]], 'iter']]
        starts = [{'n': n} for n in (0, 1, 2)]
    elif clsname == 'DirectedGraph':
        r = range(0, 5)
        ops = [['add_edge', u, v] for u in r for v in r]
        ops += [['add_edges_from', [[1, 2], [2, 0], [2, 1]], 'list'],
                ['add_edges_from', [[1, 2], [1, 3], [2, 3]], 'iter'],
                ['add_edges_from', [[1, 2], [2, 2], [3, 2]], 'list']]
        starts = [{'n': n} for n in (0, 1, 2, 3)]
    else:
        r = range(0, 4)
        ops = [['add_edge', u, v] for u in r for v in r]
        ops += [['add_edges_from', [[1, 1], [1, 3], [2, 1]], 'list'],
                ['add_edges_from', [[2, 2], [1, 2], [2, 1]], 'iter']]
        starts = [{'L': a, 'R': b} for a in (0, 1, 2) for b in (0, 1, 2)]
    return starts, ops


def _enumerate(clsname):
    def gen(tier):
        starts, ops = _alphabet(clsname)
        maxlen = 2 if tier == 'quick' else 3
        if clsname == 'BipartiteGraph':
            yield {'cls': clsname, 'L': -1, 'R': 2, 'ops': [], 'nx': None}
            yield {'cls': clsname, 'L': 2, 'R': -1, 'ops': [], 'nx': None}
        else:
            yield {'cls': clsname, 'n': -1, 'ops': [], 'nx': None}
        k = 0
        for s in starts:
            for length in range(0, maxlen + 1):
                for seq in itertools.product(ops, repeat=length):
                    k += 1
                    c = {'cls': clsname, 'ops': [list(o) for o in seq],
                         'nx': {'mul': 1 + k % 2, 'add': k % 3 - 1, 'rev': bool(k % 4 >= 2)}}
                    c.update(s)
                    yield c
    return gen


COMMON_RULE = ("model = vertex count + Python set of edges; after every step every public view is compared with "
               "the model (counts, edges() sorted/duplicate-free, has_edge and `in edges()` for every ordered pair "
               "from -1 to n+2, neighbour lists sorted, degrees, to_networkx); a call that must be refused has to "
               "raise ValueError and leave every view as it was; every 8th step and at the end "
               "from_networkx(to_networkx()), normalize(to_networkx()), normalize(G) is G and normalize of a "
               "relabelled networkx graph built from the model must give the model again. ")

SUBCHECKS = [
    SubCheck('simple', run_case, strategy=_strategy('Graph'), enumerate_cases=_enumerate('Graph'),
             quick=4000, thorough=16000,
             rule="Graph(n), n=0..6, histories of 0..50 (thorough 0..200) calls of add_edge / remove_edge / "
                  "add_edges_from (half of them with a forbidden pair in the middle, list or iterator) / "
                  "update_vertex_number(-1..n+3, capped at 12), arguments legal, already present (either "
                  "orientation) or anything in -1..n+2; plus every history of length <=2 (thorough <=3) over 39 "
                  "operations from n=0,1,2. " + COMMON_RULE +
                  "Non-trivial: >=5 successful insertions and a removal after a growth.",
             required_labels=['refused', 'refused-nothing-changed', 'duplicate', 'duplicate-other-orientation',
                              'removal', 'removal-other-orientation', 'remove-absent', 'growth',
                              'growth-not-above', 'growth-negative-refused', 'removal-after-growth',
                              'edge-on-new-vertex', 'selfloop-refused', 'refused-zero', 'batch-ok',
                              'batch-refused', 'batch-bad-in-the-middle', 'initial-size-0',
                              'networkx-relabelled', '5-insertions', 'bad-initial-size']),
    SubCheck('directed', run_case, strategy=_strategy('DirectedGraph'), enumerate_cases=_enumerate('DirectedGraph'),
             quick=4000, thorough=16000,
             rule="DirectedGraph(n), n=0..6, histories of 0..50 (thorough 0..200) calls of add_edge / "
                  "add_edges_from with forward edges, back edges, loops, duplicates and out-of-range arguments; "
                  "plus every history of length <=2 (thorough <=3) over 28 operations from n=0..3. " + COMMON_RULE +
                  "is_dag() must be True exactly when every inserted edge has src < dest (also after refused back "
                  "edges). Non-trivial: >=5 successful insertions.",
             required_labels=['refused', 'refused-nothing-changed', 'duplicate', 'back-edge', 'loop',
                              'dag-at-the-end', 'not-dag-at-the-end', 'batch-ok', 'batch-refused',
                              'batch-bad-in-the-middle', 'initial-size-0', 'networkx-relabelled',
                              '5-insertions', 'refused-zero', 'bad-initial-size']),
    SubCheck('bipartite', run_case, strategy=_strategy('BipartiteGraph'), enumerate_cases=_enumerate('BipartiteGraph'),
             quick=4000, thorough=16000,
             rule="BipartiteGraph(L,R), L,R=0..5, histories of 0..50 (thorough 0..200) calls of add_edge / "
                  "add_edges_from, left argument in -1..L+2 and right argument in -1..R+2; plus every history of "
                  "length <=2 (thorough <=3) over 18 operations from L,R in 0..2. " + COMMON_RULE +
                  "Non-trivial: >=5 successful insertions.",
             required_labels=['refused', 'refused-nothing-changed', 'duplicate', 'swapped-sides-refused',
                              'batch-ok', 'batch-refused', 'batch-bad-in-the-middle', 'initial-size-0',
                              'one-empty-side', 'networkx-relabelled', '5-insertions', 'refused-zero',
                              'bad-initial-size']),
]
