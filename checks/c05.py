"""C05 - substitution, lifting and compression compose the formula with the gadget."""
import itertools

from hypothesis import strategies as st

from vlib.core import SubCheck, Violation, Outcome, fresh
from vlib import tt
from vlib import graphs_gen as gg

PROPERTY = "C05"
ASSUMPTIONS = [
    "block v of the new variables is positions (v-1)k+1..vk (docs/transform.rst); if-then-else uses i=v, t=N+v, e=2N+v; lifting uses X block then Y block per variable",
    "majority is the loose majority (at least half), as documented in docs/transform.rst",
    "at most 20 new variables, so every assignment of the transformed formula is evaluated",
]

BLOCK = ['xor', 'or', 'maj', 'eq', 'neq', 'one']
LINEAR = ['exact', 'atleast', 'atmost', 'anybut']
# the general form behind them, called directly with each of its six documented operators
LINOPS = {'lin<': '<', 'lin>': '>', 'lin<=': '<=', 'lin>=': '>=', 'lin==': '==', 'lin!=': '!='}
LINEAR = LINEAR + sorted(LINOPS)
MAXV = 20


def base_formula(fc):
    from cnfgen import CNF, PigeonholePrinciple, OrderingPrinciple, TseitinFormula
    from cnfgen.graphs import Graph
    kind = fc['kind']
    if kind == 'hand':
        F = CNF()
        names_ = fc.get('names')
        if names_:
            # variables created one by one with labels chosen by the caller: labels may repeat, may equal the default
            # name of another variable, may be empty; anonymous variables in between
            for i, nm in enumerate(names_[:fc['n']], start=1):
                if nm is None:
                    F.update_variable_number(i)
                else:
                    F.new_variable(nm)
        F.update_variable_number(fc['n'])
        for c in fc['clauses']:
            F.add_clause(list(c))
        if F.number_of_variables() != fc['n']:
            raise RuntimeError("harness: bad hand formula")
        return F
    if kind == 'php':
        return PigeonholePrinciple(fc['m'], fc['h'])
    if kind == 'op':
        return OrderingPrinciple(fc['n'])
    if kind == 'tseitin':
        G = Graph(fc['n'])
        for i in range(1, fc['n']):
            G.add_edge(i, i + 1)
        if fc['n'] > 2:
            G.add_edge(1, fc['n'])
        return TseitinFormula(G)
    raise ValueError(kind)


def apply(F, t):
    import cnfgen
    from cnfgen.graphs import BipartiteGraph
    name = t['name']
    if t.get('call') == 'keyword':
        # the documented parameter names, passed by keyword (a renamed parameter is an interface change)
        kw = {'xor': (cnfgen.XorSubstitution, dict(k=t.get('k'))), 'or': (cnfgen.OrSubstitution, dict(k=t.get('k'))),
              'maj': (cnfgen.MajoritySubstitution, dict(k=t.get('k'))), 'eq': (cnfgen.AllEqualSubstitution, dict(k=t.get('k'))),
              'neq': (cnfgen.NotAllEqualSubstitution, dict(k=t.get('k'))), 'one': (cnfgen.ExactlyOneSubstitution, dict(k=t.get('k'))),
              'exact': (cnfgen.ExactlyKSubstitution, dict(N=t.get('k'), k=t.get('K'))),
              'atleast': (cnfgen.AtLeastKSubstitution, dict(N=t.get('k'), k=t.get('K'))),
              'atmost': (cnfgen.AtMostKSubstitution, dict(N=t.get('k'), k=t.get('K'))),
              'anybut': (cnfgen.AnythingButKSubstitution, dict(N=t.get('k'), k=t.get('K'))),
              'lift': (cnfgen.FormulaLifting, dict(k=t.get('k')))}
        if name in kw:
            fn, args = kw[name]
            return fn(F=F, **args)
        if name in ('xorcomp', 'majcomp'):
            return cnfgen.VariableCompression(F=F, B=gg.build_bipartite(t['B']), function=fresh('xor' if name == 'xorcomp' else 'maj'))
    if name == 'xor':
        return cnfgen.XorSubstitution(F, t['k'])
    if name == 'or':
        return cnfgen.OrSubstitution(F, t['k'])
    if name == 'maj':
        return cnfgen.MajoritySubstitution(F, t['k'])
    if name == 'eq':
        return cnfgen.AllEqualSubstitution(F, t['k'])
    if name == 'neq':
        return cnfgen.NotAllEqualSubstitution(F, t['k'])
    if name == 'one':
        return cnfgen.ExactlyOneSubstitution(F, t['k'])
    if name == 'exact':
        return cnfgen.ExactlyKSubstitution(F, t['k'], t['K'])
    if name == 'atleast':
        return cnfgen.AtLeastKSubstitution(F, t['k'], t['K'])
    if name == 'atmost':
        return cnfgen.AtMostKSubstitution(F, t['k'], t['K'])
    if name == 'anybut':
        return cnfgen.AnythingButKSubstitution(F, t['k'], t['K'])
    if name in LINOPS:
        from cnfgen.transformations.substitutions import LinearSubstitution
        return LinearSubstitution(F, t['k'], fresh(LINOPS[name]), t['K'])
    if name == 'ite':
        return cnfgen.IfThenElseSubstitution(F)
    if name == 'lift':
        return cnfgen.FormulaLifting(F, t['k'])
    if name == 'flip':
        return cnfgen.FlipPolarity(F)
    if name in ('xorcomp', 'majcomp'):
        B = gg.build_bipartite(t['B'])
        return cnfgen.VariableCompression(F, B, function=fresh('xor' if name == 'xorcomp' else 'maj'))
    raise ValueError(name)


def _cli_tokens(t, ctx):
    from vlib import catalog
    name = t['name']
    if name in BLOCK:
        return [name, t['k']]
    if name in LINOPS:
        return None                  # no command line form
    if name in LINEAR:
        return None if t['K'] < 1 else [name, t['k'], t['K']]
    if name in ('ite', 'flip'):
        return [name]
    if name == 'lift':
        return [name, t['k']]
    b = t['B']
    if b['L'] < 1 or b['R'] < 1:
        return None
    p2 = ctx.path('matrix')
    catalog.write_matrix(p2, b['L'], b['R'], b['edges'])
    return [name, 'matrix', p2]


def apply_cli(fc, t, t0=None):
    """the same transformation through `cnfgen dimacs <file> -T ...`; None when the command line cannot express it"""
    from vlib import cli, catalog
    name = t['name']
    if fc['kind'] != 'hand' or (t0 is not None and fc.get('names')):
        return None
    if t0 is not None:
        with catalog.Ctx() as ctx:
            a, b = _cli_tokens(t0, ctx), _cli_tokens(t, ctx)
            if a is None or b is None:
                return None
            path = ctx.path('cnf')
            with open(path, 'w') as fh:
                fh.write("p cnf {} {}\n".format(fc['n'], len(fc['clauses'])))
                for c in fc['clauses']:
                    fh.write(" ".join(map(str, list(c) + [0])) + "\n")
            return cli.build('cnfgen', ['-q', 'dimacs', path, '-T'] + [str(x) for x in a] + ['-T'] + [str(x) for x in b])
    with catalog.Ctx() as ctx:
        if name in BLOCK:
            toks = [name, t['k']]
        elif name in LINOPS:
            return None
        elif name in LINEAR:
            if t['K'] < 1:
                return None             # the parser takes positive thresholds only
            toks = [name, t['k'], t['K']]
        elif name in ('ite', 'flip'):
            toks = [name]
        elif name == 'lift':
            toks = [name, t['k']]
        else:
            b = t['B']
            if b['L'] < 1 or b['R'] < 1:
                return None
            p2 = ctx.path('matrix')
            catalog.write_matrix(p2, b['L'], b['R'], b['edges'])
            toks = [name, 'matrix', p2]
        path = ctx.path('cnf')
        with open(path, 'w') as fh:
            fh.write("p cnf {} {}\n".format(fc['n'], len(fc['clauses'])))
            for c in fc['clauses']:
                fh.write(" ".join(map(str, list(c) + [0])) + "\n")
        return cli.build('cnfgen', ['-q', 'dimacs', path, '-T'] + [str(x) for x in toks])


def expected_vars(n, t):
    name = t['name']
    if name in BLOCK or name in LINEAR:
        return n * t['k']
    if name == 'ite':
        return 3 * n
    if name == 'lift':
        return 2 * t['k'] * n
    if name == 'flip':
        return n
    return t['B']['R']


def gadget(N, name, t, masks):
    """value of the gadget on a block of masks (bit-parallel)"""
    k = len(masks)
    FULL = tt.full(N)
    if name == 'xor':
        return tt.xor_all(N, masks)
    if name == 'or':
        r = 0
        for m in masks:
            r |= m
        return r
    if name == 'maj':
        return tt.at_least(N, masks, -(-k // 2))
    if name == 'eq':
        allt, allf = FULL, FULL
        for m in masks:
            allt &= m
            allf &= FULL & ~m
        return allt | allf
    if name == 'neq':
        return FULL & ~gadget(N, 'eq', t, masks)
    if name == 'one':
        return tt.exactly(N, masks, 1)
    if name == 'exact':
        return tt.exactly(N, masks, t['K'])
    if name == 'atleast':
        return tt.at_least(N, masks, t['K'])
    if name == 'atmost':
        return tt.at_most(N, masks, t['K'])
    if name == 'anybut':
        return FULL & ~tt.exactly(N, masks, t['K'])
    if name in LINOPS:
        op, C = LINOPS[name], t['K']
        if op == '==':
            return tt.exactly(N, masks, C)
        if op == '!=':
            return FULL & ~tt.exactly(N, masks, C)
        if op == '>=':
            return tt.at_least(N, masks, C)
        if op == '>':
            return tt.at_least(N, masks, C + 1)
        if op == '<=':
            return tt.at_most(N, masks, C)
        return tt.at_most(N, masks, C - 1)
    raise ValueError(name)


def run_case(case):
    fc, t = case['F'], case['T']
    F = base_formula(fc)
    t0 = case.get('first')
    if t0 is not None:
        # the input is itself the result of a transformation (judged on its own by the cases without 'first'):
        # its variable names are the ones the transformations generate
        F = apply(F, t0)
        per = 2 ** (max(1, t.get('k', 2)) - 1) if t['name'] not in ('flip', 'ite') else 2
        est = sum(per ** len(c) for c in F)
        if F.number_of_variables() * max(1, expected_vars(1, t)) > 16 or len(F) > 400 or est > 3000:
            return Outcome(nontrivial=False, labels=['too-large'])
    n = F.number_of_variables()
    before = [list(c) for c in F]
    G = apply_cli(fc, t, t0) if case.get('via') == 'cli' else None
    through_tool = G is not None
    if G is None:
        G = apply(F, t)
    if [list(c) for c in F] != before or F.number_of_variables() != n:
        raise Violation("the transformation {} modified its input".format(t))
    name = t['name']
    N = G.number_of_variables()
    expN = expected_vars(n, t)
    if N != expN:
        raise Violation("{} on a formula with {} variables: {} variables, documented {} (F={})".format(t, n, N, expN, fc))
    Nvars = N
    if N > MAXV:
        if 'rseed' not in case:
            return Outcome(nontrivial=False, labels=['too-large'])
        N = sample_batch(case, n, N)     # a sample of assignments stands in for the 2^N rows
    FULL = tt.full(N)
    V = lambda i: tt.var_mask(N, i)     # noqa
    extra = FULL
    if name in BLOCK or name in LINEAR:
        k = t['k']
        alpha = [None] + [gadget(N, name, t, [V((v - 1) * k + j) for j in range(1, k + 1)]) for v in range(1, n + 1)]
    elif name == 'ite':
        alpha = [None] + [(V(v) & V(n + v)) | (FULL & ~V(v) & V(2 * n + v)) for v in range(1, n + 1)]
    elif name == 'lift':
        k = t['k']
        alpha = [None]
        for v in range(1, n + 1):
            xo = (v - 1) * 2 * k
            yo = xo + k
            sel = 0
            for j in range(1, k + 1):
                sel |= V(yo + j) & V(xo + j)
            alpha.append(sel)
            extra &= tt.exactly(N, [V(yo + j) for j in range(1, k + 1)], 1)
    elif name == 'flip':
        alpha = [None] + [FULL & ~V(v) for v in range(1, n + 1)]
    else:
        b = t['B']
        nb = {u: sorted(w for (a, w) in map(tuple, b['edges']) if a == u) for u in range(1, n + 1)}
        alpha = [None]
        for v in range(1, n + 1):
            ms = [V(w) for w in nb[v]]
            alpha.append(tt.xor_all(N, ms) if name == 'xorcomp' else tt.at_least(N, ms, -(-len(ms) // 2)))
    want = extra
    for c in before:
        cl = 0
        for l in c:
            cl |= alpha[abs(l)] if l > 0 else FULL & ~alpha[abs(l)]
        want &= cl
    got = tt.cnf_tt(N, [list(c) for c in G])
    if got != want:
        a = tt.first_row(got ^ want)
        raise Violation("{} applied to {}: assignment {} {} the transformed formula but the induced assignment {} F".format(
            t, fc, N.row(a) if isinstance(N, tt.Batch) else tt.row_assignment(N, a), 'satisfies' if (got >> a) & 1 else 'falsifies',
            'satisfies' if (want >> a) & 1 else 'does not satisfy (or selectors are not exactly-one in)'))
    labels = [name, fc['kind']]
    nm_ = [x for x in (fc.get('names') or []) if x is not None]
    if len(set(nm_)) < len(nm_) or any(x in ('x1', 'x2') for x in nm_):
        labels.append('repeated-variable-names')
    if t.get('call') == 'keyword' and not through_tool:
        labels.append('keyword-call')
    if t0 is not None:
        labels.append('input-is-a-transformed-formula')
        labels.append('twice:' + name if t0 == {k: v for k, v in t.items() if k != 'call'} else 'after:' + t0['name'])
        if through_tool and t0 == {k: v for k, v in t.items() if k != 'call'}:
            labels.append('same-T-option-twice')
    if any(isinstance(x, str) and x[:3] in ('X_{', 'Y_{', 'Z_{') for x in (fc.get('names') or [])):
        labels.append('names-like-generated-ones')
    if through_tool:
        labels.append('through-cnfgen')
        if not G.number_of_clauses():
            labels.append('through-cnfgen-no-clauses')
    if isinstance(N, tt.Batch):
        labels.append('arity>=9' if t.get('k', 0) >= 9 or name.endswith('comp') else 'sampled')
    if any(len(c) == 0 for c in before):
        labels.append('empty-clause')
    used = set(abs(l) for c in before for l in c)
    if len(used) < n:
        labels.append('unused-variable')
    if any(-l in c for c in before for l in c):
        labels.append('opposite-literals')
    if any(len(set(c)) < len(c) for c in before):
        labels.append('repeated-literals')
    if name in LINEAR and t['K'] in (0, t['k'], t['k'] + 1):
        labels.append('threshold-at-boundary')
    if name in ('xorcomp', 'majcomp') and any(not nb[v] for v in nb):
        labels.append('variable-without-neighbours')
    nonconst = (name in BLOCK and t['k'] >= 2) or (name in LINEAR and 0 < t['K'] < t['k']) or name in ('ite', 'lift', 'flip', 'xorcomp', 'majcomp')
    return Outcome(labels=labels, nontrivial=any(before) and nonconst)


def sample_batch(case, n, N):
    """300 assignments over N variables; inside every block of a substitution the number of true
    variables is pushed towards the places where the gadget changes value"""
    import random as _r
    R = _r.Random(case['rseed'])
    t = case['T']
    k = t.get('k')
    rows = []
    for _ in range(300):
        if k and t['name'] != 'lift':
            row = set()
            for v in range(n):
                K = t.get('K', (k + 1) // 2)
                c = R.choice([0, 1, k - 1, k, K - 1, K, K + 1, R.randint(0, k), R.randint(0, k)])
                c = max(0, min(k, c))
                row.update(v * k + j + 1 for j in R.sample(range(k), c))
            rows.append(row)
        else:
            p = R.choice([0.1, 0.5, 0.5, 0.9])
            rows.append({v for v in range(1, N + 1) if R.random() < p})
    return tt.Batch(N, rows)


def enum_wide(tier):
    """gadgets too wide for a complete truth table, on tiny formulas"""
    # unit clauses only: a clause with w literals costs the product of w gadget encodings
    forms = [{'kind': 'hand', 'n': 1, 'clauses': [[1]]}, {'kind': 'hand', 'n': 1, 'clauses': [[-1]]},
             {'kind': 'hand', 'n': 2, 'clauses': [[1], [-2]]}, {'kind': 'hand', 'n': 3, 'clauses': [[-1], [3], [3], []]}]
    i = 0
    for name in ('or', 'eq', 'neq'):
        i += 1
        yield {'F': {'kind': 'hand', 'n': 3, 'clauses': [[1, -2], [2, 3], [-1, -3]]}, 'T': {'name': name, 'k': 9}, 'rseed': i}
    for fi, F in enumerate(forms):
        n = F['n']
        for k in ((9, 10, 13) if tier == 'quick' else (9, 10, 11, 12, 13, 14)):
            if n * (2 ** k) > 20000:
                continue
            i += 1
            yield {'F': F, 'T': {'name': 'xor', 'k': k}, 'rseed': i}
        for name in ('or', 'eq', 'neq', 'one'):
            for k in (9, 17, 33):
                i += 1
                yield {'F': F, 'T': {'name': name, 'k': k}, 'rseed': i}
        for k in (7, 9, 10):
            i += 1
            yield {'F': F, 'T': {'name': 'maj', 'k': k}, 'rseed': i}
        for name in LINEAR:
            for k, K in ((9, 1), (9, 8), (10, 2), (12, 11), (9, 4), (16, 1), (16, 15), (16, 16)):
                if 2 < K < k - 2 and n > 1:
                    continue
                i += 1
                yield {'F': F, 'T': {'name': name, 'k': k, 'K': K}, 'rseed': i}
        if n <= 2:
            for name in ('xorcomp', 'majcomp'):
                for d in (9, 10, 11):
                    R = d + 3 + 19
                    edges = [[u, ((u * 5 + j * 2) % R) + 1] for u in range(1, n + 1) for j in range(d)]
                    i += 1
                    yield {'F': F, 'T': {'name': name, 'B': {'L': n, 'R': R, 'edges': edges, 'as': ('cnfgen', 'networkx')[i % 2]}}, 'rseed': i}


@st.composite
def strat_formula(draw, maxn, maxw=3):
    kind = draw(st.sampled_from(['hand'] * 8 + ['php', 'op', 'tseitin']))
    if kind == 'php':
        m, h = draw(st.sampled_from([(1, 1), (2, 1), (2, 2), (3, 2), (1, 3)]))
        if m * h <= maxn:
            return {'kind': 'php', 'm': m, 'h': h}
    if kind == 'op' and maxn >= 6:
        return {'kind': 'op', 'n': draw(st.integers(1, 3))}
    if kind == 'tseitin' and maxn >= 3:
        return {'kind': 'tseitin', 'n': draw(st.integers(2, min(4, maxn)))}
    n = draw(st.integers(1, max(1, min(4, maxn))))
    lit = st.integers(1, n).flatmap(lambda v: st.sampled_from([v, -v]))
    clauses = draw(st.lists(st.lists(lit, max_size=maxw), max_size=4))
    fc = {'kind': 'hand', 'n': n, 'clauses': clauses}
    if draw(st.integers(0, 3)) == 0:
        fc['names'] = draw(st.lists(st.sampled_from([None, 'p', 'p', 'x1', 'x2', 'x_{1}', 'y', '', 'Y_{1}', 'X_{1}', 'Y_{1,1}', 'X_{2,1}', 'Z_{1}', '{Y_{1}}']), min_size=n, max_size=n))
    return fc


@st.composite
def strat_case(draw):
    name = draw(st.sampled_from(BLOCK + LINEAR + ['ite', 'lift', 'flip', 'xorcomp', 'majcomp']))
    if name in BLOCK:
        k = draw(st.integers(1, 4))
        t = {'name': name, 'k': k}
        per = k
    elif name in LINEAR:
        k = draw(st.integers(1, 4))
        t = {'name': name, 'k': k, 'K': draw(st.integers(0, k + 1))}
        per = k
    elif name == 'ite':
        t = {'name': name}
        per = 3
    elif name == 'lift':
        k = draw(st.integers(1, 3))
        t = {'name': name, 'k': k}
        per = 2 * k
    elif name == 'flip':
        t = {'name': name}
        per = 1
    else:
        t = {'name': name}
        per = 1
    F = draw(strat_formula(maxn=max(1, MAXV // per), maxw=6 if (t.get('k', 1) <= 2 and name not in ('xorcomp', 'majcomp')) else 3))
    if name in ('xorcomp', 'majcomp'):
        n = {'hand': F.get('n'), 'php': F.get('m', 0) * F.get('h', 0), 'op': F.get('n', 0) * (F.get('n', 0) - 1),
             'tseitin': (F.get('n', 0) if F.get('n', 0) > 2 else 1)}[F['kind']]
        if F['kind'] != 'hand':
            F = {'kind': 'hand', 'n': 3, 'clauses': [[1, -2], [2, 3], [-1, -3]]}
            n = 3
        R = draw(st.integers(0, 6))
        g = draw(gg.bipartite_graphs(Lmin=n, Lmax=n, Rmin=R, Rmax=R))
        # keep the clause blow-up bounded: at most 4 right neighbours per variable
        keep = []
        cnt = {}
        for u, w in g['edges']:
            if cnt.get(u, 0) < 4:
                keep.append([u, w])
                cnt[u] = cnt.get(u, 0) + 1
        g['edges'] = keep
        t['B'] = g
    t['call'] = draw(st.sampled_from(['positional', 'positional', 'keyword']))
    case = {'F': F, 'T': t, 'via': draw(st.sampled_from(['lib', 'lib', 'cli']))}
    if name not in ('xorcomp', 'majcomp') and F['kind'] == 'hand' and F['n'] <= 2 and draw(st.integers(0, 2)) == 0:
        # a first step: the same transformation once more (half of the time) or a small other one
        same = {k: v for k, v in t.items() if k != 'call'}
        small = [{'name': 'lift', 'k': 1}, {'name': 'lift', 'k': 2}, {'name': 'xor', 'k': 2}, {'name': 'or', 'k': 2}, {'name': 'flip'}, {'name': 'ite'}]
        case['first'] = same if (draw(st.booleans()) and per <= 3) else draw(st.sampled_from(small))
        F['clauses'] = [c[:2] for c in F['clauses'][:3]]
    return case


def enum_cases(tier):
    """Small complete slice: every transformation on every 1-2 variable formula with <=2 clauses of width<=2."""
    small = [{'name': 'lift', 'k': 1}, {'name': 'lift', 'k': 2}, {'name': 'xor', 'k': 2}, {'name': 'or', 'k': 2}, {'name': 'maj', 'k': 3},
             {'name': 'eq', 'k': 2}, {'name': 'one', 'k': 2}, {'name': 'exact', 'k': 2, 'K': 1}, {'name': 'atleast', 'k': 2, 'K': 1}, {'name': 'flip'}, {'name': 'ite'}]
    for fi, F in enumerate([{'kind': 'hand', 'n': 1, 'clauses': [[1]]}, {'kind': 'hand', 'n': 2, 'clauses': [[1, -2], [2]]},
                            {'kind': 'hand', 'n': 1, 'clauses': [[-1]], 'names': ['Y_{1}']}, {'kind': 'hand', 'n': 2, 'clauses': [[1, 2]], 'names': ['X_{1}', 'Y_{1}']}]):
        for i, a in enumerate(small):
            for j, b in enumerate(small):
                if tier == 'quick' and a != b and (i + j + fi) % 3:
                    continue
                yield {'F': F, 'T': b, 'first': a}
                if not F.get('names'):
                    yield {'F': F, 'T': b, 'first': a, 'via': 'cli'}
    forms = []
    for n in (1, 2):
        lits = [l for v in range(1, n + 1) for l in (v, -v)]
        cls = [[]] + [[l] for l in lits] + [[a, b] for a in lits for b in lits if abs(a) <= abs(b)]
        for k in range(0, 3):
            for combo in itertools.combinations(range(len(cls)), k):
                forms.append({'kind': 'hand', 'n': n, 'clauses': [cls[i] for i in combo]})
    if tier == 'quick':
        forms = forms[::7]
    ts = []
    for name in BLOCK:
        for k in (1, 2, 3):
            ts.append({'name': name, 'k': k})
    for name in LINEAR:
        for k in (1, 2, 3):
            for K in range(0, k + 2):
                ts.append({'name': name, 'k': k, 'K': K})
    ts += [{'name': 'ite'}, {'name': 'flip'}, {'name': 'lift', 'k': 1}, {'name': 'lift', 'k': 2}, {'name': 'lift', 'k': 3}]
    for fi, F in enumerate(forms):
        for ti, t in enumerate(ts):
            yield {'F': F, 'T': t}
            if (fi + ti) % 4 == 0 or not F['clauses']:
                yield {'F': F, 'T': t, 'via': 'cli'}       # the same through the command line
            if (fi + ti) % 4 == 1:
                yield {'F': F, 'T': dict(t, call='keyword')}       # the same with the documented parameter names as keywords
        n = F['n']
        for g in gg.all_bipartite_graphs(n, 2, Lmin=n):
            for name in ('xorcomp', 'majcomp'):
                c = dict(g)
                c['as'] = gg.BIP_ROT[(len(g['edges']) + n) % len(gg.BIP_ROT)]
                yield {'F': F, 'T': {'name': name, 'B': c}}


# ---------------------------------------------------------------------------
# `-T xorcomp N [d]` / `-T majcomp N [d]`: the tool draws the mapping itself

def run_shortform(case):
    """each variable is replaced by the parity / majority of d of the N new variables: whatever sets the tool draws, the
    result must be F composed with that function on SOME choice of d-subsets, one per variable"""
    from vlib import cli, catalog
    n, signs, name, N, d = case['n'], case['signs'], case['name'], case['N'], case['d']
    with catalog.Ctx() as ctx:
        path = ctx.path('cnf')
        with open(path, 'w') as fh:
            fh.write("p cnf {} {}\n".format(n, n))
            for v in range(1, n + 1):
                fh.write("{} 0\n".format(v if signs[v - 1] else -v))
        toks = [name, str(N)] + ([str(d)] if d is not None else [])
        G = cli.build('cnfgen', ['-q', '--seed', str(case['seed']), 'dimacs', path, '-T'] + toks)
    deg = 3 if d is None else d
    what = "cnfgen --seed {} dimacs <{} unit clauses with signs {}> -T {}".format(case['seed'], n, signs, ' '.join(toks))
    if G.number_of_variables() != N:
        raise Violation("{}: {} variables, {} announced".format(what, G.number_of_variables(), N))
    got = tt.cnf_tt(N, [list(c) for c in G])
    FULL = tt.full(N)
    V = [None] + [tt.var_mask(N, i) for i in range(1, N + 1)]
    subsets = list(itertools.combinations(range(1, N + 1), min(deg, N)))

    def g(S, fn):
        ms = [V[i] for i in S]
        return tt.xor_all(N, ms) if fn == 'xor' else tt.at_least(N, ms, -(-len(ms) // 2))
    fn = 'xor' if name == 'xorcomp' else 'maj'
    ok = False
    for choice in itertools.product(subsets, repeat=n):
        want = FULL
        for v, S in enumerate(choice, start=1):
            a = g(S, fn)
            want &= a if signs[v - 1] else FULL & ~a
        if want == got:
            ok = True
            break
    if not ok:
        other = 'maj' if fn == 'xor' else 'xor'
        hint = ''
        for choice in itertools.product(subsets, repeat=n):
            want = FULL
            for v, S in enumerate(choice, start=1):
                a = g(S, other)
                want &= a if signs[v - 1] else FULL & ~a
            if want == got:
                hint = " (it is the composition with {} on the sets {})".format('parity' if other == 'xor' else 'majority', choice)
                break
        raise Violation("{}: the result is not the formula composed with the {} of {} of the {} new variables, for any choice of sets{}; clauses {}".format(
            what, 'parity' if fn == 'xor' else 'majority', deg, N, hint, [list(c) for c in G][:8]))
    labels = ['shortform', name, 'd-default' if d is None else 'd={}'.format(d)]
    if deg >= 2:
        labels.append('parity-and-majority-differ')
    return Outcome(labels=labels, nontrivial=deg >= 2)


def enum_shortform(tier):
    i = 0
    for name in ('xorcomp', 'majcomp'):
        for n in (1, 2):
            for N in range(1, 7):
                for d in (None, 1, 2, 3, 4):
                    deg = 3 if d is None else d
                    if deg > N or len(list(itertools.combinations(range(N), deg))) ** n > 500:
                        continue
                    for signs in ([True] * n, [False] + [True] * (n - 1)):
                        i += 1
                        if tier == 'quick' and i % 2:
                            continue
                        yield {'n': n, 'signs': signs, 'name': name, 'N': N, 'd': d, 'seed': i}



# ---------------------------------------------------------------------------
# many compressions in one process, each with a graph object of its own that dies afterwards

def run_many_graphs(case):
    """the same formula compressed 40 times in a row with different mapping graphs that have the same numbers of vertices
    and edges; every graph object is created for its call and unreachable afterwards, so a later object may live at the
    address of an earlier one; each result is judged on its own by the oracle of 'compose'"""
    import gc
    import random as _r
    R = _r.Random(case['rseed'])
    F = case['F']
    n, right, deg = F['n'], case['R'], case['deg']
    labels = set()
    nontrivial = False
    for i in range(case['count']):
        edges = sorted([u, w] for u in range(1, n + 1) for w in R.sample(range(1, right + 1), deg))
        g = {'L': n, 'R': right, 'edges': edges, 'as': case['kinds'][i % len(case['kinds'])]}
        out = run_case({'F': F, 'T': {'name': case['name'], 'B': g}})
        labels.update(out.labels)
        nontrivial = nontrivial or out.nontrivial
        gc.collect()
    labels.update(['many-graphs', 'many-graphs:' + case['name']])
    return Outcome(labels=sorted(labels), nontrivial=nontrivial)


def enum_many_graphs(tier):
    i = 0
    for name in ('xorcomp', 'majcomp'):
        for kinds in (['networkx'], ['networkx', 'networkx-rl'], ['cnfgen', 'networkx'], ['networkx-shuffled']):
            for F in ({'kind': 'hand', 'n': 2, 'clauses': [[1, -2], [2]]}, {'kind': 'hand', 'n': 3, 'clauses': [[1, 2, -3], [-1, 3], [-2]]}):
                for right, deg in ((3, 2), (4, 2), (4, 3)):
                    i += 1
                    if tier == 'quick' and i % 3 != 1:
                        continue
                    yield {'F': F, 'name': name, 'R': right, 'deg': deg, 'kinds': kinds, 'count': 40 if tier == 'quick' else 120, 'rseed': i}



SUBCHECKS = [
    SubCheck('compose', run_case, strategy=strat_case, enumerate_cases=enum_cases, quick=1200, thorough=60000,
             rule="CNFs with 1..4 variables (a quarter with caller-chosen labels that repeat or equal another variable's default name), 0..4 clauses of width 0..3 (0..6 for arity<=2) (empty clause, unused variables, repeated/opposite literals) and small php/op/Tseitin instances x every exported substitution (k in 1..4, thresholds 0..k+1; also the general LinearSubstitution(F, k, op, C) called directly with each of its six documented operators; positional or with the documented parameter names as keywords; a third of the cases through `cnfgen dimacs <file> -T ...` on a harness-written file, formulas without clauses included), if-then-else, lifting k<=3, flip, xor/maj compression with arbitrary bipartite graphs; a third of the small cases and an enumerated grid (11 x 11 small transformations on four tiny formulas, library and `-T a -T b`) take as input the result of a first transformation - the same one applied twice included - so that the names met are the generated ones (caller-chosen labels also imitate them: X_{1}, Y_{1}, Z_{1}); complete slice: all formulas on <=2 variables with <=2 clauses x all transformations; oracle: tt(G) == F evaluated on the gadget-induced assignment for every assignment (lifting: and exactly one selector), variable count as documented; non-trivial: a non-empty clause and a non-constant gadget",
             required_labels=BLOCK + LINEAR + ['ite', 'lift', 'flip', 'xorcomp', 'majcomp', 'empty-clause',
                                              'unused-variable', 'opposite-literals', 'threshold-at-boundary',
                                              'variable-without-neighbours', 'php', 'op', 'through-cnfgen', 'through-cnfgen-no-clauses', 'keyword-call', 'repeated-variable-names',
                                              'input-is-a-transformed-formula', 'twice:lift', 'twice:xor', 'twice:flip', 'same-T-option-twice', 'names-like-generated-ones']),
    SubCheck('many_graphs', run_many_graphs, enumerate_cases=enum_many_graphs,
             rule="one small formula compressed 40 (thorough: 120) times in a row inside one case with xor / majority compression, every time with a fresh mapping graph object (networkx in three flavours, or cnfgen and networkx alternating) that has the same numbers of vertices and edges as the others but other edges, and that is unreachable after its call (gc.collect() in between); oracle: each result on its own, as in 'compose'",
             required_labels=['many-graphs', 'many-graphs:xorcomp', 'many-graphs:majcomp']),
    SubCheck('shortform', run_shortform, enumerate_cases=enum_shortform,
             rule="`cnfgen dimacs <file> -T xorcomp|majcomp N [d]` (the tool draws the mapping itself; d defaults to 3) on formulas of 1..2 unit clauses of either sign, N in 1..6, d in {default, 1..4} with d <= N (quick: every second case); oracle: N variables, and the complete truth table equals the formula composed with the parity (xorcomp) / majority (majcomp) of d of the new variables for SOME choice of d-subsets, one per variable (all choices are tried); non-trivial: d >= 2, where parity and majority differ",
             required_labels=['shortform', 'xorcomp', 'majcomp', 'd-default', 'd=2', 'parity-and-majority-differ']),
    SubCheck('wide', run_case, enumerate_cases=enum_wide,
             rule="gadgets of arity 9..14 (xor), 9..33 (or, all-equal, not-all-equal, exactly-one), 7..10 (majority), 9..16 (threshold substitutions, constants near both ends) and xor/maj compression with left degree 9..11, on formulas with 1..3 variables; oracle: as in 'compose', evaluated on 300 sampled assignments whose per-block counts sit around the gadget's switching points (bit-parallel on the sample); non-trivial: as in 'compose'",
             required_labels=['arity>=9', 'xor', 'xorcomp', 'maj']),
]
