"""Independent DIMACS CNF reference reader, text generators and the atheris driver (C06).

Nothing in this file imports the reader/writer under test (except the fuzz driver,
which has to call it).  The reference reading is written from the format description:

* a *line* ends at LF (a CR immediately before the LF belongs to the line end);
* blanks are SPACE and TAB;
* a line whose first non-blank character is ``c`` is a comment; blank lines are skipped;
* exactly one problem line ``p cnf <n> <m>`` (n, m >= 0), before every clause token;
* every other token must be a decimal integer ``0 | -?[1-9][0-9]*``; the stream of
  tokens is cut at the zeros; every literal v satisfies 1 <= |v| <= n; the last clause
  is closed by a zero; there are exactly m clauses.

``interpret`` implements this *strict* dialect and, through its keyword arguments, the
more permissive dialects that make up the ``gray`` class (spellings Python's ``int``
accepts, Python's notion of white space, CR / Unicode line boundaries, a problem line
with another format word, clause tokens in front of the problem line).  ``classify``
combines them into the oracle used by checks/c06.py and by the fuzz target:

    strict reading accepts                  -> the reader must return exactly that
    strict rejects, no dialect accepts      -> the reader must raise ValueError
    strict rejects, some dialect accepts    -> gray: ValueError, or one of those readings
"""
import ast
import itertools
import json
import os
import re
import sys

MAX_DIGITS = 18          # longer digit strings are gray (Python limits int() to 4300 digits)

_STRICT_LIT = re.compile(r'(?:0|-?[1-9][0-9]*)\Z')
_STRICT_NAT = re.compile(r'(?:0|[1-9][0-9]*)\Z')
_BLANKS = ' \t'
_LONE_CR = re.compile(r'\r(?!\n)')


class Reading:
    """Result of one interpretation of a text."""
    __slots__ = ('ok', 'n', 'm', 'clauses', 'reason', 'detail')

    def __init__(self, ok, n=None, m=None, clauses=None, reason=None, detail=None):
        self.ok, self.n, self.m, self.clauses = ok, n, m, clauses
        self.reason, self.detail = reason, detail

    def key(self):
        return (self.n, tuple(tuple(c) for c in self.clauses)) if self.ok else None

    def __repr__(self):
        if self.ok:
            return 'Reading(n={}, m={}, clauses={})'.format(self.n, self.m, self.clauses)
        return 'Reading(reject {}: {})'.format(self.reason, self.detail)


def _reject(reason, detail):
    return Reading(False, reason=reason, detail=detail)


def _split_lines(text, linesplit):
    if linesplit == 'lf':
        return [ln[:-1] if ln.endswith('\r') else ln for ln in text.split('\n')]
    if linesplit == 'universal':
        return re.split(r'\r\n|\r|\n', text)
    if linesplit == 'unicode':
        return text.splitlines()
    raise ValueError(linesplit)


def _fields(line, ws):
    if ws == 'strict':
        return [t for t in re.split(r'[ \t]+', line) if t != '']
    return line.split()


def _strip(line, ws):
    return line.strip(_BLANKS) if ws == 'strict' else line.strip()


def _to_int(tok, ints, natural=False):
    """token -> int or None"""
    if ints == 'strict':
        if len(tok) > MAX_DIGITS or not (_STRICT_NAT if natural else _STRICT_LIT).match(tok):
            return None
        return int(tok)
    try:
        v = int(tok)
    except ValueError:
        return None
    if natural and v < 0:
        return None
    return v


def interpret(text, linesplit='lf', ws='strict', ints='strict', pline='strict', order='strict'):
    """One reading of ``text``.  The defaults are the strict dialect."""
    if linesplit == 'lf' and ws == 'strict' and _LONE_CR.search(text):
        return _reject('syntax', 'CR that is not part of a CRLF line end')
    n = m = None
    toks = []
    for lineno, raw in enumerate(_split_lines(text, linesplit), start=1):
        body = _strip(raw, ws)
        if body == '' or body[0] == 'c':
            continue
        if body[0] == 'p':
            if n is not None:
                return _reject('syntax', 'second problem line at line {}'.format(lineno))
            f = _fields(body, ws)
            if len(f) != 4:
                return _reject('syntax', 'problem line {!r} has {} fields'.format(body, len(f)))
            if pline == 'strict' and (f[0] != 'p' or f[1] != 'cnf'):
                return _reject('syntax', 'problem line {!r} is not "p cnf n m"'.format(body))
            n = _to_int(f[2], ints, natural=True)
            mm = _to_int(f[3], ints, natural=True)
            if n is None or mm is None:
                return _reject('syntax', 'counts in problem line {!r}'.format(body))
            m = mm
            continue
        if n is None and order == 'strict':
            return _reject('syntax', 'line {} comes before the problem line'.format(lineno))
        toks.extend(_fields(body, ws))
    if n is None:
        return _reject('syntax', 'no problem line')
    vals = []
    for t in toks:
        v = _to_int(t, ints)
        if v is None:
            return _reject('syntax', 'token {!r} is not an integer'.format(t))
        vals.append(v)
    clauses, cur = [], []
    for v in vals:
        if v == 0:
            clauses.append(cur)
            cur = []
        elif abs(v) > n:
            return _reject('range', 'literal {} with {} variables declared'.format(v, n))
        else:
            cur.append(v)
    if cur:
        return _reject('open', 'last clause {} has no closing 0'.format(cur))
    if len(clauses) != m:
        return _reject('count', '{} clauses declared, {} present'.format(m, len(clauses)))
    return Reading(True, n=n, m=m, clauses=clauses)


STRICT = dict(linesplit='lf', ws='strict', ints='strict', pline='strict', order='strict')
LENIENT = [dict(linesplit=ls, ws='python', ints='python', pline='loose', order=o)
           for ls in ('lf', 'universal', 'unicode') for o in ('strict', 'any')]


class Verdict:
    """cls in {'accept', 'reject', 'gray'}; strict: the strict Reading; allowed: set of keys"""
    __slots__ = ('cls', 'strict', 'allowed', 'lenient')

    def __init__(self, cls, strict, allowed, lenient):
        self.cls, self.strict, self.allowed, self.lenient = cls, strict, allowed, lenient


def lenient_readings(text):
    return [r for r in (interpret(text, **d) for d in LENIENT) if r.ok]


def classify(text):
    s = interpret(text, **STRICT)
    if s.ok:
        return Verdict('accept', s, {s.key()}, [])
    len_ok = lenient_readings(text)
    if len_ok:
        return Verdict('gray', s, {r.key() for r in len_ok}, len_ok)
    return Verdict('reject', s, set(), [])


def judge(text, returned, raised_value_error):
    """The oracle, usable without classification cost on the common paths.

    returned: (n, clauses) or None; raised_value_error: bool (exactly one of them holds).
    Returns (label, None) when fine, (label, message) on a violation.
    """
    s = interpret(text, **STRICT)
    if s.ok:
        if raised_value_error:
            return 'accepted', 'valid text rejected; reference reading: {}'.format(s)
        if (returned[0], tuple(tuple(c) for c in returned[1])) != s.key():
            return 'accepted', 'misread: got n={} clauses={}, the text says {}'.format(
                returned[0], list(returned[1])[:12], s)
        return 'accepted', None
    if raised_value_error:
        return 'rejected-' + s.reason, None     # fine for 'reject' and for 'gray' alike
    len_ok = lenient_readings(text)
    got = (returned[0], tuple(tuple(c) for c in returned[1]))
    if not len_ok:
        return 'rejected-' + s.reason, 'malformed text accepted ({}: {}); returned n={} clauses={}'.format(
            s.reason, s.detail, returned[0], list(returned[1])[:12])
    if got not in {r.key() for r in len_ok}:
        return 'gray', 'gray text misread: got n={} clauses={}; permissive readings: {}'.format(
            returned[0], list(returned[1])[:12], len_ok[:3])
    return 'gray', None


def first_offending_line(text):
    """First line that is neither blank, comment, problem line nor made of integers."""
    for ln in text.split('\n'):
        body = ln.strip(_BLANKS)
        if body == '' or body[0] in 'cp':
            continue
        if any(not _STRICT_LIT.match(t) for t in _fields(body.rstrip('\r'), 'strict')):
            return ln
    return None


# ---------------------------------------------------------------------------
# seed corpus: the DIMACS snippets of the repository's own parser tests

def corpus_from_tests(repo):
    path = os.path.join(repo, 'tests', 'test_dimacsparser.py')
    out = []
    try:
        with open(path, encoding='utf-8') as f:
            tree = ast.parse(f.read())
    except OSError:
        return out
    docstrings = set()
    for node in ast.walk(tree):
        if isinstance(node, (ast.FunctionDef, ast.Module, ast.ClassDef)):
            d = ast.get_docstring(node, clean=False)
            if d is not None:
                docstrings.add(d)
    for node in ast.walk(tree):
        if isinstance(node, ast.Constant) and isinstance(node.value, str):
            s = node.value
            if s in docstrings or s in out:
                continue
            if '\n' in s:
                out.append(s)
    return out


EXTRA_TEXTS = [
    "", "\n", "p cnf 0 0", "p cnf 0 0\n", "p cnf 0 1\n0\n", "p cnf 3 0\n", "p cnf 2 2\n1 -2 0 2\n0\n",
    "p cnf 2 1\n1 -2\n", "p cnf 2 1\n1 -3 0\n", "p cnf 2 2\n1 -2 0\n", "p cnf 2 1\n1 0\n2 0\n",
    "p cnf 2 1\np cnf 2 1\n1 0\n", "1 0\np cnf 1 1\n", "p cnf 1 1\n1 0\nc end\n", "c\nc\np cnf 1 1\n\n1\n\n0\n",
    "p cnf 1 1\r\n1 0\r\n", "p cnf 1 1\r1 0\r", "p cnf 2 1\n+1 -2 0\n", "p cnf 10 1\n1_0 0\n",
    "p cnf 3 1\n٣ 0\n", "p dnf 1 1\n1 0\n", "p cnf 1 1 1 0\n", "p cnf 1\n1 0\n", "p cnf -1 0\n",
    "p cnf 1 1\n1 0 %\n", "p cnf 1 1\n- 0\n", "p cnf 1 1\n1.0 0\n", "p cnf 1 1\n1\x0b0\n", "  c x\n\tp cnf 1 1\n 1\t0 \n",
    "p cnf 1 2\n1 0 -1 0", "p cnf 1 1\n-0 1 0\n", "p cnf 1 1\n01 0\n", "pcnf 1 1\n1 0\n", "P CNF 1 1\n1 0\n",
    "p cnf 1 1\n1 0\x00\n", "p cnf 99999999999999999999 0\n", "p cnf 1 1\n2 0\n", "p cnf 1 1\n-2 0\n",
    "p cnf 0 0\n0\n", "p cnf 1 0\n1\n", "c p cnf 1 1\np cnf 2 1\n2 0\n",
]


# ---------------------------------------------------------------------------
# Hypothesis generators (imported lazily: the fuzz driver does not need hypothesis)

STRAY = ['x', '%', '1.5', '--1', '-', '+', '0x1', '1e1', '+2', '1_0', '٣', '²', '\x00', 'c', 'p',
         '-0', '00', '01', '1\xa02', ' 1', 'cnf', '0.', '﻿', '1,2', '\x0c']
SEPS = [' ', ' ', ' ', '\t', '  ', '\n', '\n', ' \n', '\n\n', '\nc note\n', '\r\n', ' \t ', '\nc 1 0\n', '\n  c\n']
ODD_WS = ['\r', '\x0b', '\x0c', '\x1c', '\x1f', '\x85', '\xa0', ' ', '　']
MUTATORS = ['truncate', 'del-line', 'dup-line', 'count-n', 'count-m', 'out-of-range', 'drop-final-0',
            'second-p', 'stray', 'bare-sign', 'format-word', 'p-late', 'p-extra', 'odd-ws', 'lf-to-cr',
            'del-char', 'join-lines']


_CACHE = {}


def _cached(fn):
    def wrapper():
        if fn.__name__ not in _CACHE:
            _CACHE[fn.__name__] = fn()
        return _CACHE[fn.__name__]
    wrapper.__name__ = fn.__name__
    wrapper.__doc__ = fn.__doc__
    return wrapper


@_cached
def st_unusual_text():
    """Header values, header keys and variable labels."""
    from hypothesis import strategies as st
    fixed = ['', '\n', '\r', 'a\nb', 'a\r\nb', 'a\rb', 'p cnf 1 1', 'c', 'c x', 'cnf', '\np cnf 1 1\n1 0', 'x\n1 2 0',
             'é', '日本', '0', ' ', '1 0', '%', '{}', '{0}', '}{', 'a\n', '\n\n', 'p', 'p cnf',
             '\u2028', '\x0c', '\x85', 'tab\there', 'café\nnaïve', '-1 0', 'x1']
    return st.one_of(st.sampled_from(fixed),
                     st.text(max_size=12),
                     st.text(alphabet='c p\n\r01-x', max_size=10))


@_cached
def st_document():
    """(text, provenance-list): a DIMACS-like document, valid before the mutators act.

    Every strategy object is built once; the composite only draws."""
    from hypothesis import strategies as st
    S = st.sampled_from
    I = st.integers
    s_n, s_ncl, s_w, s_sign = I(0, 6), I(0, 6), I(0, 4), S([1, -1])
    s_var = {n: I(1, n) for n in range(1, 7)}
    s_muts = st.lists(S(MUTATORS), max_size=2)
    s_dn, s_dm, s_oor = S([-2, -1, 1, 3]), S([-1, 1, 2]), I(1, 3)
    s_stray, s_bare = S(STRAY), S(['-', '+', '- 1', '-+1'])
    s_pword, s_pextra = S(['dnf', 'CNF', 'sat', 'cnf+', '']), S([' 0', ' 1 0', ' x', ' c comment'])
    s_pre_n = I(0, 2)
    s_pre = S(['c', 'c hello', 'c p cnf 9 9', ' c indented', 'c 1 2 0', 'cnf', ''])
    s_sp, s_lead, s_trail = S([' ', ' ', '\t', '  ']), S(['', '', ' ', '\t']), S(['', '', ' ', '\r'])
    s_sep, s_nl, s_five = S(SEPS), I(0, 3), I(0, 4)
    s_odd, s_bool, s_glue = S(ODD_WS), st.booleans(), S(['', ' '])
    s_pos = I(0, 10 ** 6)          # positions are reduced modulo the actual length

    @st.composite
    def doc(draw):
        n = draw(s_n)
        clauses = []
        for _ in range(draw(s_ncl)):
            if n == 0:
                clauses.append([])
            else:
                clauses.append([draw(s_var[n]) * draw(s_sign) for _ in range(draw(s_w))])
        muts = draw(s_muts)
        decl_n, decl_m = n, len(clauses)
        toks = []
        for c in clauses:
            toks.extend(str(l) for l in c)
            toks.append('0')
        pword = 'cnf'
        pextra = ''
        second_p = None
        p_late = False
        # ---- structural mutators
        for mu in muts:
            if mu == 'count-n':
                decl_n = max(0, decl_n + draw(s_dn))
            elif mu == 'count-m':
                decl_m = max(0, decl_m + draw(s_dm))
            elif mu == 'out-of-range':
                lits = [i for i, t in enumerate(toks) if t != '0']
                v = (decl_n + draw(s_oor)) * draw(s_sign)
                if lits:
                    toks[lits[draw(s_pos) % len(lits)]] = str(v)
                else:
                    toks.insert(0, str(v))
            elif mu == 'drop-final-0':
                if toks:
                    toks.pop()
            elif mu == 'second-p':
                second_p = draw(s_pos) % (len(toks) + 1)
            elif mu == 'stray':
                toks.insert(draw(s_pos) % (len(toks) + 1), draw(s_stray))
            elif mu == 'bare-sign':
                if toks:
                    toks[draw(s_pos) % len(toks)] = draw(s_bare)
                else:
                    toks.append('-')
            elif mu == 'format-word':
                pword = draw(s_pword)
            elif mu == 'p-late':
                p_late = True
            elif mu == 'p-extra':
                pextra = draw(s_pextra)
        # ---- rendering
        out = []
        for _ in range(draw(s_pre_n)):
            out.append(draw(s_pre) + '\n')
        sp = draw(s_sp)
        pl = draw(s_lead) + sp.join(
            [x for x in ['p', pword, str(decl_n), str(decl_m)] if x != '']) + pextra + draw(s_trail)
        body = []
        plain = draw(s_five) == 0          # one clause per line, single blanks (the writer's layout)
        for i, t in enumerate(toks):
            if second_p is not None and second_p == i:
                body.append('\np cnf {} {}\n'.format(decl_n, decl_m))
            body.append(t)
            if plain:
                body.append('\n' if t == '0' else ' ')
            elif t == '0' and draw(s_nl) > 0:
                body.append('\n')
            else:
                body.append(draw(s_sep))
        if second_p is not None and second_p >= len(toks):
            body.append('\np cnf {} {}\n'.format(decl_n, decl_m))
        body = ''.join(body)
        if p_late:
            cut = draw(s_pos) % (len(body) + 1)
            text = ''.join(out) + body[:cut] + '\n' + pl + '\n' + body[cut:]
        else:
            text = ''.join(out) + pl + '\n' + body
        if draw(s_five) == 0:
            text = text.rstrip('\n')
        # ---- textual mutators
        for mu in muts:
            if mu == 'truncate' and text:
                text = text[:draw(s_pos) % len(text)]
            elif mu in ('del-line', 'dup-line', 'join-lines'):
                lines = text.split('\n')
                i = draw(s_pos) % len(lines)
                if mu == 'del-line':
                    del lines[i]
                elif mu == 'dup-line':
                    lines.insert(i, lines[i])
                elif i + 1 < len(lines):
                    lines[i:i + 2] = [lines[i] + draw(s_glue) + lines[i + 1]]
                text = '\n'.join(lines)
            elif mu == 'odd-ws' and text:
                i = draw(s_pos) % len(text)
                w = draw(s_odd)
                text = text[:i] + w + (text[i + 1:] if text[i] in ' \t\n' else text[i:])
            elif mu == 'lf-to-cr':
                text = text.replace('\n', '\r') if draw(s_bool) else text.replace('\n', '\r\n')
            elif mu == 'del-char' and text:
                i = draw(s_pos) % len(text)
                text = text[:i] + text[i + 1:]
        return text, ['grammar'] + muts
    return doc()


@_cached
def st_reader_text():
    from hypothesis import strategies as st
    d = st_document()
    return st.one_of(
        d, d, d, d,
        st.text(max_size=40).map(lambda t: (t, ['raw'])),
        st.text(alphabet='pcnf 0123-+\n\n\t\r_', max_size=40).map(lambda t: (t, ['alphabet'])),
        st.tuples(st.sampled_from(['p cnf 2 1\n', 'p cnf 3 2\n', 'c x\np cnf 1 1\n']),
                  st.text(alphabet='0123 -\n', max_size=24)).map(lambda p: (p[0] + p[1], ['alphabet'])),
    )


# ---------------------------------------------------------------------------
# delta debugging of a failing text (used for fuzz findings)

def shrink_text(text, still_fails, budget=2000):
    calls = [0]

    def test(t):
        calls[0] += 1
        return calls[0] <= budget and still_fails(t)

    for splitter, joiner in ((lambda t: t.split('\n'), '\n'.join), (list, ''.join)):
        parts = splitter(text)
        chunk = max(1, len(parts) // 2)
        while chunk >= 1 and calls[0] < budget:
            i, changed = 0, False
            while i < len(parts):
                cand = parts[:i] + parts[i + chunk:]
                if test(joiner(cand)):
                    parts, changed = cand, True
                else:
                    i += chunk
            if not changed:
                chunk //= 2
        text = joiner(parts)
    return text


# ---------------------------------------------------------------------------
# atheris driver.  Runs in a sub-process:
#   python -m vlib.rd_dimacs --fuzz TARGET OUTDIR [libFuzzer arguments ...]
# The semantic oracle (judge) is evaluated inside the fuzz target.  On a finding the input
# is written to OUTDIR/finding.json as {"text": ..., "mode": ..., "message": ...} and the
# target raises, which makes libFuzzer stop with a crash artefact as well.

def _fuzz_main(argv):
    target, outdir = argv[0], argv[1]
    fargs = argv[2:]
    import io
    import atheris
    with atheris.instrument_imports(include=['cnfgen.utils.parsedimacs']):
        import cnfgen.utils.parsedimacs as pd
    from cnfgen.formula.cnf import CNF
    global interpret
    try:
        interpret = atheris.instrument_func(interpret)     # coverage feedback from the oracle too
    except Exception:      # noqa
        pass
    stats = {'execs': 0, 'accepted': 0, 'gray': 0}
    statfile = os.path.join(outdir, 'stats.json')

    def dump():
        tmp = statfile + '.tmp'
        with open(tmp, 'w') as f:
            json.dump(stats, f)
        os.replace(tmp, statfile)

    def one_input(data):
        text = data.decode('utf-8', 'replace')
        stats['execs'] += 1
        returned, rejected = None, False
        try:
            if target == 'parse':
                seq = list(pd.parse_dimacs(io.StringIO(text)))
                returned = (seq[0], [list(c) for c in seq[2:]])
                if seq[1] != len(seq) - 2:
                    raise AssertionError('clause count mismatch in generator output')
            else:
                F = pd.from_dimacs_file(CNF, io.StringIO(text))
                returned = (F.number_of_variables(), [list(c) for c in F])
        except ValueError:
            rejected = True
        except Exception as e:    # noqa - any other exception type is a finding
            with open(os.path.join(outdir, 'finding.json'), 'w') as f:
                json.dump({'text': text, 'mode': 'parse' if target == 'parse' else 'strio',
                           'message': 'unexpected {}: {}'.format(type(e).__name__, e)}, f)
            dump()
            raise
        label, msg = judge(text, returned, rejected)
        stats[label] = stats.get(label, 0) + 1
        if msg is not None:
            with open(os.path.join(outdir, 'finding.json'), 'w') as f:
                json.dump({'text': text, 'mode': 'parse' if target == 'parse' else 'strio', 'message': msg}, f)
            dump()
            raise RuntimeError('C06 oracle: ' + msg)
        if stats['execs'] % 2000 == 0:
            dump()

    import atexit
    atexit.register(dump)
    atheris.Setup([sys.argv[0]] + fargs, one_input)
    atheris.Fuzz()


if __name__ == '__main__':
    if len(sys.argv) > 1 and sys.argv[1] == '--fuzz':
        _fuzz_main(sys.argv[2:])
    else:
        for a in sys.argv[1:]:
            with open(a, encoding='utf-8', newline='') as fh:
                t = fh.read()
            v = classify(t)
            print(a, v.cls, v.strict, v.lenient[:2])
