"""Grammar of valid command lines (small sizes) for cnfgen / pbgen.

All strategies return lists of string tokens.  Sizes are bounded by
construction: graphs have at most 6 vertices, numeric parameters are small, and
a transformation chain contains at most one clause-expanding step (arity 2).
"""
from hypothesis import strategies as st

P_VALUES = ['0', '0.3', '0.5', '.8', '1']


# ---------------------------------------------------------------------------
# graph specifications

@st.composite
def simple_spec(draw, random_ok=True, det_ok=True, nmax=6, modifiers=True, even_degrees=False):
    kinds = []
    if random_ok:
        kinds += ['gnp', 'gnm', 'gnd', 'gnp3']
    if det_ok:
        kinds += ['grid', 'torus', 'complete', 'empty', 'completeB']
    if even_degrees:
        kinds = [k for k in kinds if k in ('gnd', 'torus', 'empty')] or ['empty']
    kind = draw(st.sampled_from(kinds))
    if kind == 'gnp':
        n = draw(st.integers(1, nmax))
        toks = ['gnp', str(n), draw(st.sampled_from(P_VALUES))]
    elif kind == 'gnp3':
        n = draw(st.integers(1, 2))
        t = draw(st.integers(2, 3))
        toks = ['gnp', str(n), draw(st.sampled_from(P_VALUES)), str(t)]
        n = n * t
    elif kind == 'gnm':
        n = draw(st.integers(1, nmax))
        toks = ['gnm', str(n), str(draw(st.integers(0, n * (n - 1) // 2)))]
    elif kind == 'gnd':
        n = draw(st.integers(2, nmax))
        ds = [d for d in range(1, n) if n * d % 2 == 0 and (not even_degrees or d % 2 == 0)]
        if not ds:
            n, ds = 4, [2]
        toks = ['gnd', str(n), str(draw(st.sampled_from(ds)))]
    elif kind in ('grid', 'torus'):
        dims = draw(st.lists(st.integers(1, 3), min_size=1, max_size=2))
        if kind == 'torus' and even_degrees:
            dims = [3, 3] if len(dims) == 2 else [3]
        toks = [kind] + [str(d) for d in dims]
        n = 1
        for d in dims:
            n *= d
    elif kind == 'complete':
        n = draw(st.integers(1, nmax))
        toks = ['complete', str(n)]
    elif kind == 'completeB':
        a = draw(st.integers(1, 2))
        b = draw(st.integers(1, 3))
        toks = ['complete', str(a), str(b)]
        n = a * b
    else:
        n = draw(st.integers(1, nmax))
        toks = ['empty', str(n)]
    if modifiers and not even_degrees:
        mods = draw(st.lists(st.sampled_from(['plantclique', 'addedges', 'splitedges']), unique=True, max_size=2))
        for m in sorted(mods, key=['plantclique', 'addedges', 'splitedges'].index):
            if m == 'plantclique':
                toks += [m, str(draw(st.integers(0, min(n, 4))))]
            elif m == 'addedges':
                toks += [m, str(draw(st.integers(0, 2)))]
            else:
                toks += [m, str(draw(st.integers(0, 2)))]
    return toks


@st.composite
def bipartite_spec(draw, random_ok=True, det_ok=True, modifiers=True, L=None):
    kinds = []
    if random_ok:
        kinds += ['glrp', 'glrm', 'glrd', 'regular']
    if det_ok:
        kinds += ['shift', 'complete', 'empty']
    kind = draw(st.sampled_from(kinds))
    l = L if L is not None else draw(st.integers(1, 4))
    r = draw(st.integers(1, 4))
    if kind == 'glrp':
        toks = ['glrp', str(l), str(r), draw(st.sampled_from(P_VALUES))]
    elif kind == 'glrm':
        toks = ['glrm', str(l), str(r), str(draw(st.integers(0, l * r)))]
    elif kind == 'glrd':
        toks = ['glrd', str(l), str(r), str(draw(st.integers(0, r)))]
    elif kind == 'regular':
        ds = [d for d in range(0, r + 1) if (l * d) % r == 0]
        toks = ['regular', str(l), str(r), str(draw(st.sampled_from(ds)))]
    elif kind == 'shift':
        pat = draw(st.lists(st.integers(0, r), unique=True, max_size=3))
        toks = ['shift', str(l), str(r)] + [str(x) for x in pat]
    else:
        toks = [kind, str(l), str(r)]
    if modifiers:
        mods = draw(st.lists(st.sampled_from(['plantbiclique', 'addedges']), unique=True, max_size=2))
        for m in sorted(mods, key=['plantbiclique', 'addedges'].index):
            if m == 'plantbiclique':
                toks += [m, str(draw(st.integers(0, l))), str(draw(st.integers(0, r)))]
            else:
                toks += [m, str(draw(st.integers(0, 2)))]
    return toks


@st.composite
def dag_spec(draw):
    kind = draw(st.sampled_from(['path', 'tree', 'pyramid']))
    h = draw(st.integers(0, 4 if kind == 'path' else 2))
    return [kind, str(h)]


# ---------------------------------------------------------------------------
# formula sub-commands with graph specifications

@st.composite
def graph_command(draw, random_ok=True, det_ok=True):
    """sub-command taking a graph given as a construction"""
    name = draw(st.sampled_from(['kcolor', 'domset', 'tiling', 'kclique', 'kcliquebin', 'ramlb', 'matching',
                                 'tseitin', 'op', 'iso', 'iso2', 'subgraph', 'ec', 'php', 'subsetcard', 'peb', 'stone']))
    S = lambda **k: draw(simple_spec(random_ok=random_ok, det_ok=det_ok, **k))     # noqa
    if name == 'kcolor':
        return ['kcolor', str(draw(st.integers(1, 3)))] + S(nmax=5)
    if name == 'domset':
        alt = ['--alternative'] if draw(st.booleans()) else []
        return ['domset'] + alt + [str(draw(st.integers(1, 2)))] + S(nmax=5)
    if name == 'tiling':
        return ['tiling'] + S()
    if name == 'kclique':
        return ['kclique', str(draw(st.integers(0, 3)))] + S(nmax=5) + (['--no-symmetry-breaking'] if draw(st.booleans()) else [])
    if name == 'kcliquebin':
        return ['kcliquebin', str(draw(st.integers(0, 3)))] + S()
    if name == 'ramlb':
        return ['ramlb', str(draw(st.integers(0, 3))), str(draw(st.integers(0, 3)))] + S(nmax=5)
    if name == 'matching':
        return ['matching'] + S()
    if name == 'tseitin':
        ch = draw(st.sampled_from(['first', 'random', 'randomodd', 'randomeven', 'zero', 'one']))
        return ['tseitin', ch] + S()
    if name == 'op':
        fl = draw(st.sampled_from([[], ['--total'], ['--smart'], ['--knuth2'], ['--knuth3']]))
        return ['op'] + fl + (['--plant'] if draw(st.booleans()) else []) + S(nmax=4)
    if name == 'iso':
        return ['iso'] + S(nmax=4)
    if name == 'iso2':
        return ['iso'] + S(nmax=4, modifiers=False) + ['-e'] + S(nmax=4)
    if name == 'subgraph':
        return ['subgraph', '-G'] + S(nmax=5) + ['-H'] + S(nmax=3, modifiers=False)
    if name == 'ec':
        return ['ec'] + S(even_degrees=True)
    if name == 'php':
        fl = (['--functional'] if draw(st.booleans()) else []) + (['--onto'] if draw(st.booleans()) else [])
        return ['php'] + fl + draw(bipartite_spec(random_ok=random_ok, det_ok=det_ok))
    if name == 'subsetcard':
        return ['subsetcard'] + (['--equal'] if draw(st.booleans()) else []) + draw(bipartite_spec(random_ok=random_ok, det_ok=det_ok))
    if name == 'peb':
        return ['peb'] + draw(dag_spec())
    return ['stone', str(draw(st.integers(1, 2)))] + draw(st.sampled_from([['path', '2'], ['path', '3'], ['tree', '1'], ['pyramid', '1']])) + \
        (['--sparse', '1'] if draw(st.booleans()) else [])


@st.composite
def numeric_random_command(draw):
    """sub-commands whose numeric form draws random numbers"""
    name = draw(st.sampled_from(['randkcnf', 'randkxor', 'php', 'tseitin', 'op', 'subsetcard', 'pitfall']))
    if name == 'randkcnf':
        k, n = draw(st.integers(1, 3)), draw(st.integers(3, 8))
        return ['randkcnf'] + (['-p'] if draw(st.booleans()) else []) + [str(k), str(n), str(draw(st.integers(0, 6)))]
    if name == 'randkxor':
        k, n = draw(st.integers(1, 3)), draw(st.integers(3, 8))
        return ['randkxor'] + (['-p'] if draw(st.booleans()) else []) + [str(k), str(n), str(draw(st.integers(0, 3)))]
    if name == 'php':
        n = draw(st.integers(2, 4))
        return ['php', str(draw(st.integers(1, 5))), str(n), str(draw(st.integers(1, n - 1)))]
    if name == 'tseitin':
        n, d = draw(st.sampled_from([(4, 2), (4, 3), (5, 2), (6, 3), (5, 4), (3, 2)]))
        return ['tseitin', str(n), str(d)]
    if name == 'op':
        n, d = draw(st.sampled_from([(4, 2), (4, 3), (5, 2), (3, 2)]))
        return ['op', str(n), str(d)]
    if name == 'subsetcard':
        n = draw(st.integers(2, 4))
        return ['subsetcard', str(n), str(draw(st.integers(1, n - 1)))]
    return ['pitfall', str(draw(st.sampled_from([3, 4]))), '2', str(draw(st.integers(2, 3))), '2', '2']


@st.composite
def deterministic_numeric_command(draw):
    name = draw(st.sampled_from(['php', 'bphp', 'rphp', 'count', 'parity', 'ram', 'vdw', 'ptn', 'cliquecoloring',
                                 'cpls', 'and', 'or', 'true', 'false', 'op']))
    I = lambda a, b: str(draw(st.integers(a, b)))    # noqa
    if name == 'php':
        return ['php', I(0, 4), I(0, 3)]
    if name == 'bphp':
        return ['bphp', I(1, 4), I(1, 5)]
    if name == 'rphp':
        return ['rphp', I(0, 3), I(0, 3), I(0, 3)]
    if name == 'count':
        return ['count', I(0, 6), I(1, 3)]
    if name == 'parity':
        return ['parity', I(0, 6)]
    if name == 'ram':
        return ['ram', I(1, 3), I(1, 3), I(0, 5)]
    if name == 'vdw':
        # two or more progression lengths (the formula switches encoding at three colours)
        return ['vdw', I(0, 8), I(1, 3), I(1, 3)] + [I(1, 3) for _ in range(draw(st.sampled_from([0, 0, 1, 2])))]
    if name == 'ptn':
        return ['ptn', I(0, 30)]
    if name == 'cliquecoloring':
        return ['cliquecoloring', I(0, 4), I(1, 2), I(1, 2)]
    if name == 'cpls':
        return ['cpls', I(1, 2), draw(st.sampled_from(['1', '2'])), draw(st.sampled_from(['1', '2', '4']))]
    if name in ('and', 'or'):
        return [name, I(0, 4), I(0, 4)]
    if name == 'op':
        return ['op', I(1, 4)]
    return [name]


EXPANDING = [['xor', '2'], ['or', '2'], ['maj', '2'], ['maj', '3'], ['eq', '2'], ['neq', '2'], ['one', '2'],
             ['atleast', '2', '1'], ['atmost', '2', '1'], ['exact', '2', '1'], ['anybut', '2', '1'], ['ite'],
             ['lift', '2'], ['xorcomp', '3', '2'], ['majcomp', '3', '2'], ['xorcomp', '4'], ['majcomp', '2', '1']]
RANDOM_T = [['shuffle'], ['xorcomp', '3', '2'], ['majcomp', '3', '2'], ['xorcomp', '4']]


@st.composite
def shuffle_t(draw):
    fl = draw(st.lists(st.sampled_from(['--no-polarity-flips', '--no-variables-permutation', '--no-clauses-permutation']),
                       unique=True, max_size=3))
    return ['shuffle'] + fl


WIDE = ('pitfall', 'count')      # sub-commands with wide clauses: no clause-expanding transformation on them


@st.composite
def tchain(draw, max_len=3, require_random=False, allow_expanding=True):
    """-T chains with at most one clause-expanding step"""
    steps = []
    n = draw(st.integers(1 if require_random else 0, max_len))
    expanded = not allow_expanding
    for _ in range(n):
        kind = draw(st.sampled_from(['shuffle', 'flip', 'none', 'expand']))
        if kind == 'expand' and not expanded:
            steps.append(draw(st.sampled_from(EXPANDING)))
            expanded = True
        elif kind == 'flip':
            steps.append(['flip'])
        elif kind == 'none':
            steps.append(['none'])
        else:
            steps.append(draw(shuffle_t()))
    if require_random and not any(s[0] in ('shuffle', 'xorcomp', 'majcomp') for s in steps):
        steps.append(draw(shuffle_t()))
    toks = []
    for s in steps:
        toks += ['-T'] + s
    return toks


OUTPUT_OPTS = [[], ['-q'], ['-v'], ['--varnames'], ['-of', 'opb'], ['-of', 'latex'], ['-of', 'dimacs', '--varnames'], ['-l']]


# ---------------------------------------------------------------------------
# the spellings argparse accepts for "--seed N"

SEED_FORMS = 5


def seed_tokens(seed, form=0):
    """the same option in every spelling the tools accept: '--seed N', '-S N', '--seed=N', '-SN', an unambiguous prefix"""
    s = str(seed)
    form = form % SEED_FORMS
    if form == 1:
        return ['-S', s]
    if form == 2:
        return ['--seed=' + s]
    if form == 3:
        return ['-S' + s]
    if form == 4:
        return ['--see', s]
    return ['--seed', s]
