"""In-process and sub-process execution of the command line tools.

In-process: ``run_main(tool, args, stdin_text)`` emulates the real entry point
``main()`` (argv, captured stdout/stderr, SystemExit) and resets every piece of
process-global state the tools touch before each call (``random`` is NOT reset
here: the caller owns the seed), so a case replays from its argv alone.
``build(tool, args)`` calls ``cli(argv, mode='formula')`` and returns the
formula object (or raises CLIError).
"""
import io
import os
import signal
import subprocess
import sys

TOOLS = {
    'cnfgen': 'cnfgen.clitools.cnfgen',
    'pbgen': 'cnfgen.clitools.pbgen',
    'cnfshuffle': 'cnfgen.clitools.cnfshuffle',
    'kthlist2pebbling': 'cnfgen.clitools.kthlist2pebbling',
}


class _Buf(io.StringIO):
    """StringIO that survives close() (the tools close stderr / argparse closes files)."""

    def close(self):
        pass

    def isatty(self):
        return False


class _Stdin(io.StringIO):
    def close(self):
        pass

    def isatty(self):
        return False


class Result:
    def __init__(self, code, out, err, exc):
        self.code = code
        self.out = out
        self.err = err
        self.exc = exc          # exception that escaped main(), or None

    def __repr__(self):
        return "Result(code={}, out={!r}, err={!r}, exc={!r})".format(
            self.code, self.out[:200], self.err[:300], self.exc)


_PRELOADED = False


def _module(tool):
    import importlib
    global _PRELOADED
    if not _PRELOADED:
        # the tools re-execute every helper module that is not in sys.modules on each call;
        # importing them once keeps an in-process call at a few milliseconds
        import pkgutil
        import cnfgen.clihelpers
        for _, name, _ in pkgutil.walk_packages(cnfgen.clihelpers.__path__):
            importlib.import_module('cnfgen.clihelpers.' + name)
        _PRELOADED = True
    return importlib.import_module(TOOLS[tool])


def reset_globals():
    import cnfgen.clitools.msg as msg
    msg._prefix = ''


def run_main(tool, args, stdin_text=None):
    """Emulates `tool args...` : returns Result. Exceptions escaping main() are captured."""
    mod = _module(tool)
    reset_globals()
    old = (sys.argv, sys.stdout, sys.stderr, sys.stdin)
    old_sig = signal.getsignal(signal.SIGINT)
    out, err = _Buf(), _Buf()
    sys.argv = [tool] + [str(a) for a in args]
    sys.stdout, sys.stderr = out, err
    sys.stdin = _Stdin(stdin_text if stdin_text is not None else '')
    code, exc = 0, None
    try:
        try:
            mod.main()
        except SystemExit as e:
            c = e.code
            if c is None:
                code = 0
            elif isinstance(c, int):
                code = c & 0xFF
            else:
                err.write(str(c) + "\n")
                code = 1
        except BaseException as e:    # noqa
            if isinstance(e, KeyboardInterrupt):
                raise
            exc = e
            code = 1
    finally:
        sys.argv, sys.stdout, sys.stderr, sys.stdin = old
        try:
            signal.signal(signal.SIGINT, old_sig)
        except Exception:     # noqa
            pass
        reset_globals()
    return Result(code, out.getvalue(), err.getvalue(), exc)


def build(tool, args, stdin_text=None):
    """cli(argv, mode='formula'): the formula object; CLIError/others propagate."""
    mod = _module(tool)
    reset_globals()
    old = (sys.stdout, sys.stderr, sys.stdin)
    sys.stdout, sys.stderr = _Buf(), _Buf()
    sys.stdin = _Stdin(stdin_text if stdin_text is not None else '')
    try:
        return mod.cli([tool] + [str(a) for a in args], mode='formula')
    finally:
        sys.stdout, sys.stderr, sys.stdin = old
        reset_globals()


def run_subprocess(tool, args, stdin_text=None, cwd=None, hashseed='0', timeout=120, extra_env=None, stdout_path=None, stdin_fd=None, stderr_fd=None):
    """Real process: python -c 'from <module> import main; main()'.
    stdin_fd / stderr_fd: an open file descriptor (e.g. the slave side of a pseudo-terminal) to use instead of a pipe."""
    repo = os.environ.get('VERIF_REPO', '/repo')
    env = {k: v for k, v in os.environ.items() if k not in ('PYTHONHASHSEED',)}
    env['PYTHONPATH'] = repo
    env['PYTHONHASHSEED'] = str(hashseed)
    env['PYTHONWARNINGS'] = 'ignore'
    if extra_env:
        env.update(extra_env)
    code = "import sys; sys.argv[0]={!r}; from {} import main; main()".format(tool, TOOLS[tool])
    sink = open(stdout_path, 'w') if stdout_path else None       # e.g. /dev/full: every write fails with ENOSPC
    try:
        if stdin_fd is not None or stderr_fd is not None:
            p = subprocess.run([sys.executable] + (['-O'] if sys.flags.optimize else []) + ['-c', code] + [str(a) for a in args],
                               stdin=stdin_fd if stdin_fd is not None else subprocess.DEVNULL, encoding='utf-8', errors='replace',
                               stdout=sink if sink is not None else subprocess.PIPE,
                               stderr=stderr_fd if stderr_fd is not None else subprocess.PIPE, cwd=cwd or repo, env=env, timeout=timeout)
            return Result(p.returncode & 0xFF, p.stdout or '', p.stderr or '', None)
        p = subprocess.run([sys.executable] + (['-O'] if sys.flags.optimize else []) + ['-c', code] + [str(a) for a in args],
                           input=(stdin_text if stdin_text is not None else ''), encoding='utf-8', errors='replace',
                           stdout=sink if sink is not None else subprocess.PIPE, stderr=subprocess.PIPE, cwd=cwd or repo, env=env, timeout=timeout)
    finally:
        if sink is not None:
            try:
                sink.close()
            except OSError:
                pass
    return Result(p.returncode & 0xFF, p.stdout or '', p.stderr, None)
