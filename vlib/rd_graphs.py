"""Independent reference readers / writers for the graph file formats (property C14).

Nothing in here imports cnfgen (except the atheris driver at the bottom, which is the
*target* of the fuzzing campaigns).  Readers are written from the format descriptions:

* kthlist : /repo/www/KTHlistFormat.txt and the 'KTH ... format' sections of
            /repo/www/graphformats.org (cnfgen's dialect: one list per line, lists of
            increasing vertices, bipartite = lists of the left vertices 1..L only);
* dimacs  : DIMACS edge format, 'c' comment lines, one 'p edge N M' line, M lines 'e u v';
* matrix  : 'two numbers r and c separated by whitespace, followed by a whitespace separated
            sequence of zeros and ones of length r x c'.

A graph is described by a plain dict ("desc"):
    {'n': 5, 'edges': [[1, 2], [2, 5]]}                 simple / digraph / dag
    {'L': 2, 'R': 3, 'edges': [[1, 1], [2, 3]]}          bipartite (right vertices 1..R)
with edges in canonical (sorted, duplicate free) order; simple edges are [min, max].

``ref_read(fmt, gtype, text)`` returns a ``Ref`` with

    status  'valid'    the text is in the core dialect: the reader must return exactly .graph
            'invalid'  the description makes the text invalid: the reader must raise ValueError
            'gray'     the descriptions leave the text open (see .why): ValueError is fine,
                       a returned graph must be one of .graph / .alts (anything if .graph is None)
"""
import re

TYPES = ('simple', 'digraph', 'dag', 'bipartite')
INHOUSE = {'simple': ('kthlist', 'dimacs'), 'digraph': ('kthlist', 'dimacs'),
           'dag': ('kthlist', 'dimacs'), 'bipartite': ('kthlist', 'matrix')}
SIZE_CAP = 300          # the harness never lets the code under test allocate bigger graphs

_PLAIN = frozenset([chr(c) for c in range(0x20, 0x7f)] + ['\n', '\t', '\r'])


# ---------------------------------------------------------------------------
# graph descriptions

def canon_edges(gtype, edges):
    if gtype == 'simple':
        s = set((min(u, v), max(u, v)) for u, v in edges)
    else:
        s = set((u, v) for u, v in edges)
    return [list(e) for e in sorted(s)]


def make_desc(gtype, n=None, edges=(), L=None, R=None):
    if gtype == 'bipartite':
        return {'L': L, 'R': R, 'edges': canon_edges(gtype, edges)}
    return {'n': n, 'edges': canon_edges(gtype, edges)}


def desc_order(d):
    return d['n'] if 'n' in d else d['L'] + d['R']


def describe(H, gtype):
    """Description of a cnfgen graph object through its public interface (edge order kept)."""
    edges = [[int(u), int(v)] for u, v in H.edges()]
    if gtype == 'bipartite':
        return {'L': H.left_order(), 'R': H.right_order(), 'edges': edges}
    return {'n': H.number_of_vertices(), 'edges': edges}


def upward(d):
    return all(u < v for u, v in d['edges'])


def too_big(text, cap=SIZE_CAP):
    """True when some token of the text reads (for Python's int) as a number above the cap:
    such a text could make a reader allocate a huge graph, it is not given to the code under test."""
    for tok in re.split(r'[\s:]+', text):
        if not tok:
            continue
        if len(tok) > 40:
            if any(ch.isdigit() for ch in tok):
                return True
            continue
        try:
            v = int(tok)
        except ValueError:
            continue
        if abs(v) > cap:
            return True
    return False


# ---------------------------------------------------------------------------
# reference readers

class Ref(object):
    __slots__ = ('status', 'graph', 'alts', 'why', 'feats')

    def __init__(self):
        self.status = 'valid'
        self.graph = None
        self.alts = []
        self.why = []        # reasons for gray / invalid
        self.feats = set()   # 'blank-line', 'comment-line', 'size-line', 'edge-token'

    def gray(self, reason):
        if reason not in self.why:
            self.why.append(reason)
        if self.status == 'valid':
            self.status = 'gray'

    def invalid(self, reason):
        self.status = 'invalid'
        self.why = [reason]
        self.graph = None
        self.alts = []
        return self

    def accepts(self, d):
        """For a graph returned by the reader under test (status valid / gray)."""
        if self.status == 'gray' and self.graph is None:
            return True
        return d == self.graph or any(d == a for a in self.alts)


_DEC = re.compile(r'[0-9]+\Z')
_PYINT = re.compile(r'[+-]?[0-9]+(_[0-9]+)*\Z')


def int_token(tok):
    """(value, canonical) for a token Python's int() accepts, None otherwise.
    canonical: plain decimal digits without sign or leading zeros."""
    if len(tok) > 40:
        return None
    if _DEC.match(tok):
        return int(tok), (tok == '0' or tok[0] != '0')
    if _PYINT.match(tok):
        return int(tok), False
    return None


def _plain_lines(text, ref):
    """Lines of a text in the plain alphabet (None when the text is exotic)."""
    if not all(ch in _PLAIN for ch in text) or re.search(r'\r(?!\n)', text):
        ref.gray('exotic-characters')
        ref.graph = None
        return None
    lines = text.split('\n')
    if lines[-1] == '':
        lines.pop()
    out = []
    for l in lines:
        if l.endswith('\r'):
            ref.gray('crlf')
            l = l[:-1]
        out.append(l)
    return out


def _ws_notes(l, ref):
    if l != l.strip(' \t'):
        ref.gray('outer-whitespace')
    if '\t' in l:
        ref.gray('tab')


def _finish_edges(gtype, ref, raw):
    """raw: list of directed pairs as written; duplicates make the text gray."""
    if gtype == 'simple':
        keys = [(min(u, v), max(u, v)) for u, v in raw]
    else:
        keys = [(u, v) for u, v in raw]
    return keys


def ref_kthlist(text, gtype):
    ref = Ref()
    lines = _plain_lines(text, ref)
    if lines is None:
        return ref
    size = None
    lists = []          # [head, [neighbours]]
    cur = None          # list still waiting for its terminator
    for l in lines:
        if l[:1] == 'c':
            ref.feats.add('comment-line')
            continue
        if l[:1] == 'C':
            ref.gray('upper-case-comment')
            continue
        if l.strip(' \t') == '':
            ref.feats.add('blank-line')
            if l != '':
                ref.gray('whitespace-only-line')
            continue
        _ws_notes(l, ref)
        if ':' not in l:
            if size is None:
                t = int_token(l.strip(' \t'))
                if t is None or t[0] < 0:
                    return ref.invalid('bad-size-line')
                size = t[0]
                if not t[1]:
                    ref.gray('int-spelling')
                ref.feats.add('size-line')
                continue
            if cur is None:
                return ref.invalid('second-size-line')
            ref.gray('continuation-line')
            toks = l.split()
        else:
            if l.count(':') != 1:
                return ref.invalid('two-colons')
            if size is None:
                return ref.invalid('list-before-size')
            if cur is not None:
                return ref.invalid('missing-terminator')
            head, tail = l.split(':')
            t = int_token(head.strip(' \t'))
            if t is None:
                return ref.invalid('bad-vertex')
            if not t[1]:
                ref.gray('int-spelling')
            if not 1 <= t[0] <= size:
                return ref.invalid('vertex-out-of-range')
            cur = [t[0], []]
            toks = tail.split()
        for i, tok in enumerate(toks):
            t = int_token(tok)
            if t is None:
                return ref.invalid('bad-vertex')
            if not t[1]:
                ref.gray('int-spelling')
            if t[0] == 0:
                if i != len(toks) - 1:
                    return ref.invalid('text-after-terminator')
                lists.append(cur)
                cur = None
            else:
                if not 1 <= t[0] <= size:
                    return ref.invalid('vertex-out-of-range')
                cur[1].append(t[0])
                ref.feats.add('edge-token')
    if size is None:
        return ref.invalid('no-size-line')
    if cur is not None:
        return ref.invalid('missing-terminator')
    heads = [h for h, _ in lists]
    if any(a >= b for a, b in zip(heads, heads[1:])):
        ref.gray('vertex-lines-not-increasing')
    for h, nb in lists:
        if len(set(nb)) != len(nb):
            ref.gray('repeated-neighbour')
    if gtype == 'bipartite':
        L = max(heads) if heads else 0
        if any(v <= L for _, nb in lists for v in nb):
            return ref.invalid('edge-against-bipartition')
        if set(heads) != set(range(1, L + 1)):
            ref.gray('skipped-left-vertex')
        ref.graph = make_desc(gtype, L=L, R=size - L,
                              edges=[(h, v - L) for h, nb in lists for v in nb])
        return ref
    pairs = [(v, h) for h, nb in lists for v in nb]
    if gtype == 'simple' and any(u == v for u, v in pairs):
        return ref.invalid('self-loop')
    if gtype == 'dag' and any(u >= v for u, v in pairs):
        return ref.invalid('dag-back-edge')
    ref.graph = make_desc(gtype, n=size, edges=pairs)
    return ref


def ref_dimacs(text, gtype):
    ref = Ref()
    lines = _plain_lines(text, ref)
    if lines is None:
        return ref
    n = m = None
    pairs = []
    for l in lines:
        s = l.strip(' \t')
        if s == '':
            ref.feats.add('blank-line')
            ref.gray('blank-line')          # the DIMACS description does not mention empty lines
            continue
        _ws_notes(l, ref)
        kind = s[0]
        toks = s.split()
        if kind == 'c':
            ref.feats.add('comment-line')
            continue
        if kind == 'p':
            if toks[0] != 'p':
                ref.gray('odd-line-type')
            if n is not None:
                return ref.invalid('second-p-line')
            if len(toks) != 4:
                return ref.invalid('bad-p-line')
            if toks[1] != 'edge':
                return ref.invalid('p-line-not-edge')
            a, b = int_token(toks[2]), int_token(toks[3])
            if a is None or b is None or a[0] < 0:
                return ref.invalid('bad-p-line')
            if not (a[1] and b[1]):
                ref.gray('int-spelling')
            n, m = a[0], b[0]
            ref.feats.add('size-line')
            continue
        if kind == 'e':
            if toks[0] != 'e':
                ref.gray('odd-line-type')
            if n is None:
                return ref.invalid('edge-before-p-line')
            if len(toks) != 3:
                return ref.invalid('bad-e-line')
            a, b = int_token(toks[1]), int_token(toks[2])
            if a is None or b is None:
                return ref.invalid('bad-vertex')
            if not (a[1] and b[1]):
                ref.gray('int-spelling')
            if not (1 <= a[0] <= n and 1 <= b[0] <= n):
                return ref.invalid('vertex-out-of-range')
            pairs.append((a[0], b[0]))
            ref.feats.add('edge-token')
            continue
        ref.gray('unknown-line-type')
    if n is None:
        return ref.invalid('no-p-line')
    if m != len(pairs):
        return ref.invalid('wrong-edge-count')
    if gtype == 'simple' and any(u == v for u, v in pairs):
        return ref.invalid('self-loop')
    if gtype == 'dag' and any(u >= v for u, v in pairs):
        return ref.invalid('dag-back-edge')
    g = make_desc(gtype, n=n, edges=pairs)
    if len(g['edges']) != len(pairs):
        ref.gray('repeated-edge')
    ref.graph = g
    return ref


def ref_matrix(text, gtype='bipartite'):
    ref = Ref()
    lines = _plain_lines(text, ref)
    if lines is None:
        return ref
    nums = []
    for l in lines:
        toks = l.split()
        if not toks:
            ref.feats.add('blank-line')
            continue
        if toks[0][0] == '#':
            ref.feats.add('comment-line')
            ref.gray('hash-comment-line')    # read by the tree, absent from the format description
            continue
        for tok in toks:
            t = int_token(tok)
            if t is None:
                return ref.invalid('non-numeric-entry')
            if not t[1]:
                ref.gray('int-spelling')
            nums.append(t[0])
    if len(nums) < 2:
        return ref.invalid('no-size')
    r, c = nums[0], nums[1]
    if r < 0 or c < 0:
        return ref.invalid('negative-size')
    ref.feats.add('size-line')
    body = nums[2:]
    if len(body) < r * c:
        return ref.invalid('too-few-entries')
    if len(body) > r * c:
        return ref.invalid('too-many-entries')
    if any(b not in (0, 1) for b in body):
        return ref.invalid('entry-not-0-1')
    edges = [(i + 1, j + 1) for i in range(r) for j in range(c) if body[i * c + j] == 1]
    if edges:
        ref.feats.add('edge-token')
    ref.graph = make_desc('bipartite', L=r, R=c, edges=edges)
    return ref


def ref_read(fmt, gtype, text):
    if fmt == 'kthlist':
        return ref_kthlist(text, gtype)
    if fmt == 'dimacs':
        return ref_dimacs(text, gtype)
    if fmt == 'matrix':
        return ref_matrix(text, gtype)
    raise KeyError(fmt)


# ---------------------------------------------------------------------------
# reference writers (inputs that the tree did not write itself)

def write_kthlist(gtype, d, style=0, name='graph written by the harness', extra=()):
    """extra: raw (head, neighbour) pairs in the numbering of the file, added as they are.
    style bits: 1 'h:' instead of 'h : ' ; 2 omit empty lists (never for a left vertex);
    4 simple graphs: each edge only in the list of its larger endpoint ; 8 no header comment ;
    16 no final newline ; 32 double spaces ; 64 simple: each edge only in the smaller endpoint's list"""
    out = []
    if not style & 8:
        out.append('c ' + name)
    order = desc_order(d)
    out.append(str(order))
    nb = {}
    if gtype == 'bipartite':
        for u, v in d['edges']:
            nb.setdefault(u, []).append(v + d['L'])
        heads = list(range(1, d['L'] + 1))
    else:
        for u, v in d['edges']:
            if gtype == 'simple':
                if style & 4:
                    nb.setdefault(v, []).append(u)
                elif style & 64:
                    nb.setdefault(u, []).append(v)
                else:
                    nb.setdefault(v, []).append(u)
                    nb.setdefault(u, []).append(v)
            else:
                nb.setdefault(v, []).append(u)
        heads = list(range(1, order + 1))
        if style & 2:
            heads = [h for h in heads if h in nb]
    for h, v in extra:
        nb.setdefault(h, []).append(v)
        if h not in heads:
            heads = sorted(heads + [h])
    sep = ':' if style & 1 else ' : '
    gap = '  ' if style & 32 else ' '
    for h in heads:
        out.append(str(h) + sep + gap.join([str(x) for x in sorted(nb.get(h, []))] + ['0']))
    text = '\n'.join(out)
    return text if style & 16 else text + '\n'


def write_dimacs(gtype, d, style=0, name='graph written by the harness', flip=(), extra=()):
    """style bits: 8 no header ; 16 no final newline ; 1 edges in reverse order.
    flip: indices of edges of a simple graph written as 'e max min'; extra: raw (u, v) pairs appended."""
    out = []
    if not style & 8:
        out.append('c ' + name)
    edges = [tuple(e) for e in d['edges']]
    if gtype == 'simple':
        edges = [(v, u) if i in flip else (u, v) for i, (u, v) in enumerate(edges)]
    edges.extend(tuple(e) for e in extra)
    if style & 1:
        edges.reverse()
    out.append('p edge {} {}'.format(d['n'], len(edges)))
    out.extend('e {} {}'.format(u, v) for u, v in edges)
    text = '\n'.join(out)
    return text if style & 16 else text + '\n'


def write_matrix(d, style=0):
    """style bits: 1 everything on one line ; 2 one entry per line ; 16 no final newline ; 32 double spaces"""
    L, R = d['L'], d['R']
    E = set(tuple(e) for e in d['edges'])
    rows = [[('1' if (i, j) in E else '0') for j in range(1, R + 1)] for i in range(1, L + 1)]
    gap = '  ' if style & 32 else ' '
    if style & 1:
        text = gap.join([str(L), str(R)] + [x for r in rows for x in r])
    elif style & 2:
        text = '\n'.join([str(L), str(R)] + [x for r in rows for x in r])
    else:
        text = '\n'.join([str(L) + gap + str(R)] + [gap.join(r) for r in rows])
    return text if style & 16 else text + '\n'


def write_inhouse(fmt, gtype, d, style=0, flip=(), extra=()):
    """extra: directed pairs (src, dst) in the numbering of the file, written as they are."""
    if fmt == 'kthlist':
        return write_kthlist(gtype, d, style, extra=[(dst, src) for src, dst in extra])
    if fmt == 'dimacs':
        return write_dimacs(gtype, d, style, flip=flip, extra=extra)
    return write_matrix(d, style)


# ----- GML / DOT documents ---------------------------------------------------
# doc = {'gtype', 'ids': [...], 'order': [...], 'edges': [[i, j], ...], 'side': [...] | None,
#        'style': int}
#   ids[k]   identifier written for node k (k = 0..n-1), all distinct
#   order    permutation of 0..n-1: the order of the node statements
#   edges    pairs of node indices (k), for a directed graph source -> target
#   side[k]  0/1 for bipartite graphs

def doc_expected(doc, by='sorted'):
    """The graph a document describes: vertices numbered by increasing identifier
    (by='sorted') or, for a bipartite graph, by order of appearance (by='appearance')."""
    gtype, ids, n = doc['gtype'], doc['ids'], len(doc['ids'])
    if by == 'sorted':
        seq = sorted(range(n), key=lambda k: ids[k])
    else:
        seq = list(doc['order'])
    if gtype == 'bipartite':
        left = [k for k in seq if doc['side'][k] == 0]
        right = [k for k in seq if doc['side'][k] == 1]
        li = {k: i + 1 for i, k in enumerate(left)}
        ri = {k: i + 1 for i, k in enumerate(right)}
        edges = []
        for a, b in doc['edges']:
            if doc['side'][a] == 1:
                a, b = b, a
            edges.append((li[a], ri[b]))
        return make_desc('bipartite', L=len(left), R=len(right), edges=edges)
    num = {k: i + 1 for i, k in enumerate(seq)}
    return make_desc(gtype, n=n, edges=[(num[a], num[b]) for a, b in doc['edges']])


def write_gml(doc):
    """style bits: 1 labels are quoted strings ('label "x"') else none ; 2 extra attributes ;
    4 comment lines ; 8 compact (one line per statement) ; 16 'directed 0' written for undirected ;
    32 edges before nodes is NOT used (GML readers need nodes first)"""
    st, gtype, ids = doc['style'], doc['gtype'], doc['ids']
    directed = gtype in ('digraph', 'dag')
    out = []
    if st & 4:
        out.append('# written by the harness')
    out.append('graph [')
    if directed:
        out.append('  directed 1')
    elif st & 16:
        out.append('  directed 0')
    if st & 2:
        out.append('  comment "two words"')
    for k in doc['order']:
        fields = ['id {}'.format(ids[k])]
        if st & 1:
            fields.append('label "node {}"'.format(ids[k]))
        if gtype == 'bipartite':
            fields.append('bipartite {}'.format(doc['side'][k]))
        if st & 2:
            fields.append('weight 3')
        if st & 8:
            out.append('  node [ ' + ' '.join(fields) + ' ]')
        else:
            out.append('  node [')
            out.extend('    ' + f for f in fields)
            out.append('  ]')
        if st & 4 and k % 3 == 0:
            out.append('  # a comment')
    for a, b in doc['edges']:
        fields = ['source {}'.format(ids[a]), 'target {}'.format(ids[b])]
        if st & 2:
            fields.append('value 1.5')
        if st & 8:
            out.append('  edge [ ' + ' '.join(fields) + ' ]')
        else:
            out.append('  edge [')
            out.extend('    ' + f for f in fields)
            out.append('  ]')
    out.append(']')
    return '\n'.join(out) + '\n'


def write_dot(doc):
    """style bits: 1 identifiers quoted ; 2 extra attributes ; 4 comments ; 8 everything on one line ;
    16 no semicolons ; 32 nodes that have an edge are not declared (never for bipartite)"""
    st, gtype, ids = doc['style'], doc['gtype'], doc['ids']
    directed = gtype in ('digraph', 'dag')
    arrow = ' -> ' if directed else ' -- '
    end = '' if st & 16 else ';'

    def ident(k):
        return '"{}"'.format(ids[k]) if st & 1 else str(ids[k])
    out = []
    if st & 4:
        out.append('/* written by the harness */' if st & 8 else '// written by the harness')
    out.append(('digraph' if directed else 'graph') + ' G {')
    touched = set(k for e in doc['edges'] for k in e)
    for k in doc['order']:
        attrs = []
        if gtype == 'bipartite':
            attrs.append('bipartite={}'.format(doc['side'][k]))
        if st & 2:
            attrs.append('color=red')
        if st & 32 and gtype != 'bipartite' and k in touched:
            continue
        out.append('  ' + ident(k) + (' [' + ', '.join(attrs) + ']' if attrs else '') + end)
        if st & 4 and k % 3 == 0:
            out.append('  /* a comment */')
    for a, b in doc['edges']:
        out.append('  ' + ident(a) + arrow + ident(b) + (' [weight=2]' if st & 2 else '') + end)
    out.append('}')
    return (' ' if st & 8 else '\n').join(out) + '\n'


def write_doc(fmt, doc):
    return write_gml(doc) if fmt == 'gml' else write_dot(doc)


# ---------------------------------------------------------------------------
# text mutators: (text, a, b) -> text, a and b are non negative integers

def _lines(text):
    return text.split('\n')


def _numspans(text):
    return [m.span() for m in re.finditer(r'[0-9]+', text)]


def m_truncate(text, a, b):
    return text[:a % (len(text) + 1)]


def m_blank(text, a, b):
    ls = _lines(text)
    ls.insert(a % (len(ls) + 1), '')
    return '\n'.join(ls)


def m_wsline(text, a, b):
    ls = _lines(text)
    ls.insert(a % (len(ls) + 1), [' ', '\t', '   '][b % 3])
    return '\n'.join(ls)


def m_comment_c(text, a, b):
    ls = _lines(text)
    ls.insert(a % (len(ls) + 1), ['c a comment', 'c', 'c 3', 'c 1 : 2 0', 'comment', 'c e 1 2'][b % 6])
    return '\n'.join(ls)


def m_comment_hash(text, a, b):
    ls = _lines(text)
    ls.insert(a % (len(ls) + 1), ['# a comment', '#', '#1 0 1'][b % 3])
    return '\n'.join(ls)


def m_delline(text, a, b):
    ls = _lines(text)
    del ls[a % len(ls)]
    return '\n'.join(ls)


def m_dupline(text, a, b):
    ls = _lines(text)
    i = a % len(ls)
    ls.insert(i, ls[i])
    return '\n'.join(ls)


def m_swaplines(text, a, b):
    ls = _lines(text)
    i, j = a % len(ls), b % len(ls)
    ls[i], ls[j] = ls[j], ls[i]
    return '\n'.join(ls)


def m_setnum(text, a, b):
    sp = _numspans(text)
    if not sp:
        return text
    s, e = sp[a % len(sp)]
    return text[:s] + str(b % 17) + text[e:]


def m_bumpnum(text, a, b):
    sp = _numspans(text)
    if not sp:
        return text
    s, e = sp[a % len(sp)]
    v = int(text[s:e]) + (1 if b % 2 else -1)
    return text[:s] + str(v) + text[e:]          # may produce '-1'


def m_delnum(text, a, b):
    sp = _numspans(text)
    if not sp:
        return text
    s, e = sp[a % len(sp)]
    return text[:s] + text[e:]


def m_insnum(text, a, b):
    sp = _numspans(text)
    if not sp:
        return text
    s, e = sp[a % len(sp)]
    return text[:e] + ' ' + str(b % 17) + text[e:]


def m_delchar(text, a, b):
    if not text:
        return text
    i = a % len(text)
    return text[:i] + text[i + 1:]


_INS = ['0', '1', ' ', ':', '\n', 'c', 'e', 'p', '#', '-', '+', '_', '\t', '\r\n', 'x', '00', '"', '[', ']',
        '{', '}', ';', '--', '->', 'id', '1 : 0', 'e 1 2', '\x0c', '٣', '.']


def m_inschar(text, a, b):
    i = a % (len(text) + 1)
    return text[:i] + _INS[b % len(_INS)] + text[i:]


def m_crlf(text, a, b):
    return text.replace('\n', '\r\n')


def m_spelling(text, a, b):
    sp = _numspans(text)
    if not sp:
        return text
    s, e = sp[a % len(sp)]
    tok = text[s:e]
    new = ['+' + tok, '0' + tok, tok[0] + '_' + tok[1:] if len(tok) > 1 else '00' + tok, '-' + tok][b % 4]
    return text[:s] + new + text[e:]


def m_indent(text, a, b):
    ls = _lines(text)
    i = a % len(ls)
    ls[i] = [' ' + ls[i], ls[i] + ' ', '\t' + ls[i], ls[i].replace(' ', '\t')][b % 4]
    return '\n'.join(ls)


def m_upper_comment(text, a, b):
    ls = _lines(text)
    ls.insert(a % (len(ls) + 1), 'C upper case comment')
    return '\n'.join(ls)


def m_unknown_line(text, a, b):
    ls = _lines(text)
    ls.insert(a % (len(ls) + 1), ['n 1 2', 'x', 'd 3', 'v 1'][b % 4])
    return '\n'.join(ls)


def m_split_list(text, a, b):
    """kthlist: break one adjacency list over two lines (continuation lines of the KTH description)."""
    ls = _lines(text)
    idx = [i for i, l in enumerate(ls) if ':' in l and not l.startswith('c') and len(l.split()) >= 3]
    if not idx:
        return text
    i = idx[a % len(idx)]
    head, tail = ls[i].split(':', 1)
    toks = tail.split()
    if not toks:
        return text
    k = 1 + b % len(toks)
    if k >= len(toks):
        k = len(toks) - 1
    ls[i:i + 1] = [head + ': ' + ' '.join(toks[:k]), ' '.join(toks[k:])]
    return '\n'.join(ls)


MUTATORS = {
    'truncate': m_truncate, 'blank': m_blank, 'wsline': m_wsline, 'comment-c': m_comment_c,
    'comment-hash': m_comment_hash, 'delline': m_delline, 'dupline': m_dupline, 'swaplines': m_swaplines,
    'setnum': m_setnum, 'bumpnum': m_bumpnum, 'delnum': m_delnum, 'insnum': m_insnum,
    'delchar': m_delchar, 'inschar': m_inschar, 'crlf': m_crlf, 'spelling': m_spelling,
    'indent': m_indent, 'upper-comment': m_upper_comment, 'unknown-line': m_unknown_line,
    'split-list': m_split_list,
}

MUTATORS_FOR = {
    'kthlist': ['truncate', 'blank', 'wsline', 'comment-c', 'delline', 'dupline', 'swaplines', 'setnum',
                'bumpnum', 'delnum', 'insnum', 'delchar', 'inschar', 'crlf', 'spelling', 'indent',
                'upper-comment', 'split-list'],
    'dimacs': ['truncate', 'blank', 'wsline', 'comment-c', 'delline', 'dupline', 'swaplines', 'setnum',
               'bumpnum', 'delnum', 'insnum', 'delchar', 'inschar', 'crlf', 'spelling', 'indent',
               'unknown-line'],
    'matrix': ['truncate', 'blank', 'wsline', 'comment-hash', 'delline', 'dupline', 'swaplines', 'setnum',
               'bumpnum', 'delnum', 'insnum', 'delchar', 'inschar', 'crlf', 'spelling', 'indent'],
    'gml': ['truncate', 'blank', 'delline', 'dupline', 'swaplines', 'setnum', 'bumpnum', 'delnum', 'insnum',
            'delchar', 'inschar', 'comment-hash'],
    'dot': ['truncate', 'blank', 'delline', 'dupline', 'swaplines', 'setnum', 'bumpnum', 'delnum', 'insnum',
            'delchar', 'inschar'],
}


def mutate(text, ops):
    """ops: list of [name, a, b]"""
    for name, a, b in ops:
        if text == '' and name not in ('blank', 'wsline', 'comment-c', 'comment-hash', 'inschar',
                                       'upper-comment', 'unknown-line'):
            continue
        text = MUTATORS[name](text, a, b)
    return text


# ---------------------------------------------------------------------------
# the oracle shared by the Hypothesis sub-check and by the atheris campaigns

class Mismatch(Exception):
    def __init__(self, message, signature):
        Exception.__init__(self, message)
        self.signature = signature


def read_with_tree(fmt, gtype, text, reader=None):
    """('graph', desc) | ('ValueError', message) | ('exception', 'TypeName: message').
    reader: optional callable(text) -> graph object that hands the text to the tree in another way
    (another kind of stream, another entry point); default readGraph(StringIO(text), gtype, fmt)."""
    import io
    from cnfgen.graphs import readGraph
    try:
        if reader is not None:
            H = reader(text)
        else:
            H = readGraph(io.StringIO(text), gtype, fmt)
    except ValueError as e:
        return 'ValueError', str(e)
    except (KeyboardInterrupt, SystemExit, MemoryError):
        raise
    except BaseException as e:     # noqa
        return 'exception', '{}: {}'.format(type(e).__name__, e)
    return 'graph', (H, describe(H, gtype))


def judge_inhouse(fmt, gtype, text, ref=None, reader=None, how=None):
    """Runs the reader of the tree on the text and compares with the reference reader.
    Returns (ref, kind) or raises Mismatch.  reader / how: see read_with_tree; how is named in the messages."""
    if ref is None:
        ref = ref_read(fmt, gtype, text)
    kind, val = read_with_tree(fmt, gtype, text, reader)
    where = '{} read as {}{}'.format(fmt, gtype, ' ({})'.format(how) if how else '')
    if kind == 'exception':
        raise Mismatch('{}: reader raised {} (only ValueError is allowed) on text {!r}'.format(
            where, val, text), 'exc:' + val.split(':')[0])
    if kind == 'ValueError':
        if ref.status == 'valid':
            raise Mismatch('{}: a valid text was rejected with ValueError({!r}); text {!r} describes {}'.format(
                where, val, text, ref.graph), 'valid-rejected')
        return ref, kind
    H, d = val
    if gtype == 'dag' and not (upward(d) and H.is_dag()):
        raise Mismatch('{}: accepted as acyclic a text with an edge that does not go upward: {} from {!r}'.format(
            where, d, text), 'dag-accepted')
    if ref.status == 'invalid':
        raise Mismatch('{}: invalid text ({}) accepted, got {} from {!r}'.format(
            where, ref.why[0], d, text), 'invalid-accepted:' + ref.why[0])
    if not ref.accepts(d):
        raise Mismatch('{}: text {!r} describes {} but the reader returned {}{}'.format(
            where, text, ref.graph, d, ' (gray: {})'.format(ref.why) if ref.why else ''), 'wrong-graph')
    if gtype in ('digraph', 'dag') and H.is_dag() != upward(d):
        raise Mismatch('{}: is_dag()={} for edges {}'.format(where, H.is_dag(), d['edges']), 'is_dag')
    return ref, kind


# ---------------------------------------------------------------------------
# atheris driver:  python -m vlib.rd_graphs FMT GTYPE FAILFILE [libfuzzer options / corpus dirs]

def _fuzz_main(argv):
    import json
    import sys
    import atheris
    fmt, gtype, failfile = argv[1], argv[2], argv[3]
    with atheris.instrument_imports(include=['cnfgen.graphs']):
        import cnfgen.graphs   # noqa
    seen = {}
    stats = {'execs': 0, 'graphs': 0, 'rejected': 0, 'skipped': 0, 'valid': 0, 'gray': 0, 'invalid': 0}

    def flush():
        with open(failfile + '.tmp', 'w') as f:
            json.dump({'failures': list(seen.values()), 'stats': stats}, f)
        import os
        os.replace(failfile + '.tmp', failfile)

    runs = 0
    for a in argv[4:]:
        if a.startswith('-runs='):
            runs = int(a[6:])

    def one_input(data):
        stats['execs'] += 1
        if stats['execs'] % 20000 == 0 or stats['execs'] == runs:
            flush()         # libFuzzer leaves through exit(): nothing runs after the last input
        try:
            text = data.decode('utf-8')
        except UnicodeDecodeError:
            text = data.decode('latin-1')
        if too_big(text):
            stats['skipped'] += 1
            return
        try:
            ref, kind = judge_inhouse(fmt, gtype, text)
        except Mismatch as e:
            old = seen.get(e.signature)
            if old is None or len(text) < len(old['text']):
                seen[e.signature] = {'signature': e.signature, 'text': text, 'message': str(e)}
                flush()
            return
        stats[ref.status] += 1
        stats['graphs' if kind == 'graph' else 'rejected'] += 1

    atheris.Setup([argv[0]] + argv[4:], one_input)
    import atexit
    atexit.register(flush)
    atheris.Fuzz()


if __name__ == '__main__':
    import sys
    _fuzz_main(sys.argv)
