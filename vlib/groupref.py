"""Reference model of variable groups for C11.

Everything here is written from the documentation of the ``new_*`` constructors with
``itertools`` and sorted edge lists; nothing is imported from
``cnfgen.formula.variables`` and no attribute of a group object is read.

A group is described by a JSON-able *spec*::

    {'kind': 'variable', 'label': 'X'}                       label None: no label passed
    {'kind': 'block', 'ranges': [2, 0, 3], 'label': 'b({},{},{})'}
    {'kind': 'combinations' | 'combinations_with_replacement' | 'permutations' | 'words',
     'n': 4, 'k': 2, 'label': 'p_{{{}}}'}                    permutations: k may be None (= n)
    {'kind': 'bipartite_edges', 'graph': {'L': 2, 'R': 3, 'edges': [[1, 3]]}, 'label': ...}
    {'kind': 'graph_edges', 'graph': {'n': 4, 'edges': [[1, 2]], 'as': 'cnfgen'|'networkx'}, ...}
    {'kind': 'digraph_edges', 'graph': {'n': 3, 'edges': [[2, 1]]}, 'sortby': 'pred'|'succ', ...}
    {'kind': 'mapping', 'n': 2, 'm': 3, ...}
    {'kind': 'sparse_mapping', 'graph': {'L': .., 'R': .., 'edges': ..}, ...}
    {'kind': 'binary_mapping', 'n': 3, 'm': 5, ...}

``Ref(spec)`` gives the legal indices in identifier order, the expected label of each
index (when the label format was chosen by the harness), the index patterns that must
be answered and the ones that must be refused with ValueError.
"""
import itertools

from vlib import graphs_gen as gg
from vlib.core import Violation

WORD_KINDS = ('combinations', 'combinations_with_replacement', 'permutations', 'words')
EDGE_KINDS = ('bipartite_edges', 'graph_edges', 'digraph_edges')
MAP_KINDS = ('mapping', 'sparse_mapping', 'binary_mapping')
KINDS = ('variable', 'block') + WORD_KINDS + EDGE_KINDS + MAP_KINDS


def bits_for(m):
    """smallest k with m <= 2**k (docstring of new_binary_mapping)"""
    k = 0
    while (1 << k) < m:
        k += 1
    return k


class Ref:
    def __init__(self, spec):
        self.spec = spec
        self.kind = kind = spec['kind']
        self.label = spec.get('label')
        self.invalid = False          # the constructor must refuse the arguments (ValueError)
        self.indices = []
        self.arity = None
        self.gray_empty_index = False   # words with k = 0: the only index is the empty tuple
        if kind == 'variable':
            self.indices = [()]
            self.arity = 0
        elif kind == 'block':
            rs = list(spec['ranges'])
            self.ranges = rs
            self.arity = len(rs)
            if len(rs) == 0 or any(r < 0 for r in rs):
                self.invalid = True
            else:
                self.indices = list(itertools.product(*[range(1, r + 1) for r in rs]))
        elif kind in WORD_KINDS:
            n, k = spec['n'], spec['k']
            if k is None:
                if kind != 'permutations':
                    raise ValueError("k=None only for permutations")
                k = n
            self.n, self.k = n, k
            self.arity = k
            if n < 0 or k < 0:
                self.invalid = True
            else:
                ground = range(1, n + 1)
                if kind == 'combinations':
                    it = itertools.combinations(ground, k)
                elif kind == 'combinations_with_replacement':
                    it = itertools.combinations_with_replacement(ground, k)
                elif kind == 'permutations':
                    it = itertools.permutations(ground, k)
                else:
                    it = itertools.product(ground, repeat=k)
                self.indices = [tuple(t) for t in it]
                self.gray_empty_index = (k == 0)
        elif kind in ('bipartite_edges', 'sparse_mapping'):
            g = spec['graph']
            self.L, self.R = g['L'], g['R']
            self.arity = 2
            self.indices = sorted(set((u, v) for u, v in g['edges']))
        elif kind == 'graph_edges':
            g = spec['graph']
            self.n = g['n']
            self.arity = 2
            self.indices = sorted(set((min(u, v), max(u, v)) for u, v in g['edges']))
        elif kind == 'digraph_edges':
            g = spec['graph']
            self.n = g['n']
            self.arity = 2
            self.sortby = spec.get('sortby', 'pred')
            E = set((u, v) for u, v in g['edges'])
            if self.sortby == 'pred':
                self.indices = sorted(E)
            elif self.sortby == 'succ':
                self.indices = sorted(E, key=lambda e: (e[1], e[0]))
            else:
                self.invalid = True
        elif kind == 'mapping':
            n, m = spec['n'], spec['m']
            self.L, self.R = n, m
            self.arity = 2
            if n < 0 or m < 0:
                self.invalid = True
            else:
                self.indices = [(i, j) for i in range(1, n + 1) for j in range(1, m + 1)]
        elif kind == 'binary_mapping':
            n, m = spec['n'], spec['m']
            self.n, self.m = n, m
            self.arity = 2
            if n < 0 or m < 0:
                self.invalid = True
            else:
                self.bits = bits_for(m)
                self.indices = [(i, b) for i in range(1, n + 1) for b in range(self.bits - 1, -1, -1)]
        else:
            raise ValueError("unknown group kind {!r}".format(kind))
        self.index_set = set(self.indices)
        if len(self.index_set) != len(self.indices):
            raise ValueError("reference enumeration with repeated indices")
        self.N = 0 if self.invalid else len(self.indices)

    # ------------------------------------------------------------------
    def describe(self):
        s = self.spec
        k = self.kind
        if k == 'variable':
            return "new_variable({})".format('' if self.label is None else repr(self.label))
        if k == 'block':
            a = ','.join(map(str, s['ranges']))
        elif k in WORD_KINDS:
            a = "{},{}".format(s['n'], s['k'])
        elif k in ('mapping', 'binary_mapping'):
            a = "{},{}".format(s['n'], s['m'])
        else:
            g = s['graph']
            size = "{}x{}".format(g['L'], g['R']) if 'L' in g else str(g['n'])
            a = "<{} graph on {} with edges {}>".format(g.get('as', 'cnfgen'), size, g['edges'])
            if k == 'digraph_edges':
                a += ",sortby={!r}".format(s.get('sortby', 'pred'))
        if self.label is not None:
            a += ",label={!r}".format(self.label)
        return "new_{}({})".format(k, a)

    def create(self, F):
        """Calls the constructor on F; returns what it returns."""
        s = self.spec
        k = self.kind
        kw = {} if self.label is None else {'label': self.label}
        if k == 'variable':
            return F.new_variable(**kw)
        if k == 'block':
            return F.new_block(*s['ranges'], **kw)
        if k in WORD_KINDS:
            m = getattr(F, 'new_' + k)
            if s['k'] is None:
                return m(s['n'], **kw)
            return m(s['n'], s['k'], **kw)
        if k == 'bipartite_edges':
            return F.new_bipartite_edges(gg.build_bipartite(dict(s['graph'], **{'as': 'cnfgen'})), **kw)
        if k == 'sparse_mapping':
            return F.new_sparse_mapping(gg.build_bipartite(dict(s['graph'], **{'as': 'cnfgen'})), **kw)
        if k == 'graph_edges':
            return F.new_graph_edges(gg.build_simple(s['graph']), **kw)
        if k == 'digraph_edges':
            D = gg.build_digraph(dict(s['graph'], **{'as': 'cnfgen'}))
            if 'sortby' in s:
                kw['sortby'] = s['sortby']
            return F.new_digraph_edges(D, **kw)
        if k == 'mapping':
            return F.new_mapping(s['n'], s['m'], **kw)
        if k == 'binary_mapping':
            return F.new_binary_mapping(s['n'], s['m'], **kw)
        raise ValueError(k)

    def label_of(self, idx):
        """Expected name of the variable with this index; None when the default label is in use."""
        if self.label is None:
            return None
        if self.kind == 'variable':
            return self.label
        if self.kind in WORD_KINDS:
            return self.label.format(",".join(str(x) for x in idx))
        return self.label.format(*idx)

    # ------------------------------------------------------------------
    # patterns

    def matches(self, pattern):
        """Reference answer to a legal pattern: the matching indices in identifier order."""
        if len(pattern) == 0:
            return list(self.indices)
        if self.kind == 'graph_edges':
            a, b = pattern
            if a is None and b is None:
                return list(self.indices)
            if a is not None and b is not None:
                e = (min(a, b), max(a, b))
                return [e] if e in self.index_set else []
            w = a if a is not None else b
            return [e for e in self.indices if w in e]
        return [i for i in self.indices
                if all(p is None or p == x for p, x in zip(pattern, i))]

    def _domains(self):
        """Per position: the values a one-sided pattern may fix."""
        k = self.kind
        if k == 'block':
            return [range(1, r + 1) for r in self.ranges]
        if k in ('bipartite_edges', 'sparse_mapping', 'mapping'):
            return [range(1, self.L + 1), range(1, self.R + 1)]
        if k in ('graph_edges', 'digraph_edges'):
            return [range(1, self.n + 1), range(1, self.n + 1)]
        if k == 'binary_mapping':
            return [range(1, self.n + 1), range(0, self.bits)]
        raise ValueError(k)

    def wildcard_patterns(self):
        """Every legal pattern with at least one None (plus the empty pattern)."""
        if self.kind == 'variable':
            return []
        if self.kind in WORD_KINDS:
            return [()]            # None entries are not offered by these groups (gray)
        doms = self._domains()
        out = [()]
        for choice in itertools.product(*[[None] + list(d) for d in doms]):
            if None in choice:
                out.append(tuple(choice))
        return out

    def alias_indices(self):
        """Fully specified indices that are legal but not in canonical form: (alias, canonical)."""
        if self.kind == 'graph_edges':
            return [((v, u), (u, v)) for (u, v) in self.indices]
        return []

    def gray_patterns(self):
        """Patterns for which both a ValueError and the reference answer are accepted."""
        if self.kind in WORD_KINDS and self.k >= 1:
            out = [tuple([None] * self.k)]
            if self.indices and self.k >= 2:
                first = self.indices[0]
                out.append(tuple([first[0]] + [None] * (self.k - 1)))
            return out
        return []

    def bad_patterns(self):
        """Index patterns outside the domain: each must raise ValueError."""
        k = self.kind
        out = []
        if k == 'variable':
            return out
        if k in WORD_KINDS:
            kk, n = self.k, self.n
            for t in itertools.product(range(0, n + 2), repeat=kk):
                if t not in self.index_set:
                    out.append(t)
            for length in (kk - 1, kk + 1, kk + 2):
                if length >= 1:
                    out.append(tuple([1] * length))
                    out.append(tuple(range(1, length + 1)))
            return [t for t in out if len(t) > 0]
        doms = self._domains()
        a = len(doms)
        # wrong arity
        for length in range(1, a + 3):
            if length != a:
                out.append(tuple([1] * length))
                out.append(tuple([None] * length))
        # one position outside its range, the others free / at a legal value
        for p, d in enumerate(doms):
            lo = (d[0] if len(d) else (0 if k == 'binary_mapping' and p == 1 else 1))
            hi = (d[-1] if len(d) else lo - 1)
            for badv in (lo - 1, hi + 1, lo - 2, hi + 3):
                pat = [None] * a
                pat[p] = badv
                out.append(tuple(pat))
                if all(len(dd) for q, dd in enumerate(doms) if q != p):
                    pat2 = [dd[0] if len(dd) else None for dd in doms]
                    pat2[p] = badv
                    out.append(tuple(pat2))
        # fully specified pairs that are not indices (non-edges, loops of simple graphs, ...)
        if a == 2:
            d0, d1 = doms
            lo0 = (d0[0] if len(d0) else 1) - 1
            hi0 = (d0[-1] if len(d0) else 0) + 1
            lo1 = (d1[0] if len(d1) else (0 if k == 'binary_mapping' else 1)) - 1
            hi1 = (d1[-1] if len(d1) else lo1) + 1
            for u in range(lo0, hi0 + 1):
                for v in range(lo1, hi1 + 1):
                    if k == 'graph_edges':
                        if (min(u, v), max(u, v)) in self.index_set:
                            continue
                    elif (u, v) in self.index_set:
                        continue
                    out.append((u, v))
        seen = set()
        uniq = []
        for p in out:
            if p not in seen:
                seen.add(p)
                uniq.append(p)
        return uniq


# ---------------------------------------------------------------------------
# observation helpers (they only call public methods of the group)

def consume(x):
    """What a call returned, with lazy iterables forced."""
    if x is None or isinstance(x, (int, str)):
        return x
    return list(x)


def _tuples(seq):
    return [tuple(t) for t in seq]


def must_refuse(what, thunk):
    """thunk() must raise ValueError (lazily produced results are forced)."""
    try:
        got = consume(thunk())
    except ValueError:
        return
    raise Violation("{} is outside the index domain but was answered with {!r} instead of ValueError".format(
        what, got))


def check_group(F, g, ref, first, where, deep=True):
    """The bijection of one group against its reference.  Returns the set of labels seen."""
    seen = set()
    N = ref.N
    ids = list(range(first, first + N))
    head = "{} ({}, identifiers {}..{})".format(ref.describe(), where, first, first + N - 1)
    if ref.kind == 'variable':
        if g != first or isinstance(g, bool) or not isinstance(g, int):
            raise Violation("{}: returned {!r}, the next free identifier is {}".format(head, g, first))
        return seen
    if len(g) != N:
        raise Violation("{}: len() is {}, the reference has {} indices".format(head, len(g), N))
    if list(g) != ids:
        raise Violation("{}: iterating the group gives {}, expected the contiguous range {}".format(
            head, list(g)[:12], ids[:12]))
    got_idx = _tuples(g.indices())
    if got_idx != ref.indices:
        raise Violation("{}: indices() = {} but the legal indices in order are {}".format(
            head, got_idx[:16], ref.indices[:16]))
    for idx, v in zip(ref.indices, ids):
        got = g(*idx)
        if ref.gray_empty_index and not isinstance(got, int):
            got = list(got)
            got = got[0] if len(got) == 1 else got
        if got != v or isinstance(got, bool):
            raise Violation("{}: index {} -> identifier {!r}, expected {} (position in the enumeration)".format(
                head, idx, got, v))
        for lit in (v, -v):
            back = tuple(g.to_index(lit))
            if back != idx:
                raise Violation("{}: to_index({}) = {} but {} is the identifier of index {}".format(
                    head, lit, back, v, idx))
            if lit not in g:
                raise Violation("{}: `{} in group` is False for an identifier of the group".format(head, lit))
        one = _tuples(g.indices(*idx)) if not ref.gray_empty_index else [idx]
        if one != [idx]:
            raise Violation("{}: indices{} = {} instead of the index itself".format(head, idx, one))
        want = ref.label_of(idx)
        if want is not None:
            lab = g.label(*idx)
            if ref.gray_empty_index and not isinstance(lab, str):
                lab = list(lab)
                lab = lab[0] if len(lab) == 1 else lab
            if lab != want:
                raise Violation("{}: label{} = {!r}, the label format gives {!r}".format(head, idx, lab, want))
    for lit in (first - 1, first + N):
        for s in (lit, -lit):
            if s != 0 and s in g:
                raise Violation("{}: `{} in group` is True for an identifier outside the group".format(head, s))
    # identifiers outside the group must be refused by to_index
    outside = [0, first - 1, first + N, first + N + 1, 1, F.number_of_variables(), F.number_of_variables() + 1]
    for v in outside:
        if first <= v < first + N or v < 0:
            continue
        for lit in ((v, -v) if v else (0,)):
            must_refuse("{}: to_index({})".format(head, lit), lambda: g.to_index(lit))
    if not deep:
        return seen
    # to_dict
    D = g.to_dict()
    wantD = dict(zip(ref.indices, ids))
    if {tuple(k): v for k, v in D.items()} != wantD:
        raise Violation("{}: to_dict() = {} instead of {}".format(head, D, wantD))
    # whole-group views
    pos = dict(zip(ref.indices, ids))
    for pat in ref.wildcard_patterns():
        want_idx = ref.matches(pat)
        want_ids = [pos[i] for i in want_idx]
        if ref.gray_empty_index and pat == ():
            continue
        got_ids = consume(g(*pat))
        if isinstance(got_ids, int) or got_ids != want_ids:
            raise Violation("{}: pattern {} selects identifiers {!r}; the matching indices in order are {} = {}".format(
                head, pat, got_ids, want_idx[:12], want_ids[:12]))
        got_i = _tuples(g.indices(*pat))
        if got_i != want_idx:
            raise Violation("{}: indices{} = {}; the matching indices in order are {}".format(
                head, pat, got_i[:12], want_idx[:12]))
        if ref.label is not None:
            got_l = consume(g.label(*pat))
            want_l = [ref.label_of(i) for i in want_idx]
            if got_l != want_l:
                raise Violation("{}: label{} = {!r}; expected {}".format(head, pat, got_l, want_l[:12]))
        if None in pat:
            seen.add('wildcard')
            if want_idx and len(want_idx) < N:
                seen.add('wildcard-proper-subset')
            if not want_idx:
                seen.add('wildcard-no-match')
    for alias, canon in ref.alias_indices():
        if g(*alias) != pos[canon]:
            raise Violation("{}: index {} -> {!r}, expected the identifier {} of {}".format(
                head, alias, g(*alias), pos[canon], canon))
        if _tuples(g.indices(*alias)) != [canon]:
            raise Violation("{}: indices{} = {} instead of [{}]".format(head, alias, _tuples(g.indices(*alias)), canon))
        if ref.label is not None and g.label(*alias) != ref.label_of(canon):
            raise Violation("{}: label{} = {!r} instead of {!r}".format(
                head, alias, g.label(*alias), ref.label_of(canon)))
        seen.add('reversed-edge')
    for pat in ref.gray_patterns():
        want_ids = [pos[i] for i in ref.matches(pat)]
        try:
            got_ids = consume(g(*pat))
        except ValueError:
            seen.add('gray-wildcard-refused')
            continue
        if got_ids != want_ids:
            raise Violation("{}: pattern {} was answered with {!r}; the matching identifiers are {}".format(
                head, pat, got_ids, want_ids))
    for pat in ref.bad_patterns():
        must_refuse("{}: index {} through the call".format(head, pat), lambda: g(*pat))
        must_refuse("{}: indices{}".format(head, pat), lambda: g.indices(*pat))
        must_refuse("{}: label{}".format(head, pat), lambda: g.label(*pat))
        seen.add('refused-index')
    return seen


# ---------------------------------------------------------------------------
# names

class Model:
    """Variable count + the groups created so far (in creation order)."""

    def __init__(self):
        self.nv = 0
        self.groups = []       # dicts: first, ref, g

    def add_group(self, ref, g):
        rec = {'first': self.nv + 1, 'ref': ref, 'g': g}
        self.groups.append(rec)
        self.nv += ref.N
        return rec

    def owner(self):
        """identifier -> (record, index) for identifiers inside a group."""
        own = {}
        for rec in self.groups:
            for off, idx in enumerate(rec['ref'].indices):
                own[rec['first'] + off] = (rec, idx)
        return own

    def anonymous(self):
        own = self.owner()
        return [v for v in range(1, self.nv + 1) if v not in own]


def expected_names(F, model, default_fmt, names, where):
    """Checks all_variable_labels() against the model; returns the list of expected names
    (the reported name where the harness cannot know it: default labels, unlabelled variable)."""
    nv = F.number_of_variables()
    if nv != model.nv:
        raise Violation("{}: number_of_variables() = {}, expected {}".format(where, nv, model.nv))
    if len(names) != nv:
        raise Violation("{}: all_variable_labels() yields {} names for {} variables: {}".format(
            where, len(names), nv, names[:30]))
    own = model.owner()
    exp = []
    for v in range(1, nv + 1):
        got = names[v - 1]
        if not isinstance(got, str):
            raise Violation("{}: the name of variable {} is {!r}, not a string; names = {}".format(
                where, v, got, names[:30]), signature='variable-name-not-a-string')
        if v in own:
            rec, idx = own[v]
            ref = rec['ref']
            want = ref.label_of(idx)
            if ref.kind == 'variable':
                pass
            else:
                own_label = rec['g'].label(*idx)
                if not isinstance(own_label, str):      # words with k = 0
                    own_label = list(own_label)
                    own_label = own_label[0] if len(own_label) == 1 else own_label
                if want is None:
                    want = own_label
                elif own_label != want:
                    raise Violation("{}: {} label{} = {!r}, the label format gives {!r}".format(
                        where, ref.describe(), idx, own_label, want))
            if want is None:
                # a single variable created without a label has no name of its own: like every variable outside the
                # named groups it gets "a standard variable name as defined by default_label_format" (all_variable_labels)
                want = default_fmt.format(v)
            what = "the label of index {} of {}".format(idx, ref.describe())
        else:
            want = default_fmt.format(v)
            what = "the default name (the variable belongs to no group)"
        if got != want:
            raise Violation("{}: variable {} is reported as {!r}, expected {!r}, {}; all names: {}".format(
                where, v, got, want, what, names[:40]))
        exp.append(want)
    return exp
