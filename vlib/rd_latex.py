"""White-space- and brace-insensitive reader for the LaTeX rendering of a formula.

It reads what a person sees in the typeset output, not how cnfgen spells it:

* the formula lives in one or more ``align`` environments; rows are separated by ``\\\\``;
* a CNF row is a disjunction: literals separated by ``\\lor`` (or ``\\vee``), optionally
  wrapped in ``\\left( ... \\right)`` and preceded by ``&`` and ``\\land``;
* a pseudo-Boolean row is ``term + term + ... REL degree`` with REL one of ``\\geq``,
  ``\\ge``, ``=``; a term is an optional positive integer followed by a literal; an
  empty sum is written ``0``;
* a literal is *negative* when it carries ``\\overline`` / ``\\bar`` (anywhere in the
  literal: over the whole name or only over its base) or is prefixed by ``\\neg`` /
  ``\\lnot``; both conventions are documented in cnfgen/utils/latexoutput.py;
* the *name* of a literal is its text without the negation mark, with every brace and
  every white space removed (so ``{\\overline{x}_1}``, ``\\overline{x_1}``, ``\\neg x_{1}``
  all read as negative ``x_1``);
* ``\\top`` stands for the empty formula, ``\\square`` (``\\Box``, ``\\bot``, ``\\perp``)
  for the empty clause.

Structure is recognised only at brace depth 0 of a row, hence variable names may
contain ``=``, ``+``, ``,``, parentheses and brackets as long as cnfgen writes them
inside braces (it always does).  Names must be brace-balanced and must not contain
``\\\\``, ``&``, ``%`` or the command names used above.

``lstlisting`` environments (the verbatim formula header and the command-line
documentation of a full document) and ``%`` comments are removed first.
Nothing raises on bad input: problems are collected in ``LatexDoc.errors``.
"""
import re

_LST = re.compile(r'\\begin\{lstlisting\}.*?\\end\{lstlisting\}', re.S)
_VERB = re.compile(r'\\verb\|[^|\n]*\|')
_COMMENT = re.compile(r'(?<!\\)%[^\n]*')
_ALIGN = re.compile(r'\\begin\{align(\*?)\}(.*?)\\end\{align\1\}', re.S)
_NEG_WRAP = re.compile(r'\\(overline|bar)(?![A-Za-z])')
_NEG_PREFIX = re.compile(r'^\\(neg|lnot)(?![A-Za-z])')
_EMPTY_CLAUSE = {'\\square', '\\Box', '\\bot', '\\perp'}
_RELS = [('\\geq', '>='), ('\\ge', '>='), ('=', '==')]


def norm_name(name):
    """A variable name as it is compared: braces and white space dropped."""
    return re.sub(r'[\s{}]', '', name)


class Row:
    __slots__ = ('kind', 'lits', 'terms', 'rel', 'degree', 'text')

    def __init__(self, kind, text, lits=None, terms=None, rel=None, degree=None):
        self.kind = kind        # 'clause' | 'constraint' | 'top'
        self.text = text
        self.lits = lits        # clause: [(name, negative)]
        self.terms = terms      # constraint: [(coeff, name, negative)]
        self.rel = rel          # '>=' | '=='
        self.degree = degree


class LatexDoc:
    def __init__(self):
        self.blocks = []           # list of lists of Row, one per align environment
        self.between = []          # text between consecutive align environments
        self.before = ''
        self.after = ''
        self.documentclass = 0
        self.begin_document = 0
        self.end_document = 0
        self.errors = []


def _split_depth0(s, seps):
    """Split s at the separators (strings) occurring at brace depth 0.
    Returns (pieces, seps_found).  Longest separator wins."""
    seps = sorted(seps, key=len, reverse=True)
    firsts = set(sep[0] for sep in seps)
    pieces, found = [], []
    depth, start, i, n = 0, 0, 0, len(s)
    while i < n:
        ch = s[i]
        if ch == '{':
            depth += 1
        elif ch == '}':
            depth -= 1
        elif depth == 0 and ch in firsts:
            hit = None
            for sep in seps:
                if s.startswith(sep, i):
                    # a command name must end here (\ge must not match \geq handled by order,
                    # \lor must not match \lorx)
                    if sep[0] == '\\' and sep[-1].isalpha() and i + len(sep) < n and s[i + len(sep)].isalpha():
                        continue
                    hit = sep
                    break
            if hit is not None:
                pieces.append(s[start:i])
                found.append(hit)
                i += len(hit)
                start = i
                continue
        i += 1
    pieces.append(s[start:])
    return pieces, found, depth


def _drop_depth0(s, tokens):
    pieces, _found, _d = _split_depth0(s, tokens)
    return ' '.join(pieces)


def parse_literal(tok):
    """tok -> (normalised name, negative) or raises ValueError."""
    t = tok.strip()
    if not t:
        raise ValueError("empty literal")
    neg = False
    m = _NEG_PREFIX.match(t)
    if m:
        neg = True
        t = t[m.end():]
    t2, k = _NEG_WRAP.subn('', t)
    if k > 1:
        raise ValueError("more than one negation bar in literal {!r}".format(tok))
    if k == 1:
        # the bar must be over something: read its brace-delimited argument
        m = _NEG_WRAP.search(t)
        rest = t[m.end():].lstrip()
        if rest.startswith('{'):
            depth, j = 0, 0
            for j, ch in enumerate(rest):
                if ch == '{':
                    depth += 1
                elif ch == '}':
                    depth -= 1
                    if depth == 0:
                        break
            covered = rest[1:j]
        else:
            covered = rest[:1]
        if norm_name(covered) == '':
            raise ValueError("the negation bar of literal {!r} covers nothing".format(tok))
        if neg:
            raise ValueError("literal {!r} is negated twice".format(tok))
        neg = True
    if t2.count('{') != t2.count('}'):
        raise ValueError("unbalanced braces in literal {!r}".format(tok))
    name = norm_name(t2)
    if not name:
        raise ValueError("literal {!r} has no name".format(tok))
    if '\\' in name:
        raise ValueError("unexpected command in literal {!r}".format(tok))
    return name, neg


def parse_row(text):
    """One row of an align environment -> Row, or raises ValueError."""
    s = _drop_depth0(text, ['&']).strip()
    if s.startswith('\\land') and not s[5:6].isalpha():
        s = s[5:].strip()
    elif s.startswith('\\wedge') and not s[6:7].isalpha():
        s = s[6:].strip()
    if s == '\\top':
        return Row('top', text)
    # relation at depth 0 -> pseudo-Boolean row
    pieces, found, depth = _split_depth0(s, [r for r, _ in _RELS])
    if depth != 0:
        raise ValueError("unbalanced braces in row {!r}".format(text))
    if found:
        if len(found) != 1:
            raise ValueError("{} relation symbols in row {!r}".format(len(found), text))
        rel = dict(_RELS)[found[0]]
        lhs, rhs = pieces[0].strip(), pieces[1].strip()
        if not re.match(r'^-?\d+$', rhs):
            raise ValueError("the bound {!r} is not an integer in row {!r}".format(rhs, text))
        tpieces, _f, _d = _split_depth0(lhs, ['+'])
        terms = []
        if len(tpieces) == 1 and re.match(r'^0?$', tpieces[0].strip()):
            pass                                   # empty sum
        else:
            for tp in tpieces:
                tp = tp.strip()
                m = re.match(r'^(\d+)?\s*(\\cdot(?![A-Za-z]))?\s*(.*)$', tp, re.S)
                coeff = int(m.group(1)) if m.group(1) else 1
                body = m.group(3)
                if not body or body[0] not in '{\\':
                    raise ValueError("term {!r} is not <coefficient><literal> in row {!r}".format(tp, text))
                name, neg = parse_literal(body)
                terms.append((coeff, name, neg))
        return Row('constraint', text, terms=terms, rel=rel, degree=int(rhs))
    # clause
    s = _drop_depth0(s, ['\\left(', '\\right)']).strip()
    if s in _EMPTY_CLAUSE:
        return Row('clause', text, lits=[])
    if s == '':
        raise ValueError("row without any content")
    lpieces, _f, _d = _split_depth0(s, ['\\lor', '\\vee'])
    lits = [parse_literal(p) for p in lpieces]
    return Row('clause', text, lits=lits)


def read_latex(text):
    doc = LatexDoc()
    t = _LST.sub(' ', text)
    t = _VERB.sub(' ', t)
    t = _COMMENT.sub('', t)
    doc.documentclass = len(re.findall(r'\\documentclass(?![A-Za-z])', t))
    doc.begin_document = t.count('\\begin{document}')
    doc.end_document = t.count('\\end{document}')
    pos = 0
    first = True
    for m in _ALIGN.finditer(t):
        gap = t[pos:m.start()]
        if first:
            doc.before = gap
            first = False
        else:
            doc.between.append(gap)
        pos = m.end()
        body = m.group(2)
        rows = []
        rpieces, _f, depth = _split_depth0(body, ['\\\\'])
        if depth != 0:
            doc.errors.append("unbalanced braces in an align environment")
        for i, rp in enumerate(rpieces):
            if rp.strip() == '':
                doc.errors.append("empty row {} in an align environment".format(i + 1))
                continue
            try:
                rows.append(parse_row(rp))
            except ValueError as e:
                doc.errors.append(str(e))
        doc.blocks.append(rows)
    doc.after = t[pos:]
    if '\\begin{align' in doc.after or '\\end{align' in doc.before:
        doc.errors.append("align environments are not properly nested")
    return doc
