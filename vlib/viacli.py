"""Re-run a property's library-level cases *through the command line tools*.

Inside ``with through_cli() as stats:`` the family constructors of the ``cnfgen`` package are replaced by
wrappers that express the very same call as a ``cnfgen`` (CNF class) or ``pbgen`` (OPB class) command
line, with graph arguments written to files by the harness's own writers (vlib/catalog.py), and build the
formula in-process with ``cli(argv, mode='formula')``.  The sub-check's oracle then judges that formula
exactly as it judges the library's.  A call the command line cannot express (an option without a switch,
an argument the parser's type refuses, charges other than first/zero/one) falls back to the library and is
counted, so the evidence says how much really went through the tools."""
import contextlib
import inspect

from vlib import catalog, cli

_FALLBACK = object()


def _graph_desc(G):
    """(n, edges) of a simple graph object given by the check (cnfgen or networkx with labels 1..n)"""
    import networkx
    if isinstance(G, networkx.Graph):
        nodes = sorted(G.nodes())
        if nodes != list(range(1, len(nodes) + 1)):
            return None
        return len(nodes), sorted(tuple(sorted(e)) for e in G.edges())
    return G.number_of_vertices(), sorted(tuple(e) for e in G.edges())


def _simple(ctx, G):
    d = _graph_desc(G)
    if d is None:
        return None
    p = ctx.path("kthlist")
    catalog.write_kthlist(p, d[0], d[1])
    return ['kthlist', p]


def _dag(ctx, D):
    import networkx
    if isinstance(D, networkx.Graph):
        nodes = sorted(D.nodes())
        if nodes != list(range(1, len(nodes) + 1)):
            return None
        n, edges = len(nodes), sorted(tuple(e) for e in D.edges())
    else:
        n, edges = D.number_of_vertices(), sorted(tuple(e) for e in D.edges())
    if any(u >= v for u, v in edges):
        return None
    p = ctx.path("kthlist")
    catalog.write_digraph_kthlist(p, n, edges)
    return ['kthlist', p]


def _bip(ctx, B):
    import networkx
    if isinstance(B, networkx.Graph):
        return None
    L, R = B.left_order(), B.right_order()
    p = ctx.path("matrix")
    catalog.write_matrix(p, L, R, [tuple(e) for e in B.edges()])
    return ['matrix', p]


def _charges(a):
    G, ch = a['G'], a['charges']
    d = _graph_desc(G)
    if d is None:
        return None
    n = d[0]
    if ch is None:
        return 'first'
    ch = ([bool(c) for c in ch] + [False] * n)[:n]
    if n >= 1 and ch == [True] + [False] * (n - 1):
        return 'first'
    if not any(ch):
        return 'zero' if n else None
    if all(ch):
        return 'one'
    return None


def _need(*toks):
    return None if any(t is None for t in toks) else [x for t in toks for x in (t if isinstance(t, list) else [t])]


# name -> (argv builder taking (ctx, bound arguments), switches {parameter: switch when True}, parameters that only the default can express)
SPECS = {
    'PigeonholePrinciple': (lambda c, a: ['php', a['pigeons'], a['holes']], {'functional': '--functional', 'onto': '--onto'}, ()),
    'GraphPigeonholePrinciple': (lambda c, a: _need('php', _bip(c, a['G'])), {'functional': '--functional', 'onto': '--onto'}, ()),
    'BinaryPigeonholePrinciple': (lambda c, a: ['bphp', a['pigeons'], a['holes']], {}, ()),
    'RelativizedPigeonholePrinciple': (lambda c, a: ['rphp', a['pigeons'], a['resting_places'], a['holes']], {}, ()),
    'CountingPrinciple': (lambda c, a: ['count', a['M'], a['p']], {}, ()),
    'PerfectMatchingPrinciple': (lambda c, a: _need('matching', _simple(c, a['G'])), {}, ()),
    'SubsetCardinalityFormula': (lambda c, a: _need('subsetcard', _bip(c, a['B'])), {'equalities': '--equal'}, ()),
    'CliqueColoring': (lambda c, a: ['cliquecoloring', a['n'], a['k'], a['c']], {}, ()),
    'TseitinFormula': (lambda c, a: _need('tseitin', _charges(a), _simple(c, a['G'])), {}, ()),
    'GraphColoringFormula': (lambda c, a: _need('kcolor', a['colors'], _simple(c, a['G'])), {}, ('functional',)),
    'EvenColoringFormula': (lambda c, a: _need('ec', _simple(c, a['G'])), {}, ()),
    'DominatingSet': (lambda c, a: _need('domset', a['d'], _simple(c, a['G'])), {'alternative': '--alternative'}, ()),
    'Tiling': (lambda c, a: _need('tiling', _simple(c, a['G'])), {}, ()),
    'GraphIsomorphism': (lambda c, a: _need('iso', _simple(c, a['G1']), '-e', _simple(c, a['G2'])), {}, ('nontrivial',)),
    'GraphAutomorphism': (lambda c, a: _need('iso', _simple(c, a['G'])), {}, ()),
    'CliqueFormula': (lambda c, a: _need('kclique', a['k'], _simple(c, a['G'])), {'symbreak': ('', '--no-symmetry-breaking')}, ()),
    'BinaryCliqueFormula': (lambda c, a: _need('kcliquebin', a['k'], _simple(c, a['G'])), {}, ('symbreak',)),
    'RamseyWitnessFormula': (lambda c, a: _need('ramlb', a['k'], a['s'], _simple(c, a['G'])), {}, ('symbreak',)),
    'SubgraphFormula': (lambda c, a: _need('subgraph', '-G', _simple(c, a['G']), '-H', _simple(c, a['H'])), {}, ('induced', 'symbreak')),
    'OrderingPrinciple': (lambda c, a: ['op', a['size']], {'total': '--total', 'smart': '--smart', 'plant': '--plant', 'knuth': {0: '', 2: '--knuth2', 3: '--knuth3'}}, ()),
    'GraphOrderingPrinciple': (lambda c, a: _need('op', _simple(c, a['graph'])),
                               {'total': '--total', 'smart': '--smart', 'plant': '--plant', 'knuth': {0: '', 2: '--knuth2', 3: '--knuth3'}}, ()),
    'PebblingFormula': (lambda c, a: _need('peb', _dag(c, a['digraph'])), {}, ()),
    'StoneFormula': (lambda c, a: _need('stone', a['nstones'], _dag(c, a['D'])), {}, ()),
    'CPLSFormula': (lambda c, a: ['cpls', a['a'], a['b'], a['c']], {}, ()),
    'RamseyNumber': (lambda c, a: ['ram', a['s'], a['k'], a['N']], {}, ()),
    'VanDerWaerden': (lambda c, a: ['vdw', a['N'], a['k1'], a['k2']] + list(a.get('ks', ())), {}, ()),
    'PythagoreanTriples': (lambda c, a: ['ptn', a['N']], {}, ()),
}


def _argv(name, fn, args, kwargs, ctx):
    """the command line equivalent to fn(*args, **kwargs), or None"""
    build, switches, default_only = SPECS[name]
    sig = inspect.signature(fn)
    try:
        b = sig.bind(*args, **kwargs)
    except TypeError:
        return None, None
    b.apply_defaults()
    a = dict(b.arguments)
    for p in list(a):
        if sig.parameters[p].kind is inspect.Parameter.VAR_POSITIONAL:
            a[p] = tuple(a[p])
    cls = a.pop('formula_class', None)
    for p in default_only:
        if p in a and a[p] != sig.parameters[p].default:
            return None, cls
    try:
        toks = build(ctx, a)
    except KeyError:
        return None, cls            # the parameter names of the tree are not the ones this table knows
    if toks is None:
        return None, cls
    flags = []
    for p, sw in switches.items():
        if p not in a:
            return None, cls
        v = a[p]
        if isinstance(sw, dict):
            if v not in sw:
                return None, cls
            flags += [sw[v]] if sw[v] else []
        elif isinstance(sw, tuple):
            flags += [sw[0 if v else 1]] if sw[0 if v else 1] else []
        elif v:
            flags.append(sw)
    if any(isinstance(t, bool) or not isinstance(t, (int, str)) for t in toks):
        return None, cls
    toks = [str(t) for t in toks]
    return [toks[0]] + flags + toks[1:], cls


@contextlib.contextmanager
def through_cli():
    """stats: {'cli': calls built through a tool, 'library': calls that fell back, 'rejected': calls the parser refused}"""
    import cnfgen
    from cnfgen.formula.opb import OPB
    from cnfgen.clitools.cmdline import CLIError
    stats = {'cli': 0, 'library': 0, 'rejected': 0, 'argv': []}
    saved = {}
    ctx = catalog.Ctx()

    def wrap(name, fn):
        def wrapper(*args, **kwargs):
            argv, cls = _argv(name, fn, args, kwargs, ctx)
            if argv is None or any(t.startswith('-') and t[1:].isdigit() for t in argv[1:]):
                stats['library'] += 1
                return fn(*args, **kwargs)
            tool = 'pbgen' if (cls is not None and isinstance(cls, type) and issubclass(cls, OPB)) else 'cnfgen'
            try:
                F = cli.build(tool, ['-q'] + argv)
            except CLIError:
                # the command line refuses what the library accepts (argument types of the parser): not this property's business
                stats['rejected'] += 1
                return fn(*args, **kwargs)
            stats['cli'] += 1
            if len(stats['argv']) < 3:
                stats['argv'].append(' '.join([tool] + argv))
            return F
        wrapper.__name__ = fn.__name__
        wrapper.__doc__ = fn.__doc__
        return wrapper

    try:
        for name in SPECS:
            fn = getattr(cnfgen, name, None)
            if fn is not None:
                saved[name] = fn
                setattr(cnfgen, name, wrap(name, fn))
        yield stats
    finally:
        for name, fn in saved.items():
            setattr(cnfgen, name, fn)
        ctx.close()


def force_plain_objects(case):
    """a copy of the case in which every graph is handed over as a plain cnfgen object (the files are written from it)"""
    if isinstance(case, dict):
        return {k: ('cnfgen' if k == 'as' else force_plain_objects(v)) for k, v in case.items()}
    if isinstance(case, list):
        return [force_plain_objects(v) for v in case]
    return case


def make(subchecks, inner, required_labels, quick=300, thorough=12000):
    """a sub-check that re-runs the (quick) enumerated cases of the sub-checks `inner` through the command line"""
    import itertools
    from hypothesis import strategies as st
    from vlib.core import SubCheck, Violation, Outcome
    pools = {}

    def pool(name):
        if name not in pools:
            sc = next(x for x in subchecks if x.name == name)
            pools[name] = list(itertools.islice(sc.enumerate_cases('quick'), 0, 6000, 5))[:600]
        return pools[name]

    def run_cli(case):
        sc = next(x for x in subchecks if x.name == case['sub'])
        p = pool(case['sub'])
        inner_case = force_plain_objects(p[case['idx'] % len(p)])
        with through_cli() as stats:
            try:
                out = sc.run_case(inner_case)
            except Violation as v:
                raise Violation("through the command line ({}): {}".format('; '.join(stats['argv']) or 'library fallback', v))
        labels = ['then:' + case['sub']]
        if stats['cli']:
            labels.append('built-by-tool')
            labels.append('via:' + stats['argv'][0].split()[0])
        if stats['library']:
            labels.append('not-expressible')
        if stats['rejected']:
            labels.append('parser-refuses')
        return Outcome(labels=labels, nontrivial=bool(stats['cli']) and out.nontrivial, rejected=out.rejected)

    @st.composite
    def strat_cli(draw):
        return {'sub': draw(st.sampled_from(inner)), 'idx': draw(st.integers(0, 599))}

    return SubCheck('cli', run_cli, strategy=strat_cli, quick=quick, thorough=thorough,
                    rule="cases of the sub-checks above ({}; from their quick enumerations, graphs as plain objects) with the family constructors replaced by "
                         "wrappers that express the call as a cnfgen / pbgen command line (graphs written to kthlist / matrix files by the harness) and build the "
                         "formula in-process with the tool; oracle: that case's oracle, unchanged; calls the command line cannot express (options without a "
                         "switch, arguments the parser's types refuse) fall back to the library and are counted; non-trivial: the formula came from a tool and the "
                         "inner case is non-trivial".format(', '.join(sorted(set(inner)))),
                    required_labels=required_labels)
