"""Catalogue of the formula sub-commands shared by cnfgen and pbgen.

Every entry knows
  * a Hypothesis strategy of parameter dicts ``p`` (JSON-able, small sizes),
  * ``argv(p, ctx)``: the command line tokens (graphs are written by the
    harness's own writers into ``ctx.dir`` and passed as `<format> <file>`),
  * ``lib(p, cls)``: the documented library call on the same numbers/graphs
    (None when the sub-command involves randomness of its own: those are
    checked through shape oracles elsewhere),
  * ``uses_random``.
"""
import os
import tempfile
import shutil

from hypothesis import strategies as st

from vlib import graphs_gen as gg


class Ctx:
    """Scratch directory for the files a command line refers to."""

    def __init__(self):
        self.dir = tempfile.mkdtemp(prefix="vcat_")
        self.count = 0

    def path(self, ext):
        self.count += 1
        return os.path.join(self.dir, "g{}.{}".format(self.count, ext))

    def close(self):
        shutil.rmtree(self.dir, ignore_errors=True)

    def __enter__(self):
        return self

    def __exit__(self, *a):
        self.close()


# ---------------------------------------------------------------------------
# the harness's own graph file writers (from the format descriptions)

def write_kthlist(path, n, edges, name=None):
    """simple graph / dag: line 'v : predecessors 0' (smaller endpoints for simple graphs)"""
    pred = {v: [] for v in range(1, n + 1)}
    for u, v in edges:
        a, b = (u, v) if u < v else (v, u)
        pred[b].append(a)
    with open(path, "w") as f:
        if name:
            f.write("c {}\n".format(name))
        f.write("{}\n".format(n))
        for v in range(1, n + 1):
            if pred[v]:
                f.write("{} : {} 0\n".format(v, " ".join(str(x) for x in sorted(pred[v]))))


def write_digraph_kthlist(path, n, edges):
    pred = {v: [] for v in range(1, n + 1)}
    for u, v in edges:
        pred[v].append(u)
    with open(path, "w") as f:
        f.write("{}\n".format(n))
        for v in range(1, n + 1):
            if pred[v]:
                f.write("{} : {} 0\n".format(v, " ".join(str(x) for x in sorted(pred[v]))))


def write_matrix(path, L, R, edges):
    E = set(tuple(e) for e in edges)
    with open(path, "w") as f:
        f.write("{} {}\n".format(L, R))
        for u in range(1, L + 1):
            f.write(" ".join('1' if (u, v) in E else '0' for v in range(1, R + 1)) + "\n")


def simple_tokens(ctx, g):
    p = ctx.path("kthlist")
    write_kthlist(p, g['n'], g['edges'])
    return ['kthlist', p]


def dag_tokens(ctx, g):
    p = ctx.path("kthlist")
    write_digraph_kthlist(p, g['n'], g['edges'])
    return ['kthlist', p]


def bip_tokens(ctx, g):
    p = ctx.path("matrix")
    write_matrix(p, g['L'], g['R'], g['edges'])
    return ['matrix', p]


def G_simple(g):
    c = dict(g)
    c['as'] = 'cnfgen'
    return gg.build_simple(c)


def G_bip(g):
    c = dict(g)
    c['as'] = 'cnfgen'
    return gg.build_bipartite(c)


def G_dag(g):
    c = dict(g)
    c['as'] = 'cnfgen'
    return gg.build_digraph(c)


# ---------------------------------------------------------------------------

class Fam:
    def __init__(self, name, strategy, argv, lib=None, uses_random=False, graph_kinds=()):
        self.name = name
        self.strategy = strategy
        self.argv = argv
        self.lib = lib
        self.uses_random = uses_random
        self.graph_kinds = graph_kinds


def _lib():
    import cnfgen
    return cnfgen


def ints(lo, hi):
    return st.integers(lo, hi)


FAMILIES = []


def fam(*a, **k):
    f = Fam(*a, **k)
    FAMILIES.append(f)
    return f


def simple_g(nmin=0, nmax=5, max_edges=None):
    return gg.simple_graphs(nmin=nmin, nmax=nmax, max_edges=max_edges, kinds=('cnfgen',))


def bip_g(Lmin=1, Lmax=3, Rmin=1, Rmax=4, max_edges=None):
    return gg.bipartite_graphs(Lmin=Lmin, Lmax=Lmax, Rmin=Rmin, Rmax=Rmax, max_edges=max_edges, kinds=('cnfgen',))


def dag_g(nmin=0, nmax=5, max_edges=None):
    return gg.dags(nmin=nmin, nmax=nmax, max_edges=max_edges, kinds=('cnfgen',))


# --- simple formulas
fam('and', st.fixed_dictionaries({'P': ints(0, 5), 'N': ints(0, 5)}),
    lambda p, c: [p['P'], p['N']])
fam('or', st.fixed_dictionaries({'P': ints(0, 5), 'N': ints(0, 5)}),
    lambda p, c: [p['P'], p['N']])
fam('true', st.just({}), lambda p, c: [])
fam('false', st.just({}), lambda p, c: [])

# --- pigeonhole family
fam('php', st.fixed_dictionaries({'m': ints(0, 5), 'n': ints(0, 4), 'functional': st.booleans(), 'onto': st.booleans(),
                                  'form': st.sampled_from(['M N', 'N'])}).filter(lambda p: p['m'] * p['n'] <= 18),
    lambda p, c: ([p['n']] if p['form'] == 'N' else [p['m'], p['n']]) +
    (['--functional'] if p['functional'] else []) + (['--onto'] if p['onto'] else []),
    lambda p, cls: _lib().PigeonholePrinciple(p['n'] + 1 if p['form'] == 'N' else p['m'], p['n'],
                                              functional=p['functional'], onto=p['onto'], formula_class=cls))
fam('php', st.fixed_dictionaries({'B': bip_g(1, 4, 1, 4, 14), 'functional': st.booleans(), 'onto': st.booleans()}),
    lambda p, c: bip_tokens(c, p['B']) + (['--functional'] if p['functional'] else []) + (['--onto'] if p['onto'] else []),
    lambda p, cls: _lib().GraphPigeonholePrinciple(G_bip(p['B']), functional=p['functional'], onto=p['onto'],
                                                   formula_class=cls), graph_kinds=('bipartite',))
fam('bphp', st.fixed_dictionaries({'m': ints(1, 5), 'n': ints(1, 9)}).filter(
    lambda p: p['m'] * max(0, (p['n'] - 1).bit_length()) <= 16),
    lambda p, c: [p['m'], p['n']],
    lambda p, cls: _lib().BinaryPigeonholePrinciple(p['m'], p['n'], formula_class=cls))
fam('rphp', st.fixed_dictionaries({'m': ints(0, 3), 'r': ints(0, 3), 'n': ints(0, 3)}).filter(
    lambda p: p['m'] * p['r'] + p['r'] * p['n'] + p['r'] <= 18),
    lambda p, c: [p['m'], p['r'], p['n']],
    lambda p, cls: _lib().RelativizedPigeonholePrinciple(p['m'], p['r'], p['n'], formula_class=cls))
fam('cliquecoloring', st.fixed_dictionaries({'n': ints(0, 4), 'k': ints(1, 3), 'c': ints(1, 3)}).filter(
    lambda p: p['n'] * (p['n'] - 1) // 2 + p['k'] * p['n'] + p['n'] * p['c'] <= 18),
    lambda p, c: [p['n'], p['k'], p['c']],
    lambda p, cls: _lib().CliqueColoring(p['n'], p['k'], p['c'], formula_class=cls))
fam('ram', st.fixed_dictionaries({'s': ints(1, 4), 'k': ints(1, 4), 'N': ints(0, 6)}),
    lambda p, c: [p['s'], p['k'], p['N']],
    lambda p, cls: _lib().RamseyNumber(p['s'], p['k'], p['N'], formula_class=cls))
fam('vdw', st.fixed_dictionaries({'N': ints(0, 8), 'K': st.lists(ints(1, 4), min_size=2, max_size=4)}).filter(
    lambda p: (p['N'] if len(p['K']) == 2 else p['N'] * len(p['K'])) <= 18),
    lambda p, c: [p['N']] + p['K'],
    lambda p, cls: _lib().VanDerWaerden(p['N'], *p['K'], formula_class=cls))
fam('ptn', st.fixed_dictionaries({'N': ints(0, 18)}),
    lambda p, c: [p['N']],
    lambda p, cls: _lib().PythagoreanTriples(p['N'], formula_class=cls))

# --- counting
fam('parity', st.fixed_dictionaries({'N': ints(0, 6)}),
    lambda p, c: [p['N']],
    lambda p, cls: _lib().CountingPrinciple(p['N'], 2, formula_class=cls))
fam('count', st.fixed_dictionaries({'M': ints(0, 7), 'p': ints(1, 4)}).filter(
    lambda p: __import__('math').comb(p['M'], p['p']) <= 18),
    lambda p, c: [p['M'], p['p']],
    lambda p, cls: _lib().CountingPrinciple(p['M'], p['p'], formula_class=cls))
fam('matching', st.fixed_dictionaries({'G': simple_g(0, 6, 14)}),
    lambda p, c: simple_tokens(c, p['G']),
    lambda p, cls: _lib().PerfectMatchingPrinciple(G_simple(p['G']), formula_class=cls), graph_kinds=('simple',))
CHARGES = ['first', 'zero', 'one']
fam('tseitin', st.fixed_dictionaries({'G': simple_g(0, 6, 14), 'charge': st.sampled_from(CHARGES)}),
    lambda p, c: [p['charge']] + simple_tokens(c, p['G']),
    lambda p, cls: _lib().TseitinFormula(G_simple(p['G']),
                                         {'first': [1] + [0] * (p['G']['n'] - 1), 'zero': [0] * p['G']['n'],
                                          'one': [1] * p['G']['n']}[p['charge']], formula_class=cls),
    graph_kinds=('simple',))
fam('subsetcard', st.fixed_dictionaries({'B': bip_g(1, 4, 1, 4, 14), 'equal': st.booleans()}),
    lambda p, c: (['--equal'] if p['equal'] else []) + bip_tokens(c, p['B']),
    lambda p, cls: _lib().SubsetCardinalityFormula(G_bip(p['B']), p['equal'], formula_class=cls),
    graph_kinds=('bipartite',))

# --- graph problems
fam('kcolor', st.fixed_dictionaries({'k': ints(1, 3), 'G': simple_g(0, 5)}).filter(lambda p: p['k'] * p['G']['n'] <= 16),
    lambda p, c: [p['k']] + simple_tokens(c, p['G']),
    lambda p, cls: _lib().GraphColoringFormula(G_simple(p['G']), p['k'], formula_class=cls), graph_kinds=('simple',))
def _cycle(n, off=0):
    return [[off + i, off + (i % n) + 1] if i < n else None for i in range(1, n + 1)]


EVEN_GRAPHS = [
    {'n': 1, 'edges': []}, {'n': 3, 'edges': []},
    {'n': 3, 'edges': [[1, 2], [2, 3], [1, 3]]},
    {'n': 4, 'edges': [[1, 2], [2, 3], [3, 4], [1, 4]]},
    {'n': 5, 'edges': [[1, 2], [2, 3], [3, 4], [4, 5], [1, 5]]},
    {'n': 5, 'edges': [[u, v] for u in range(1, 6) for v in range(u + 1, 6)]},
    {'n': 6, 'edges': [[1, 2], [2, 3], [1, 3], [4, 5], [5, 6], [4, 6]]},
    {'n': 5, 'edges': [[1, 2], [2, 3], [1, 3], [3, 4], [4, 5], [3, 5]]},
    {'n': 6, 'edges': [[1, 2], [2, 3], [3, 4], [4, 5], [5, 6], [1, 6]]},
    {'n': 7, 'edges': [[1, 2], [2, 3], [3, 4], [1, 4], [5, 6], [6, 7], [5, 7]]},
]
fam('ec', st.fixed_dictionaries({'G': st.sampled_from(EVEN_GRAPHS).map(lambda g: dict(g, **{'as': 'cnfgen'}))}),
    lambda p, c: simple_tokens(c, p['G']),
    lambda p, cls: _lib().EvenColoringFormula(G_simple(p['G']), formula_class=cls), graph_kinds=('simple',))
fam('domset', st.fixed_dictionaries({'d': ints(1, 3), 'G': simple_g(0, 4), 'alternative': st.booleans()}).filter(
    lambda p: p['G']['n'] * (1 + p['d']) <= 16),
    lambda p, c: (['--alternative'] if p['alternative'] else []) + [p['d']] + simple_tokens(c, p['G']),
    lambda p, cls: _lib().DominatingSet(G_simple(p['G']), p['d'], alternative=p['alternative'], formula_class=cls),
    graph_kinds=('simple',))
fam('tiling', st.fixed_dictionaries({'G': simple_g(0, 8)}),
    lambda p, c: simple_tokens(c, p['G']),
    lambda p, cls: _lib().Tiling(G_simple(p['G']), formula_class=cls), graph_kinds=('simple',))
fam('iso', st.fixed_dictionaries({'G': simple_g(0, 4), 'G2': st.none() | simple_g(0, 4)}).filter(
    lambda p: p['G']['n'] * (p['G2']['n'] if p['G2'] else p['G']['n']) <= 16),
    lambda p, c: simple_tokens(c, p['G']) + ((['-e'] + simple_tokens(c, p['G2'])) if p['G2'] else []),
    lambda p, cls: (_lib().GraphIsomorphism(G_simple(p['G']), G_simple(p['G2']), formula_class=cls) if p['G2']
                    else _lib().GraphAutomorphism(G_simple(p['G']), formula_class=cls)), graph_kinds=('simple',))
fam('kclique', st.fixed_dictionaries({'k': ints(0, 4), 'G': simple_g(0, 5), 'nosym': st.booleans()}).filter(
    lambda p: p['k'] * p['G']['n'] <= 16),
    lambda p, c: [p['k']] + simple_tokens(c, p['G']) + (['--no-symmetry-breaking'] if p['nosym'] else []),
    lambda p, cls: _lib().CliqueFormula(G_simple(p['G']), p['k'], not p['nosym'], formula_class=cls),
    graph_kinds=('simple',))
fam('kcliquebin', st.fixed_dictionaries({'k': ints(0, 4), 'G': simple_g(0, 8)}),
    lambda p, c: [p['k']] + simple_tokens(c, p['G']),
    lambda p, cls: _lib().BinaryCliqueFormula(G_simple(p['G']), p['k'], formula_class=cls), graph_kinds=('simple',))
fam('ramlb', st.fixed_dictionaries({'k': ints(0, 3), 's': ints(0, 3), 'G': simple_g(0, 5)}).filter(
    lambda p: 1 + max(p['k'], p['s']) * p['G']['n'] <= 16),
    lambda p, c: [p['k'], p['s']] + simple_tokens(c, p['G']),
    lambda p, cls: _lib().RamseyWitnessFormula(G_simple(p['G']), p['k'], p['s'], formula_class=cls),
    graph_kinds=('simple',))
fam('subgraph', st.fixed_dictionaries({'G': simple_g(0, 5), 'H': simple_g(0, 3)}).filter(
    lambda p: p['G']['n'] * p['H']['n'] <= 16),
    lambda p, c: ['-G'] + simple_tokens(c, p['G']) + ['-H'] + simple_tokens(c, p['H']),
    lambda p, cls: _lib().SubgraphFormula(G_simple(p['G']), G_simple(p['H']), induced=False, symbreak=False,
                                          formula_class=cls), graph_kinds=('simple',))

# --- ordering
OPFLAGS = [[], ['--total'], ['--smart'], ['--knuth2'], ['--knuth3']]


def _op_kwargs(p):
    fl = p['flag']
    return dict(total='--total' in fl, smart='--smart' in fl, plant=p['plant'],
                knuth=2 if '--knuth2' in fl else (3 if '--knuth3' in fl else 0))


fam('op', st.fixed_dictionaries({'N': ints(1, 4), 'flag': st.sampled_from(OPFLAGS), 'plant': st.booleans()}),
    lambda p, c: p['flag'] + (['--plant'] if p['plant'] else []) + [p['N']],
    lambda p, cls: _lib().OrderingPrinciple(p['N'], formula_class=cls, **_op_kwargs(p)))
fam('op', st.fixed_dictionaries({'G': simple_g(0, 4), 'flag': st.sampled_from(OPFLAGS), 'plant': st.booleans()}),
    lambda p, c: p['flag'] + (['--plant'] if p['plant'] else []) + simple_tokens(c, p['G']),
    lambda p, cls: _lib().GraphOrderingPrinciple(G_simple(p['G']), formula_class=cls, **_op_kwargs(p)),
    graph_kinds=('simple',))

# --- pebbling
fam('peb', st.fixed_dictionaries({'D': dag_g(0, 8, 16)}),
    lambda p, c: dag_tokens(c, p['D']),
    lambda p, cls: _lib().PebblingFormula(G_dag(p['D']), formula_class=cls), graph_kinds=('dag',))
fam('stone', st.fixed_dictionaries({'s': ints(1, 3), 'D': dag_g(0, 4, 4)}).filter(
    lambda p: p['s'] + p['s'] * p['D']['n'] <= 14 and
    max([0] + [sum(1 for e in p['D']['edges'] if e[1] == v) for v in range(1, p['D']['n'] + 1)]) <= 2),
    lambda p, c: [p['s']] + dag_tokens(c, p['D']),
    lambda p, cls: _lib().StoneFormula(G_dag(p['D']), p['s'], formula_class=cls), graph_kinds=('dag',))

# --- others
fam('cpls', st.fixed_dictionaries({'a': ints(1, 2), 'b': st.sampled_from([1, 2]), 'c': st.sampled_from([1, 2, 4])}).filter(
    lambda p: p['a'] * p['b'] * p['c'] + p['a'] * p['b'] * (p['b'].bit_length() - 1) + p['b'] * (p['c'].bit_length() - 1) <= 18),
    lambda p, c: [p['a'], p['b'], p['c']],
    lambda p, cls: _lib().CPLSFormula(p['a'], p['b'], p['c'], formula_class=cls))

# --- sub-commands with randomness of their own (lib=None: shape oracles)
fam('randkcnf', st.fixed_dictionaries({'k': ints(1, 3), 'n': ints(3, 7), 'm': ints(0, 8), 'plant': st.booleans()}).filter(
    lambda p: p['m'] <= __import__('math').comb(p['n'], p['k']) * (2 ** p['k'] - (1 if p['plant'] else 0))),
    lambda p, c: (['--plant'] if p['plant'] else []) + [p['k'], p['n'], p['m']], uses_random=True)
fam('randkxor', st.fixed_dictionaries({'k': ints(1, 3), 'n': ints(3, 7), 'm': ints(0, 6), 'plant': st.booleans()}).filter(
    lambda p: p['m'] <= __import__('math').comb(p['n'], p['k']) * (1 if p['plant'] else 2)),
    lambda p, c: (['--plant'] if p['plant'] else []) + [p['k'], p['n'], p['m']], uses_random=True)
fam('php', st.fixed_dictionaries({'m': ints(1, 5), 'n': ints(2, 4), 'd': ints(1, 3), 'functional': st.booleans(),
                                  'onto': st.booleans()}).filter(lambda p: p['d'] < p['n']),
    lambda p, c: [p['m'], p['n'], p['d']] + (['--functional'] if p['functional'] else []) + (['--onto'] if p['onto'] else []),
    uses_random=True)
fam('tseitin', st.fixed_dictionaries({'N': ints(3, 7), 'd': ints(2, 4)}).filter(
    lambda p: p['d'] < p['N'] and p['N'] * p['d'] % 2 == 0),
    lambda p, c: [p['N'], p['d']], uses_random=True)
fam('tseitin', st.fixed_dictionaries({'G': simple_g(0, 6, 14), 'charge': st.sampled_from(['random', 'randomodd', 'randomeven'])}),
    lambda p, c: [p['charge']] + simple_tokens(c, p['G']), uses_random=True, graph_kinds=('simple',))
fam('op', st.fixed_dictionaries({'N': ints(3, 5), 'd': ints(2, 3), 'flag': st.sampled_from(OPFLAGS), 'plant': st.booleans()}).filter(
    lambda p: p['d'] < p['N'] and p['N'] * p['d'] % 2 == 0),
    lambda p, c: p['flag'] + (['--plant'] if p['plant'] else []) + [p['N'], p['d']], uses_random=True)
fam('subsetcard', st.fixed_dictionaries({'N': ints(2, 4), 'd': ints(1, 3), 'equal': st.booleans()}).filter(
    lambda p: p['d'] < p['N']),
    lambda p, c: (['--equal'] if p['equal'] else []) + [p['N'], p['d']], uses_random=True)
fam('stone', st.fixed_dictionaries({'s': ints(2, 4), 'deg': ints(1, 2), 'D': dag_g(0, 4, 4)}).filter(
    lambda p: p['deg'] <= p['s'] and
    max([0] + [sum(1 for e in p['D']['edges'] if e[1] == v) for v in range(1, p['D']['n'] + 1)]) <= 2),
    lambda p, c: [p['s']] + dag_tokens(c, p['D']) + ['--sparse', p['deg']], uses_random=True, graph_kinds=('dag',))
fam('pitfall', st.fixed_dictionaries({'v': st.sampled_from([3, 4]), 'd': st.just(2), 'ny': ints(2, 3), 'nz': ints(2, 2),
                                      'k': st.just(2)}),
    lambda p, c: [p['v'], p['d'], p['ny'], p['nz'], p['k']], uses_random=True)


def family_names():
    return sorted(set(f.name for f in FAMILIES))


@st.composite
def invocations(draw, deterministic_only=False, random_only=False):
    """(index of the catalogue entry, parameters)"""
    idxs = [i for i, f in enumerate(FAMILIES)
            if not (deterministic_only and (f.uses_random or f.lib is None)) and not (random_only and not f.uses_random)]
    i = draw(st.sampled_from(idxs))
    p = draw(FAMILIES[i].strategy)
    return {'fam': i, 'name': FAMILIES[i].name, 'p': p}
