"""Deep before/after snapshots of formulas, graphs and plain arguments (C19).

A snapshot is a plain nested structure of tuples/strings/ints: it shares nothing
with the object it was taken from, so comparing the snapshot taken before a call
with the one taken after it answers "was the object left exactly as it was".

``differences(a, b)`` names the first places where two snapshots disagree.
"""
import random as _random


# ---------------------------------------------------------------------------
# plain values (lists, tuples, dicts, numbers, strings)

def freeze(x):
    """Type-faithful deep copy: ('list', (..)), ('tuple', (..)), ('dict', ((k, v)..)), scalars."""
    if isinstance(x, bool) or x is None or isinstance(x, (int, float, str, bytes)):
        return (type(x).__name__, x)
    if isinstance(x, (list, tuple)):
        return (type(x).__name__, tuple(freeze(e) for e in x))
    if isinstance(x, range):
        return ('range', (x.start, x.stop, x.step))
    if isinstance(x, dict):
        return (type(x).__name__, tuple((freeze(k), freeze(v)) for k, v in x.items()))
    if isinstance(x, (set, frozenset)):
        return (type(x).__name__, tuple(sorted((freeze(e) for e in x), key=repr)))
    return ('object', type(x).__name__, repr(x))


def differences(a, b, path='', out=None, limit=4):
    """Human readable list of the first positions where two snapshots differ."""
    if out is None:
        out = []
    if len(out) >= limit or a == b:
        return out
    if isinstance(a, dict) and isinstance(b, dict):
        for k in a:
            if k not in b:
                out.append("{}.{} disappeared".format(path, k))
            else:
                differences(a[k], b[k], "{}.{}".format(path, k), out, limit)
        for k in b:
            if k not in a:
                out.append("{}.{} appeared".format(path, k))
        return out
    if isinstance(a, tuple) and isinstance(b, tuple) and len(a) == len(b) and len(a) > 0 \
            and not (len(a) == 2 and isinstance(a[0], str) and not isinstance(a[1], tuple)):
        for i, (x, y) in enumerate(zip(a, b)):
            differences(x, y, "{}[{}]".format(path, i), out, limit)
            if len(out) >= limit:
                break
        return out
    out.append("{}: {} -> {}".format(path or 'value', _short(a), _short(b)))
    return out


def _short(x, n=160):
    s = repr(x)
    return s if len(s) <= n else s[:n] + '...'


# ---------------------------------------------------------------------------
# formulas

def snap_formula(F):
    """Everything the property lists: clauses element-wise, variable count, names, header in order."""
    rows = []
    for c in F:                      # iteration hands out the stored rows
        rows.append((type(c).__name__, tuple(_row_item(x) for x in c)))
    s = {
        'class': type(F).__name__,
        'rows': tuple(rows),
        'len': len(F),
        'numvar': F.number_of_variables(),
        'labels': tuple(F.all_variable_labels()),
        'header': tuple((freeze(k), freeze(v)) for k, v in F.header.items()),
        'header_type': type(F.header).__name__,
    }
    # second access path: indexed access must tell the same story
    s['rows_by_index'] = tuple(tuple(_row_item(x) for x in F[i]) for i in range(len(F)))
    return s


def _row_item(x):
    if isinstance(x, tuple):
        return tuple(x)
    return x


def row_ids(F):
    """identities of the mutable row objects stored in F"""
    return set(id(c) for c in F if isinstance(c, list))


# ---------------------------------------------------------------------------
# graphs

def snap_graph(G):
    """cnfgen graph objects (public accessors only) and networkx graphs (nodes/edges/attributes)."""
    import networkx
    if isinstance(G, networkx.Graph):
        s = {
            'class': type(G).__name__,
            'class_module': type(G).__module__,
            'nodes': tuple((freeze(u), freeze(dict(d))) for u, d in G.nodes(data=True)),
            'node_attr_class': tuple(type(d).__name__ for _, d in G.nodes(data=True)),
            'edges': tuple((freeze(u), freeze(v), freeze(dict(d))) for u, v, d in G.edges(data=True)),
            'adj': tuple((freeze(u), tuple(freeze(v) for v in G.adj[u])) for u in G),
            'graph': freeze(dict(G.graph)),
            'name': freeze(G.name),
            'order': G.order(),
            'size': G.number_of_edges(),
            'frozen': bool(networkx.is_frozen(G)),
            'instance_extras': freeze({k: v for k, v in vars(G).items() if k.startswith('user_')}),
        }
        if G.is_multigraph():
            s['keyed_edges'] = tuple((freeze(u), freeze(v), freeze(k), freeze(dict(d))) for u, v, k, d in G.edges(keys=True, data=True))
        if G.is_directed():
            s['pred'] = tuple((freeze(u), tuple(freeze(v) for v in G.pred[u])) for u in G)
        return s
    from cnfgen.graphs import Graph, DirectedGraph, BaseBipartiteGraph
    s = {
        'class': type(G).__name__,
        'name': freeze(getattr(G, 'name', None)),
        'order': G.number_of_vertices(),
        'size': G.number_of_edges(),
        'edges': tuple(tuple(e) for e in G.edges()),
    }
    if isinstance(G, BaseBipartiteGraph):
        s['left'] = G.left_order()
        s['right'] = G.right_order()
        s['right_neighbors'] = tuple(tuple(G.right_neighbors(u)) for u in range(1, G.left_order() + 1))
        s['left_neighbors'] = tuple(tuple(G.left_neighbors(v)) for v in range(1, G.right_order() + 1))
    elif isinstance(G, DirectedGraph):
        s['succ'] = tuple(tuple(G.successors(u)) for u in range(1, G.number_of_vertices() + 1))
        s['pred'] = tuple(tuple(G.predecessors(u)) for u in range(1, G.number_of_vertices() + 1))
        s['is_dag'] = bool(G.is_dag())
    elif isinstance(G, Graph):
        s['neighbors'] = tuple(tuple(G.neighbors(u)) for u in range(1, G.number_of_vertices() + 1))
    return s


# ---------------------------------------------------------------------------
# networkx inputs with labels and attributes of several styles

LABEL_STYLES = ('int', 'shifted', 'str', 'digits')


def _label(style, i):
    if style == 'int':
        return i
    if style == 'shifted':
        return 10 * i + 3
    if style == 'str':
        return 'v' + chr(ord('a') + i - 1)          # 'va' < 'vb' < ... keeps the order
    if style == 'digits':
        return str(i)
    raise ValueError(style)


def decorate(G, salt=0):
    """mutable node / edge / graph attributes, so that a deep snapshot has something to watch"""
    for i, u in enumerate(G.nodes()):
        G.nodes[u]['tag'] = ['t', i + salt]
        G.nodes[u]['weight'] = i % 3
    for i, (u, v) in enumerate(G.edges()):
        G.edges[u, v]['w'] = {'k': i + salt}
        G.edges[u, v]['label'] = 'e{}'.format(i)
    G.graph['note'] = ['kept', salt]
    return G


def nx_simple(g, style='int'):
    import networkx
    G = networkx.Graph()
    G.add_nodes_from(_label(style, i) for i in range(1, g['n'] + 1))
    G.add_edges_from((_label(style, u), _label(style, v)) for u, v in g['edges'])
    G.name = 'nx simple graph ({})'.format(style)
    return decorate(G)


def nx_digraph(g, style='int'):
    import networkx
    G = networkx.DiGraph()
    G.add_nodes_from(_label(style, i) for i in range(1, g['n'] + 1))
    G.add_edges_from((_label(style, u), _label(style, v)) for u, v in g['edges'])
    G.name = 'nx digraph ({})'.format(style)
    return decorate(G)


def nx_bipartite(g, style='int'):
    import networkx
    L, R = g['L'], g['R']
    G = networkx.Graph()
    G.add_nodes_from((_label(style, i) for i in range(1, L + 1)), bipartite=0)
    G.add_nodes_from((_label(style, L + j) for j in range(1, R + 1)), bipartite=1)
    G.add_edges_from((_label(style, u), _label(style, L + v)) for u, v in g['edges'])
    G.name = 'nx bipartite graph ({})'.format(style)
    return decorate(G)


# ---------------------------------------------------------------------------
# networkx inputs as a foreign caller may hold them: every observable aspect is a parameter
#
#   g['nx'] = {'sides':  how the 'bipartite' attribute is spelled (int 0/1, str '0'/'1', bool, mixed, per node),
#              'order':  insertion order of nodes and edges (natural, reversed, shuffled, interleaved; 'oseed'),
#              'cls':    plain networkx class, a user subclass with an instance attribute, a multigraph with a
#                        parallel edge, a frozen graph,
#              'labels': LABEL_STYLES + tuples, mixed int/str (not sortable), negative integers,
#              'extra':  no attributes / flat attributes / nested lists, dicts, tuples, None, non-string keys,
#                        attributes called 'bipartite' where the library does not look for them,
#              'gname':  graph name set, absent, empty}

NX_SIDES = ('int', 'str', 'bool', 'mixed')
NX_ORDERS = ('natural', 'reversed', 'shuffled', 'interleaved')
NX_CLASSES = ('plain', 'sub', 'multi', 'frozen')
NX_LABELS = LABEL_STYLES + ('tuple', 'mixed', 'negative')
NX_EXTRAS = ('none', 'plain', 'deep')
NX_NAMES = ('str', 'absent', 'empty')
NX_DEFAULT = {'sides': 'int', 'order': 'natural', 'cls': 'plain', 'labels': 'int', 'extra': 'plain', 'gname': 'str', 'oseed': 0}
NX_DIMENSIONS = (('sides', NX_SIDES), ('order', NX_ORDERS), ('cls', NX_CLASSES), ('labels', NX_LABELS),
                 ('extra', NX_EXTRAS), ('gname', NX_NAMES))

_USER_CLASSES = {}


def _nx_class(cls, directed):
    import networkx
    if cls == 'multi':
        return networkx.MultiDiGraph if directed else networkx.MultiGraph
    if cls == 'sub':
        if directed not in _USER_CLASSES:
            base = networkx.DiGraph if directed else networkx.Graph
            _USER_CLASSES[directed] = type('UserDiGraph' if directed else 'UserGraph', (base,), {})
        return _USER_CLASSES[directed]
    return networkx.DiGraph if directed else networkx.Graph


def _foreign_label(style, i):
    if style == 'tuple':
        return ('g', i)
    if style == 'mixed':
        return i if i % 2 else 'm{}'.format(i)
    if style == 'negative':
        return -i
    return _label(style, i)


def _side(style, side, i):
    if style == 'int':
        return side
    if style == 'str':
        return str(side)
    if style == 'bool':
        return bool(side)
    if style == 'mixed':
        return (str(side), side, bool(side))[i % 3]
    raise ValueError(style)


def _node_attrs(extra, i, bip_value, bipartite_kind):
    """attribute dictionary of node number i, in the order of insertion of the keys"""
    if extra == 'none':
        return [('bipartite', bip_value)] if bipartite_kind else []
    if extra == 'plain':
        items = [('tag', ['t', i]), ('weight', i % 3)]
        return ([('bipartite', bip_value)] if bipartite_kind else []) + items
    items = [('tag', ['t', [i, {'k': [i, None]}]]), ('weight', i / 2), ('pos', (i, -i)),
             ('flags', {'a': None, 'b': [True, 0], 3: 'three'}), (7, 'seven'), ('label', str(i))]
    if bipartite_kind:
        # the side is not the first key of every dictionary
        cut = i % 3
        return items[:cut] + [('bipartite', bip_value)] + items[cut:]
    return items + [('bipartite', ('1', 0, True, 'left')[i % 4])]      # means nothing for this kind of graph


def _edge_attrs(extra, j):
    if extra == 'none':
        return []
    if extra == 'plain':
        return [('w', {'k': j}), ('label', 'e{}'.format(j))]
    return [('w', {'k': [j, {'deep': (j, [j])}]}), ('weight', 1.5 + j), ('bipartite', '1'), (0, [False]), ('label', 'e{}'.format(j))]


def nx_foreign(kind, g):
    """networkx object for the case g (see NX_DEFAULT above); kind in simple/dag/digraph/bipartite"""
    import networkx
    spec = dict(NX_DEFAULT)
    spec['labels'] = g.get('labels', 'int')
    spec.update(g.get('nx') or {})
    directed = kind in ('dag', 'digraph')
    bip = kind == 'bipartite'
    if bip:
        L = g['L']
        n = L + g['R']
        edges = [(u, L + v) for u, v in g['edges']]
    else:
        L = None
        n = g['n']
        edges = [(u, v) for u, v in g['edges']]
    r = _random.Random(spec.get('oseed', 0))
    nodes = list(range(1, n + 1))
    if spec['order'] == 'reversed':
        nodes.reverse()
        edges.reverse()
    elif spec['order'] == 'shuffled':
        r.shuffle(nodes)
        r.shuffle(edges)
    elif spec['order'] == 'interleaved':
        if bip:
            left, right = nodes[:L], nodes[L:]
            nodes = [x for pair in zip(right, left) for x in pair] + right[len(left):] + left[len(right):]
        else:
            nodes = nodes[1::2] + nodes[0::2]
        edges = edges[1::2] + edges[0::2]
    if spec['order'] != 'natural' and not directed:
        edges = [(v, u) if r.random() < 0.5 else (u, v) for u, v in edges]      # either endpoint first
    G = _nx_class(spec['cls'], directed)()
    lab = lambda i: _foreign_label(spec['labels'], i)
    for i in nodes:
        G.add_node(lab(i))
        d = G.nodes[lab(i)]
        for k, v in _node_attrs(spec['extra'], i, _side(spec['sides'], 0 if (bip and i <= L) else 1, i), bip):
            d[k] = v
    for j, (u, v) in enumerate(edges):
        if G.is_multigraph():
            key = G.add_edge(lab(u), lab(v))
            d = G.edges[lab(u), lab(v), key]
        else:
            G.add_edge(lab(u), lab(v))
            d = G.edges[lab(u), lab(v)]
        for k, v2 in _edge_attrs(spec['extra'], j):
            d[k] = v2
    if G.is_multigraph() and edges:
        u, v = edges[0]
        key = G.add_edge(lab(u), lab(v))                     # a parallel edge with its own attributes
        G.edges[lab(u), lab(v), key]['parallel'] = ['copy', key]
    if spec['gname'] == 'str':
        G.name = 'nx {} graph ({})'.format(kind, spec['labels'])
    elif spec['gname'] == 'empty':
        G.name = ''
    if spec['extra'] != 'none':
        G.graph['note'] = ['kept', {'deep': [1, (2, 3)]}] if spec['extra'] == 'deep' else ['kept', 0]
    if spec['extra'] == 'deep':
        G.graph['bipartite'] = 'yes'
        G.graph[5] = {'five': [5]}
    if spec['cls'] == 'sub':
        G.user_note = ['instance attribute', {'of': 'the caller'}]
    if spec['cls'] == 'frozen':
        networkx.freeze(G)
    return G


def nx_left_order(G):
    """number of nodes on side 0 of a networkx graph with 'bipartite' attributes of any spelling"""
    return sum(1 for _, d in G.nodes(data=True) if d['bipartite'] in (0, '0'))


def build_graph(kind, g):
    """kind in simple/dag/digraph/bipartite; g['as'] in cnfgen/networkx; g['labels'] a label style;
    g['nx'] (optional) the foreign-object parameters of nx_foreign"""
    from vlib import graphs_gen as gg
    if g.get('as', 'cnfgen') == 'networkx':
        if g.get('nx') is not None:
            return nx_foreign(kind, g)
        style = g.get('labels', 'int')
        if kind == 'simple':
            return nx_simple(g, style)
        if kind in ('dag', 'digraph'):
            return nx_digraph(g, style)
        return nx_bipartite(g, style)
    c = dict(g)
    c['as'] = 'cnfgen'
    if kind == 'simple':
        G = gg.build_simple(c)
    elif kind in ('dag', 'digraph'):
        G = gg.build_digraph(c)
    else:
        G = gg.build_bipartite(c)
    if g.get('name') is not None:
        G.name = g['name']
    return G


# ---------------------------------------------------------------------------
# deterministic derived arguments (private generator: never the global one)

def derived_permutation(seed, n, start=1):
    r = _random.Random(seed)
    p = list(range(start, n + start))
    r.shuffle(p)
    return p


def derived_flips(seed, n):
    r = _random.Random(seed)
    return [r.choice([-1, 1]) for _ in range(n)]


def derived_left_regular(seed, L, R, d):
    """edges (u, v): every left vertex gets min(d, R) distinct right neighbours"""
    r = _random.Random(seed)
    edges = []
    for u in range(1, L + 1):
        for v in sorted(r.sample(range(1, R + 1), min(d, R))):
            edges.append([u, v])
    return edges
