"""Scripted SAT solvers for C20 (no real solver is installed in the sandbox).

A *fake solver* is a small ``sh`` script generated per case.  It

* exits 0 on ``--help`` (and ``-h``, ``--version``, ...) without touching anything
  (``some_solver_installed`` probes the solver that way and never waits for the probe);
* otherwise appends its name to ``<cap>/calls``, writes its arguments to
  ``<cap>/<name>.args`` (one per line), copies the DIMACS text it received (file
  argument or standard input) to ``<cap>/<name>.in``;
* prints / writes the canned answer the harness rendered for it and exits with
  the canned status.

Four behaviours, modelled on what the real programs do with their arguments
(``-x`` arguments are options, the first other argument is the input file, the
second one the result file):

``stdio``    cadical, kissat, lingeling, plingeling, precosat, picosat, cryptominisat:
             read the file argument when there is one, standard input otherwise;
             answer with ``c``/``s``/``v`` lines on standard output.
``filereq``  march, sat4j: need the input file argument (usage error, status 1,
             no answer without it); answer with ``c``/``s``/``v`` lines on stdout.
``minisat``  minisat: input file argument or standard input; the verdict goes to the
             result file (second file argument) as ``SAT\\n<model> 0`` / ``UNSAT`` /
             ``INDET``; standard output carries statistics which are *not* in the
             ``s``/``v`` convention.
``poly``     answers in both ways (stdout in the DIMACS convention *and* the result
             file when one is given).  Used for ``glucose`` -- the documentation calls
             it a drop-in replacement of minisat, the interface table treats it as a
             stdin/stdout solver and the real program does both -- and for any solver
             name this table does not know.

``Sandbox`` owns the per-case scratch directory (``bin/`` first on PATH, ``tmp/`` as
TMPDIR and ``tempfile.tempdir``, ``cap/`` for the captures) and restores the process
state when closed.  The names of bin/ and tmp/ (blanks, quotes, non-ASCII, leading
dash), the way the temporary directory is announced and further PATH directories are
options of the constructor; programs can be installed and removed while it is open.

A shape with a ``'chan'`` entry (see ``render_plan``) describes what the program does on
its *other* channels and how the bytes of the answer are laid out: text on standard
error before / between / after the pieces of standard output, chatter on the standard
output of a minisat-style solver, CRLF line ends, separators inside the 'v' lines,
standard output delivered in several writes with pauses of a few milliseconds, text
printed when asked for ``--help``.  Such a script plays files prepared by the harness
(``cat``), so any byte can be sent.

A *consumer* (``consumer_program``, ``Sandbox.install_consumer``) is a small Python program
instead: it describes how the solver TAKES its input - all of it, in small pieces with
pauses, only up to the problem line / the first clause / a byte count, nothing at all -
whether it closes the input and goes on working before it answers, and at which moment it
puts its (possibly large) standard output on the pipe.  It never waits for anything but
the end of the input, a fixed number of bytes or room in its output pipe; every such wait
is guarded (``WATCHDOG_S``): when it expires the program leaves a ``<name>.stuck`` note in
the capture directory and exits, so that a bridge that blocks shows up as a finding of
the check and not as a hanging run.

A *gated* program (``Sandbox.install_gated``, ``Stage``; see the section at the end) serves calls that overlap in
one process: it reports where it is through a FIFO and waits at gates the harness opens, so that the harness
chooses the interleaving; it answers for the formula it actually received.
"""
import os
import random
import re
import shutil
import stat
import sys
import tempfile

# behaviour of each solver name the harness knows (see module docstring)
BEHAVIOUR = {
    'cadical': 'stdio',
    'kissat': 'stdio',
    'lingeling': 'stdio',
    'plingeling': 'stdio',
    'precosat': 'stdio',
    'picosat': 'stdio',
    'cryptominisat': 'stdio',
    'march': 'filereq',
    'sat4j': 'filereq',
    'minisat': 'minisat',
    'glucose': 'poly',
}
GRAY_NAMES = ('glucose',)

# what the bridge has to do for each behaviour (labels of the three conventions)
CONVENTION_LABEL = {
    'stdio': 'stdin-stdout',
    'filereq': 'filein-stdout',
    'minisat': 'filein-fileout',
    'poly': 'poly',
}


def behaviour_of(name):
    return BEHAVIOUR.get(name, 'poly')


_BASE_TMP = tempfile.gettempdir()          # resolved before any override
_CAT = shutil.which('cat') or '/bin/cat'
_SH = '/bin/sh'


_TAIL = None


def _clean_path_tail():
    global _TAIL
    if _TAIL is None:
        _TAIL = _compute_path_tail()
    return list(_TAIL)


def _compute_path_tail():
    """The original PATH without the directories that contain a program called like
    a supported solver (so that the set of installed solvers is exactly the generated
    one even on a machine that has a real solver)."""
    names = set(BEHAVIOUR)
    try:
        from cnfgen.utils.solver import supported_satsolvers
        names.update(supported_satsolvers())
    except Exception:      # noqa - the table is only a hint here
        pass
    keep = []
    for d in os.environ.get('PATH', '').split(os.pathsep):
        if not d or d in keep:
            continue
        if any(os.path.exists(os.path.join(d, n)) for n in names):
            continue
        keep.append(d)
    return keep


# ---------------------------------------------------------------------------
# strict DIMACS reader (independent of the tree)

class DimacsError(Exception):
    pass


_INT = re.compile(r'^(0|-?[1-9][0-9]*)$')


def strict_dimacs(text):
    """(n, [clauses]) of a DIMACS CNF text.  Comment lines start with 'c'.  Exactly
    one 'p cnf N M' line, before any clause; M clauses, each closed by 0; literals
    are non-zero decimal integers with |lit| <= N; nothing else."""
    n = m = None
    clauses = []
    cur = []
    for lineno, line in enumerate(text.split('\n'), 1):
        if line.endswith('\r'):
            raise DimacsError("carriage return at line {}".format(lineno))
        s = line.strip(' \t')
        if s == '' or s[0] == 'c':
            continue
        tok = s.split()
        if tok[0] == 'p':
            if n is not None:
                raise DimacsError("second problem line at line {}".format(lineno))
            if len(tok) != 4 or tok[1] != 'cnf' or not _INT.match(tok[2]) or not _INT.match(tok[3]):
                raise DimacsError("malformed problem line {!r}".format(line))
            n, m = int(tok[2]), int(tok[3])
            if n < 0 or m < 0:
                raise DimacsError("negative sizes in {!r}".format(line))
            continue
        if n is None:
            raise DimacsError("clause data before the problem line at line {}".format(lineno))
        for t in tok:
            if not _INT.match(t):
                raise DimacsError("token {!r} at line {} is not a literal".format(t, lineno))
            v = int(t)
            if v == 0:
                clauses.append(cur)
                cur = []
            elif abs(v) > n:
                raise DimacsError("literal {} exceeds the declared {} variables".format(v, n))
            else:
                cur.append(v)
    if n is None:
        raise DimacsError("no problem line")
    if cur:
        raise DimacsError("last clause not terminated by 0")
    if len(clauses) != m:
        raise DimacsError("{} clauses announced, {} present".format(m, len(clauses)))
    return n, clauses


def fast_dimacs(text, partial=False):
    """Same contract as strict_dimacs, written for texts of megabytes (whole-text operations instead of a
    regular expression per token).  partial=True reads the *beginning* of a DIMACS text as a program that
    stopped reading early holds it: the last line may be cut anywhere (it is dropped unless the text ends with
    a line end), the problem line may not have arrived yet (n is None then), fewer clauses than announced may be
    there and the last one may lack its 0.  Returns (n, clauses), with partial=True (n, m, clauses)."""
    if '\r' in text:
        raise DimacsError("carriage return in the text")
    if partial and not text.endswith('\n'):
        text = text[:text.rfind('\n') + 1]
    n = m = None
    body = []
    for line in text.split('\n'):
        s = line.strip(' \t')
        if not s or s[0] == 'c':
            continue
        if s[0] == 'p':
            tok = s.split()
            if n is not None:
                raise DimacsError("second problem line {!r}".format(line))
            if body:
                raise DimacsError("clause data before the problem line")
            if len(tok) != 4 or tok[0] != 'p' or tok[1] != 'cnf' or not _INT.match(tok[2]) or not _INT.match(tok[3]):
                raise DimacsError("malformed problem line {!r}".format(line))
            n, m = int(tok[2]), int(tok[3])
            if n < 0 or m < 0:
                raise DimacsError("negative sizes in {!r}".format(line))
            continue
        if n is None:
            raise DimacsError("clause data before the problem line: {!r}".format(line[:80]))
        body.append(s)
    toks = ' '.join(body).split()
    try:
        vals = list(map(int, toks))
    except ValueError as e:
        raise DimacsError("a token is not a literal: {}".format(e))
    if ' '.join(map(str, vals)) != ' '.join(toks):
        bad = [t for t, v in zip(toks, vals) if str(v) != t][:3]
        raise DimacsError("tokens {} are not plain decimal literals".format(bad))
    clauses = []
    cur = []
    for v in vals:
        if v:
            cur.append(v)
        else:
            clauses.append(cur)
            cur = []
    if vals and (max(vals) > n or -min(vals) > n):
        raise DimacsError("a literal exceeds the declared {} variables".format(n))
    if partial:
        return n, m, clauses
    if n is None:
        raise DimacsError("no problem line")
    if cur:
        raise DimacsError("last clause not terminated by 0")
    if len(clauses) != m:
        raise DimacsError("{} clauses announced, {} present".format(m, len(clauses)))
    return n, clauses


# ---------------------------------------------------------------------------
# rendering of the canned answer

FILLERS = [
    [],
    ['c comment'],
    [''],
    ['c', ''],
    ['c s UNSATISFIABLE', 'c s SATISFIABLE'],      # comments, not answers
    ['c v 7 -3 0'],
    ['c solved in 0.00 s', '', 'c restarts 0'],
    ['c UNSAT', 'c SAT'],
]

STATUSES = ('answer', 'nosline', 'unknown', 'crash')
ZEROS = ('same', 'own', 'none')
SPOS = ('before', 'middle', 'after')
CRASHES = ('exit1', 'exit127', 'kill')


def ordered_model(model, order):
    """The literals of the model in the order the fake solver prints them:
    0 ascending by variable, 1 descending, otherwise a permutation."""
    lits = sorted(model, key=abs)
    if order == 1:
        lits.reverse()
    elif order >= 2:
        random.Random(order).shuffle(lits)      # private generator, part of the case
    return lits


def _chunks(lits, cuts):
    """Split lits at the given positions; empty chunks are dropped."""
    pos = sorted(set(c % (len(lits) + 1) for c in cuts)) if lits else []
    out = []
    prev = 0
    for p in pos + [len(lits)]:
        if p > prev:
            out.append(lits[prev:p])
        prev = p
    return out


# -- layout options of a shape with a 'chan' entry -------------------------------------
VSEPS = [' ', '  ', '\t', ' \t ']          # between two literals of a 'v' line
VLEADS = [' ', '\t', '   ']                # between the 'v' and the first literal
VTRAILS = ['', ' ', '\t', '  ']            # after the last token of a 'v' line
VSPLITS = ('cuts', 'each', 'one', 'rows')  # 'v' lines cut at shape['cuts'] / one literal per line / a single line /
                                           # chan['per_line'] literals per line (what the real programs do)
MORE_FILLERS = [
    ['c ' + 'y' * 30000],                                  # a very long comment line
    ['c\tindented\tcomment', 'c'],
    ['c', 'c', 'c', ''],
    ['   ', '\t'],                                         # blank lines made of blanks
    ['c s SATISFIABLE v 1 2 0', 'c s UNSATISFIABLE'],
    ['c v', 'c 0', 'csv'],
]


def _pick(pool, i):
    return pool[int(i) % len(pool)]


def render_stdout(verdict, model, shape):
    """Lines printed on stdout by a solver of the DIMACS output convention.
    Returns (lines, number of 'v' lines that carry literals)."""
    fill = list(shape.get('fill') or [0])
    chan = shape.get('chan') or {}
    pool = FILLERS + MORE_FILLERS if chan else FILLERS

    def filler(i):
        return list(pool[fill[i % len(fill)] % len(pool)])

    status = shape['status']
    if status == 'nosline':
        return filler(0) + filler(1), 0
    if status == 'crash':
        return filler(0), 0
    if status == 'unknown':
        return filler(0) + ['s UNKNOWN'] + filler(1), 0
    if not verdict:
        return filler(0) + ['s UNSATISFIABLE'] + filler(1), 0
    lits = ordered_model(model, shape.get('order', 0))
    split = chan.get('vsplit', 'cuts')
    if split == 'each':
        chunks = [[l] for l in lits]
    elif split == 'one':
        chunks = [lits] if lits else []
    elif split == 'rows':
        k = max(1, int(chan.get('per_line', 10)))
        chunks = [lits[i:i + k] for i in range(0, len(lits), k)]
    else:
        chunks = _chunks(lits, shape.get('cuts') or [])
    sep = _pick(VSEPS, chan.get('vsep', 0))
    lead = _pick(VLEADS, chan.get('vlead', 0))
    trail = _pick(VTRAILS, chan.get('vtrail', 0))
    vl = ['v' + lead + sep.join(str(l) for l in ch) for ch in chunks]
    zero = shape.get('zero', 'same')
    if zero == 'same':
        if vl:
            vl[-1] += sep + '0'
        else:
            vl = ['v' + lead + '0']
    elif zero == 'own':
        vl.append('v' + lead + '0')
    vl = [l + trail for l in vl]
    spos = shape.get('s_pos', 'before')
    k = {'before': 0, 'after': len(vl), 'middle': (len(vl) + 1) // 2}[spos]
    core = vl[:k] + ['s SATISFIABLE'] + vl[k:]
    lines = filler(0)
    for i, l in enumerate(core):
        lines += [l] + filler(i + 1)
    return lines, len(chunks)


def render_minisat(verdict, model, shape, n):
    """(stdout lines, text written to the result file or None when untouched)."""
    status = shape['status']
    stats = ['|  Number of variables:  {:12d} |'.format(n), 'restarts              : 1',
             'conflicts             : 0', '']
    if status == 'nosline':
        return stats, ''                     # result file left empty
    if status == 'crash':
        return stats[:1], None
    if status == 'unknown':
        return stats + ['INDETERMINATE'], 'INDET\n'
    if not verdict:
        return stats + ['UNSATISFIABLE'], 'UNSAT\n'
    lits = ordered_model(model, shape.get('order', 0))
    toks = [str(l) for l in lits]
    if shape.get('zero', 'same') != 'none':
        toks.append('0')
    chan = shape.get('chan') or {}
    sep = _pick(VSEPS, chan.get('vsep', 0))
    return stats + ['SATISFIABLE'], 'SAT\n' + sep.join(toks) + _pick(VTRAILS, chan.get('vtrail', 0)) + '\n'


def _q(s):
    assert "'" not in s and '\n' not in s, s
    return "'" + s + "'"


def _printf(lines, redirect=''):
    if not lines:
        return ': ' + redirect if redirect else ':'
    return "printf '%s\\n' " + ' '.join(_q(l) for l in lines) + (' ' + redirect if redirect else '')


def script_text(behaviour, capdir, verdict, model, shape, n):
    """The sh source of a fake solver."""
    status = shape['status']
    if status == 'crash':
        crash = shape.get('crash', 'exit1')
        ending = {'exit1': 'exit 1', 'exit127': 'exit 127', 'kill': 'kill -9 $$'}[crash]
    elif status == 'answer' and shape.get('exit', 'std') == 'std':
        ending = 'exit 10' if verdict else 'exit 20'
    else:
        ending = 'exit 0'
    head = [
        '#!' + _SH,
        'me=${0##*/}',
        'cap=' + _q(capdir),
        'for a in "$@"; do case "$a" in --help|-h|-help|--version|-version|-V) exit 0 ;; esac; done',
        'in=; out=',
        ': > "$cap/$me.args"',
        'for a in "$@"; do',
        '  printf \'%s\\n\' "$a" >> "$cap/$me.args"',
        '  case "$a" in',
        '    -*) ;;',
        '    *) if [ -z "$in" ]; then in=$a; elif [ -z "$out" ]; then out=$a; fi ;;',
        '  esac',
        'done',
        'printf \'%s\\n\' "$me" >> "$cap/calls"',
    ]
    read_any = ['if [ -n "$in" ]; then {cat} "$in" > "$cap/$me.in" || exit 3; '
                'else {cat} > "$cap/$me.in"; fi'.format(cat=_CAT)]
    read_file = ['if [ -z "$in" ]; then echo "usage: $me [options] FILE"; exit 1; fi',
                 '{cat} "$in" > "$cap/$me.in" || exit 3'.format(cat=_CAT)]
    body = []
    if behaviour in ('stdio', 'filereq', 'poly'):
        body += read_file if behaviour == 'filereq' else read_any
        lines, _ = render_stdout(verdict, model, shape)
        body.append(_printf(lines))
        if behaviour == 'poly':
            _, res = render_minisat(verdict, model, shape, n)
            if res is not None:
                body.append('if [ -n "$out" ]; then ' + _printf(res.split('\n')[:-1], '> "$out"') + '; fi')
    elif behaviour == 'minisat':
        body += read_any
        lines, res = render_minisat(verdict, model, shape, n)
        body.append(_printf(lines))
        if res is not None:
            body.append('if [ -n "$out" ]; then ' + _printf(res.split('\n')[:-1], '> "$out"') + '; fi')
    else:
        raise ValueError(behaviour)
    return '\n'.join(head + body + [ending]) + '\n'


# ---------------------------------------------------------------------------
# the other channels: what a shape with a 'chan' entry makes the program do

# (kind, bytes of one line without its line end) - text a program may write on standard
# error (or, minisat style, among the statistics on standard output)
ERR_POOL = [
    ('version', b'version 1.0 of the solver, reading from <stdin>'),
    ('version', b'version'),
    ('statistics', b'statistics: 12 conflicts, 3 restarts'),
    ('statistics', b'statistics'),
    ('s-line', b's 0.01 seconds elapsed'),
    ('s-line', b's UNKNOWN yet'),
    ('s-line', b's'),
    ('v-line', b'v 1.2.3'),
    ('v-line', b'v 7 -3 0'),
    ('v-line', b'v'),
    ('c-line', b'c reading DIMACS file from standard input'),
    ('c-line', b'c'),
    ('single-word', b'solving'),
    ('single-word', b'verbose'),
    ('single-word', b'WARNING'),
    ('single-word', b'sat'),
    ('empty', b''),
    ('empty', b'  \t'),
    ('long', b'c ' + b'x' * 20000),
    ('long', b'statistics ' + b'0123456789 ' * 1800),
    ('long', b'v' + b'erbose' * 3000),
    ('non-ascii', 'c temps écoulé : 0,0 s — terminé'.encode('utf-8')),
    ('non-ascii', 'Warnung: Datei geändert'.encode('latin-1')),
    ('non-ascii', b'\xff\xfe\x00binary \x80 junk\x1b[0m'),
    ('non-ascii', 's ✓ v ✗'.encode('utf-8')),
    ('cr', b'warning: option ignored\r'),
    ('plain', b'WARNING: for repeatability, setting FPU to use double precision'),
    ('plain', b'[solver] limit on memory not set'),
]
ERR_KINDS = sorted(set(k for k, _ in ERR_POOL))
# the ones that can be mixed with the statistics a minisat-style program prints on its
# standard output (that text is not the answer: the result file is)
NOISE_POOL = [i for i, (k, b) in enumerate(ERR_POOL) if k != 'non-ascii']
NOISE_POOL_ANY = list(range(len(ERR_POOL)))
MAX_ERR_BYTES = 48000        # below the capacity of a pipe: nothing can block even if nobody reads
DELAYS_MS = (0, 1, 2, 3)


def err_indices(kind):
    return [i for i, (k, _) in enumerate(ERR_POOL) if k == kind]


def err_lines(indices, budget=None):
    """The pool lines of the indices; lines that would take the total beyond `budget`
    bytes are left out.  Returns (list of bytes, kinds)."""
    out, kinds = [], []
    left = MAX_ERR_BYTES if budget is None else budget
    for i in indices or []:
        k, b = ERR_POOL[int(i) % len(ERR_POOL)]
        if len(b) + 2 > left:
            continue
        left -= len(b) + 2
        out.append(b)
        kinds.append(k)
    return out, kinds


def _join(lines, eol, final=True):
    if not lines:
        return b''
    return eol.join(lines) + (eol if final else b'')


def render_plan(behaviour, verdict, model, shape, n):
    """What a program with shape['chan'] does, as a list of actions

        ('out', bytes) / ('err', bytes)   write on standard output / standard error
        ('sleep', ms)                     pause
        ('read',)                         take the formula (file argument or standard input)
        ('result', bytes)                 write the result file (second file argument), if one was given

    and a summary dict for labels and messages.  chan keys (all optional):

      err_pre / err_mid / err_post  indices into ERR_POOL: lines for standard error before the first byte of
                    standard output, between its pieces, after the last one
      err_eol       'lf' | 'crlf'; err_open: True when the last stderr line has no line end
      noise         indices into ERR_POOL: lines mixed into the standard output of a *minisat* behaviour
      eol           'lf' | 'crlf' for standard output and the result file; no_final_eol: the last line of
                    standard output has no line end
      vsplit / vsep / vlead / vtrail   layout of the 'v' lines (see render_stdout)
      chunks        per-mille positions where standard output is cut into separate writes (a cut may fall
                    inside a line); delays: ms of pause after each write (cyclic, values of DELAYS_MS)
      early         the program prints its first stderr block (1) and also its first piece of standard
                    output (2) before it reads the formula
      res_first     the result file is written before standard output instead of after it
      help          indices into ERR_POOL printed (stdout and stderr) when the program is asked for --help
    """
    chan = shape.get('chan') or {}
    eol = b'\r\n' if chan.get('eol') == 'crlf' else b'\n'
    eeol = b'\r\n' if chan.get('err_eol') == 'crlf' else b'\n'
    res = None
    if behaviour == 'minisat':
        lines, res = render_minisat(verdict, model, shape, n)
        noise, nkinds = err_lines(chan.get('noise'), 30000)
        # chatter among the statistics: nothing of this is the answer
        text = [l.encode('ascii') for l in lines]
        k = 0
        for i, b in enumerate(noise):
            k = (k + 1 + i) % (len(text) + 1)
            text.insert(k, b)
        stdout = _join(text, eol)
    else:
        lines, _ = render_stdout(verdict, model, shape)
        nkinds = []
        stdout = _join([l.encode('ascii') for l in lines], eol, not chan.get('no_final_eol'))
        if behaviour == 'poly':
            _, res = render_minisat(verdict, model, shape, n)
    if res is not None:
        res = res.encode('ascii').replace(b'\n', eol)
    budget = MAX_ERR_BYTES
    pre, kpre = err_lines(chan.get('err_pre'), budget)
    budget -= sum(len(b) + 2 for b in pre)
    mid, kmid = err_lines(chan.get('err_mid'), budget)
    budget -= sum(len(b) + 2 for b in mid)
    post, kpost = err_lines(chan.get('err_post'), budget)
    # pieces of standard output
    cuts = sorted(set(int(c) % 1001 * len(stdout) // 1000 for c in chan.get('chunks') or []))
    cuts = [c for c in cuts if 0 < c < len(stdout)]
    if mid and not cuts and len(stdout) >= 2:
        cuts = [len(stdout) // 2]
    pieces = [stdout[a:b] for a, b in zip([0] + cuts, cuts + [len(stdout)])]
    inside_line = any(stdout[c - 1:c] != b'\n' for c in cuts)
    delays = [int(d) for d in chan.get('delays') or [0]]
    if any(d not in DELAYS_MS for d in delays):
        raise ValueError("delay out of range: {}".format(delays))
    actions = []
    early = int(chan.get('early', 0))
    open_end = bool(chan.get('err_open'))
    # the lines of err_mid go round the gaps between the pieces
    gaps = len(pieces) - 1
    midblocks = [[] for _ in range(gaps)]
    for i, b in enumerate(mid):
        if gaps:
            midblocks[i % gaps].append(b)
    last_err = 'post' if post else ('mid' if any(midblocks) else 'pre')

    def err(block, is_last):
        if block:
            actions.append(('err', _join(block, eeol, not (is_last and open_end))))

    if early >= 1:
        err(pre, last_err == 'pre')
        if early >= 2 and pieces:
            actions.append(('out', pieces[0]))
    actions.append(('read',))
    if res is not None and chan.get('res_first'):
        actions.append(('result', res))
    if early < 1:
        err(pre, last_err == 'pre')
    for i, piece in enumerate(pieces):
        if not (i == 0 and early >= 2):
            actions.append(('out', piece))
        if i < gaps:
            d = delays[i % len(delays)]
            if d:
                actions.append(('sleep', d))
            err(midblocks[i], last_err == 'mid' and not any(midblocks[i + 1:]))
    if res is not None and not chan.get('res_first'):
        actions.append(('result', res))
    err(post, True)
    hlp, _ = err_lines(chan.get('help'), 20000)
    summary = {
        'err_kinds': {'pre': kpre, 'mid': kmid if gaps else [], 'post': kpost},
        'noise_kinds': nkinds,
        'pieces': len(pieces),
        'inside_line': inside_line,
        'delays': sorted(set(d for d in (delays[i % len(delays)] for i in range(gaps)) if d)),
        'stdout_bytes': len(stdout),
        'err_bytes': sum(len(a[1]) for a in actions if a[0] == 'err'),
        'help': bool(hlp),
        'stdout': stdout,
        'result': res,
    }
    return actions, hlp, summary


def describe_channels(behaviour, verdict, model, shape, n, limit=70):
    """One line of text about the plan (for messages)."""
    actions, hlp, summary = render_plan(behaviour, verdict, model, shape, n)

    def short(b):
        return repr(b if len(b) <= limit else b[:limit] + b'...(%d bytes)' % len(b))

    parts = []
    for a in actions:
        if a[0] == 'read':
            parts.append('reads the formula')
        elif a[0] == 'sleep':
            parts.append('waits {} ms'.format(a[1]))
        elif a[0] == 'result':
            parts.append('writes the result file ' + short(a[1]))
        else:
            parts.append('{} {}'.format({'out': 'stdout', 'err': 'stderr'}[a[0]], short(a[1])))
    if hlp:
        parts.append('(--help prints {} lines on both channels)'.format(len(hlp)))
    return '; '.join(parts)


def plan_script_text(behaviour, capdir, datadir, verdict, model, shape, n):
    """(sh source, {file name: bytes}) of a fake solver that plays render_plan()."""
    actions, hlp, _ = render_plan(behaviour, verdict, model, shape, n)
    status = shape['status']
    if status == 'crash':
        ending = {'exit1': 'exit 1', 'exit127': 'exit 127', 'kill': 'kill -9 $$'}[shape.get('crash', 'exit1')]
    elif status == 'answer' and shape.get('exit', 'std') == 'std':
        ending = 'exit 10' if verdict else 'exit 20'
    else:
        ending = 'exit 0'
    files = {}
    if hlp:
        files['help'] = _join(hlp, b'\n')
        on_help = '{cat} "$d/help"; {cat} "$d/help" >&2; exit 0'.format(cat=_CAT)
    else:
        on_help = 'exit 0'
    head = [
        '#!' + _SH,
        'me=${0##*/}',
        'cap=' + _q(capdir),
        'd=' + _q(datadir),
        'for a in "$@"; do case "$a" in --help|-h|-help|--version|-version|-V) ' + on_help + ' ;; esac; done',
        'in=; out=',
        ': > "$cap/$me.args"',
        'for a in "$@"; do',
        '  printf \'%s\\n\' "$a" >> "$cap/$me.args"',
        '  case "$a" in',
        '    -*) ;;',
        '    *) if [ -z "$in" ]; then in=$a; elif [ -z "$out" ]; then out=$a; fi ;;',
        '  esac',
        'done',
        'printf \'%s\\n\' "$me" >> "$cap/calls"',
    ]
    if behaviour == 'filereq':
        # the usage error comes before anything else
        head.append('if [ -z "$in" ]; then echo "usage: $me [options] FILE"; exit 1; fi')
        read = ['{cat} "$in" > "$cap/$me.in" || exit 3'.format(cat=_CAT)]
    elif behaviour in ('stdio', 'poly', 'minisat'):
        read = ['if [ -n "$in" ]; then {cat} "$in" > "$cap/$me.in" || exit 3; '
                'else {cat} > "$cap/$me.in"; fi'.format(cat=_CAT)]
    else:
        raise ValueError(behaviour)
    body = []
    for k, a in enumerate(actions):
        if a[0] == 'read':
            body += read
        elif a[0] == 'sleep':
            body.append('sleep 0.00{}'.format(int(a[1])))
        else:
            name = '{}{:02d}'.format(a[0][0], k)
            files[name] = a[1]
            if a[0] == 'out':
                body.append('{cat} "$d/{f}"'.format(cat=_CAT, f=name))
            elif a[0] == 'err':
                body.append('{cat} "$d/{f}" >&2'.format(cat=_CAT, f=name))
            else:
                body.append('if [ -n "$out" ]; then {cat} "$d/{f}" > "$out"; fi'.format(cat=_CAT, f=name))
    return '\n'.join(head + body + [ending]) + '\n', files


# ---------------------------------------------------------------------------
# consumers: how the program takes its input (see the module docstring)

READ_MODES = ('all', 'pline', 'clause1', 'bytes', 'none')
OUT_AT = ('end', 'start', 'mid')
WATCHDOG_S = 60           # never reached on a bridge that works; the safety net against a hanging run
CONSUME_DEFAULT = {
    'read': 'all',        # all: to the end of the input; pline: up to the end of the problem line; clause1: up to the end of
                          # the first clause; bytes: 'nbytes' bytes; none: not a byte
    'nbytes': 4096,
    'chunk': 65536,       # size of one read
    'nap_every': 0,       # a pause of nap_ms milliseconds after every nap_every-th read (0: none)
    'nap_ms': 1,
    'close_early': False,  # the input is closed after the reading; the program goes on for linger_ms before it answers
    'linger_ms': 0,
    'out_at': 'end',      # standard output is written after the reading / before it / after the first 'nbytes' bytes
}

_CONSUMER = r"""#!{python} -SE
# scripted SAT solver (vlib/fakesolver.py: consumer_program)
import os, sys, select, time
ME = os.path.basename(sys.argv[0])
CAP = {cap!r}
D = {data!r}
BEH = {behaviour!r}
P = {plan!r}
WATCHDOG = {watchdog!r}
EXIT = {exit!r}


def note(kind, text):
    with open(os.path.join(CAP, ME + '.' + kind), 'a') as f:
        f.write(text + '\n')


def stuck(text):
    note('stuck', text)
    os._exit(3)


def write_all(fd, data, what):
    os.set_blocking(fd, False)
    view = memoryview(data)
    while len(view):
        _, w, _ = select.select([], [fd], [], WATCHDOG)
        if not w:
            stuck('nobody takes the bytes of ' + what + ': %d of %d written' % (len(data) - len(view), len(data)))
        try:
            k = os.write(fd, view[:65536])
        except BlockingIOError:
            continue
        except BrokenPipeError:
            note('notes', what + ' closed by the reader after %d of %d bytes' % (len(data) - len(view), len(data)))
            return
        view = view[k:]


args = sys.argv[1:]
for a in args:
    if a in ('--help', '-h', '-help', '--version', '-version', '-V'):
        sys.exit(0)
inp = out = None
with open(os.path.join(CAP, ME + '.args'), 'w') as f:
    for a in args:
        f.write(a + '\n')
        if a.startswith('-'):
            continue
        if inp is None:
            inp = a
        elif out is None:
            out = a
with open(os.path.join(CAP, 'calls'), 'a') as f:
    f.write(ME + '\n')
if BEH == 'filereq' and inp is None:
    print('usage: ' + ME + ' [options] FILE')
    sys.exit(1)
with open(os.path.join(D, 'stdout'), 'rb') as f:
    STDOUT = f.read()
RESULT = None
if os.path.exists(os.path.join(D, 'result')):
    with open(os.path.join(D, 'result'), 'rb') as f:
        RESULT = f.read()
wrote = [False]


def answer_stdout():
    if not wrote[0]:
        wrote[0] = True
        write_all(1, STDOUT, 'standard output')


if P['out_at'] == 'start':
    answer_stdout()
try:
    fd = os.open(inp, os.O_RDONLY) if inp is not None else 0
except OSError:
    sys.exit(3)
got = bytearray()
state = dict(eof=False, reads=0)


def more(limit=None):
    size = P['chunk'] if limit is None else max(1, min(P['chunk'], limit))
    r, _, _ = select.select([fd], [], [], WATCHDOG)
    if not r:
        stuck('waiting for input: neither a byte nor the end of the input arrived (%d bytes so far)' % len(got))
    b = os.read(fd, size)
    state['reads'] += 1
    if P['nap_every'] and state['reads'] % P['nap_every'] == 0:
        time.sleep(P['nap_ms'] / 1000.0)
    if not b:
        state['eof'] = True
    got.extend(b)
    if P['out_at'] == 'mid' and len(got) >= P['nbytes']:
        answer_stdout()
    return b


def line_end(kind):
    # position after the end of the problem line (kind 'p') or of the first clause line after it
    pos = 0
    seen_p = False
    while True:
        nl = got.find(b'\n', pos)
        if nl < 0:
            return None
        line = bytes(got[pos:nl]).strip()
        pos = nl + 1
        if not line or line[:1] == b'c':
            continue
        if line[:1] == b'p':
            seen_p = True
            if kind == 'p':
                return pos
            continue
        if seen_p and line.split()[-1:] == [b'0']:
            return pos


mode = P['read']
if mode == 'all':
    while more():
        pass
elif mode == 'bytes':
    while len(got) < P['nbytes'] and more(P['nbytes'] - len(got)):
        pass
elif mode in ('pline', 'clause1'):
    while line_end('p' if mode == 'pline' else 'c') is None and more():
        pass
with open(os.path.join(CAP, ME + '.in'), 'wb') as f:
    f.write(got)
note('eof', '1' if state['eof'] else '0')
if P['close_early']:
    os.close(fd)
    time.sleep(P['linger_ms'] / 1000.0)
if RESULT is not None and out is not None and P.get('res_first'):
    with open(out, 'wb') as f:
        f.write(RESULT)
answer_stdout()
if RESULT is not None and out is not None and not P.get('res_first'):
    with open(out, 'wb') as f:
        f.write(RESULT)
note('done', 'answered')
os._exit(EXIT)
"""


def consume_plan(consume):
    """CONSUME_DEFAULT updated with the entries of the case; values are validated (everything is bounded)."""
    plan = dict(CONSUME_DEFAULT)
    plan.update(consume or {})
    if plan['read'] not in READ_MODES or plan['out_at'] not in OUT_AT:
        raise ValueError("bad consumer plan {}".format(plan))
    if not (1 <= int(plan['chunk']) <= 1 << 20 and 0 <= int(plan['nbytes']) <= 1 << 22 and 0 <= int(plan['nap_every'])
            and 0 <= int(plan['nap_ms']) <= 5 and 0 <= int(plan['linger_ms']) <= 50):
        raise ValueError("consumer plan out of range {}".format(plan))
    return plan


def consumer_program(behaviour, capdir, datadir, plan, exit_status):
    return _CONSUMER.format(python=os.path.realpath(sys.executable), cap=capdir, data=datadir, behaviour=behaviour,
                            plan=plan, watchdog=float(WATCHDOG_S), exit=int(exit_status))


def consumer_output(behaviour, verdict, model, shape, n, chatter_kib=0):
    """(bytes for standard output, bytes for the result file or None) of a truthful answer; chatter_kib KiB of
    lines that are not the answer come first on standard output (comment lines; statistics for a minisat-style program)."""
    if behaviour == 'minisat':
        lines, res = render_minisat(verdict, model, shape, n)
        chat = ['|  restart {:8d} | conflicts {:10d} | learnt {:10d} | progress {:6.2f} % |'.format(i, 7 * i, 3 * i, i % 100)
                for i in range(int(chatter_kib) * 1024 // 80 + (1 if chatter_kib else 0))]
        lines = lines[:1] + chat + lines[1:]
    else:
        lines, _ = render_stdout(verdict, model, shape)
        res = render_minisat(verdict, model, shape, n)[1] if behaviour == 'poly' else None
        chat = ['c {:8d} {}'.format(i, 'search statistics ' * 4) for i in range(int(chatter_kib) * 1024 // 84 + (1 if chatter_kib else 0))]
        lines = chat + lines
    out = ('\n'.join(lines) + '\n').encode('ascii') if lines else b''
    return out, (None if res is None else res.encode('ascii'))


# ---------------------------------------------------------------------------
# the per-case sandbox

class _Fd2:
    def __init__(self, path):
        self.path = path
        self.saved = None

    def __enter__(self):
        if self.path is not None:
            fd = os.open(self.path, os.O_WRONLY | os.O_CREAT | os.O_APPEND, 0o600)
            try:
                self.saved = os.dup(2)
                os.dup2(fd, 2)
            finally:
                os.close(fd)
        return self

    def __exit__(self, *exc):
        if self.saved is not None:
            os.dup2(self.saved, 2)
            os.close(self.saved)
            self.saved = None
        return False


class Sandbox:
    """Scratch directory + process state for one case.  Use as a context manager."""

    TMP_VIA = ('both', 'tempdir', 'TMPDIR', 'TEMP')
    _ENV_KEYS = ('PATH', 'TMPDIR', 'TEMP', 'TMP')

    def __init__(self, bin_path=('bin',), tmp_path=('tmp',), tmp_via='both', extra_bins=0, capture_stderr=False):
        """bin_path / tmp_path: path components (below the scratch root) of the first
        PATH entry and of the directory for temporary files; they may contain blanks,
        quotes, non-ASCII characters, a leading dash (no '/', no ':' , no NUL/newline).
        tmp_via: how the temporary directory is announced to the process: 'both'
        (TMPDIR and tempfile.tempdir), 'tempdir' (tempfile.tempdir only), 'TMPDIR'
        (environment only, tempfile.tempdir reset so that it is looked up again),
        'TEMP' (environment variable TEMP, TMPDIR unset).
        extra_bins: number of further (plain) directories put on PATH after bin/.
        capture_stderr: quiet_stderr() sends what is written on file descriptor 2 (by this
        process and by the programs it starts) to the file self.errlog."""
        self.root = None
        self.errlog = None
        self._capture_stderr = bool(capture_stderr)
        self._saved = None
        for comp in tuple(bin_path) + tuple(tmp_path):
            if not comp or comp in ('.', '..') or any(ch in comp for ch in '/\0\n'):
                raise ValueError("bad path component {!r}".format(comp))
        if any(os.pathsep in comp for comp in bin_path):
            raise ValueError("PATH entries cannot contain {!r}".format(os.pathsep))
        if tmp_via not in self.TMP_VIA:
            raise ValueError(tmp_via)
        self._bin_path = tuple(bin_path)
        self._tmp_path = tuple(tmp_path)
        self._tmp_via = tmp_via
        self._extra_bins = int(extra_bins)

    def __enter__(self):
        self.root = tempfile.mkdtemp(prefix='c20-', dir=_BASE_TMP)
        self._saved = (dict((k, os.environ.get(k)) for k in self._ENV_KEYS), tempfile.tempdir)
        try:
            self.bin = os.path.join(self.root, 'B', *self._bin_path)
            self.tmp = os.path.join(self.root, 'T', *self._tmp_path)
            self.cap = os.path.join(self.root, 'cap')
            self.bins = [self.bin] + [os.path.join(self.root, 'bin{}'.format(i + 2))
                                      for i in range(self._extra_bins)]
            for d in self.bins + [self.tmp, self.cap]:
                os.makedirs(d)
            os.environ['PATH'] = os.pathsep.join(self.bins + _clean_path_tail())
            via = self._tmp_via
            if via == 'both':
                os.environ['TMPDIR'] = self.tmp
                tempfile.tempdir = self.tmp
            elif via == 'tempdir':
                tempfile.tempdir = self.tmp
            elif via == 'TMPDIR':
                os.environ['TMPDIR'] = self.tmp
                tempfile.tempdir = None
            else:
                os.environ.pop('TMPDIR', None)
                os.environ['TEMP'] = self.tmp
                tempfile.tempdir = None
            self._scripts = {}
            if self._capture_stderr:
                self.errlog = os.path.join(self.root, 'stderr.log')
        except BaseException:
            self.__exit__(None, None, None)
            raise
        return self

    def __exit__(self, *exc):
        env, tdir = self._saved
        for k, v in env.items():
            if v is None:
                os.environ.pop(k, None)
            else:
                os.environ[k] = v
        tempfile.tempdir = tdir
        shutil.rmtree(self.root, ignore_errors=True)
        return False

    # -- installing programs
    def install(self, name, behaviour, state, verdict, model, shape, n, where=0):
        """Put a program called `name` in bin/ (or in the where-th directory of PATH),
        replacing what is there under that name.  state: 'ok' (working fake solver),
        'noexec' (present, no execute permission), 'badformat' (executable file that
        the kernel cannot run)."""
        dest = os.path.join(self.bins[where], name)
        if os.path.lexists(dest):
            os.unlink(dest)
        if state == 'ok':
            key = behaviour
            src = self._scripts.get(key)
            if src is None:
                src = os.path.join(self.root, 'fake-' + key + '.sh')
                if shape.get('chan'):
                    datadir = os.path.join(self.root, 'fake-' + key + '.d')
                    text, files = plan_script_text(behaviour, self.cap, datadir, verdict, model, shape, n)
                    os.mkdir(datadir)
                    for fn, data in files.items():
                        with open(os.path.join(datadir, fn), 'wb') as f:
                            f.write(data)
                else:
                    text = script_text(behaviour, self.cap, verdict, model, shape, n)
                with open(src, 'w') as f:
                    f.write(text)
                os.chmod(src, 0o755)
                self._scripts[key] = src
            os.symlink(src, dest)
        elif state == 'noexec':
            with open(dest, 'w') as f:
                f.write(script_text(behaviour, self.cap, verdict, model, dict(shape, chan=None), n))
            os.chmod(dest, 0o644)
        elif state == 'badformat':
            with open(dest, 'wb') as f:
                f.write(b'\x00\x01 this is not a program\n')
            os.chmod(dest, 0o755)
        else:
            raise ValueError(state)

    def install_consumer(self, name, behaviour, plan, stdout_bytes, result_bytes, exit_status, where=0):
        """Put a consumer program (see consumer_program) called `name` in a PATH directory."""
        dest = os.path.join(self.bins[where], name)
        if os.path.lexists(dest):
            os.unlink(dest)
        datadir = os.path.join(self.root, 'consumer-{}-{}.d'.format(where, name))
        if not os.path.isdir(datadir):
            os.mkdir(datadir)
        with open(os.path.join(datadir, 'stdout'), 'wb') as f:
            f.write(stdout_bytes)
        if result_bytes is not None:
            with open(os.path.join(datadir, 'result'), 'wb') as f:
                f.write(result_bytes)
        with open(dest, 'w') as f:
            f.write(consumer_program(behaviour, self.cap, datadir, plan, exit_status))
        os.chmod(dest, 0o755)

    def remove(self, name, where=0):
        """Remove the program called `name` from the where-th directory of PATH;
        returns False when there is none."""
        dest = os.path.join(self.bins[where], name)
        if not os.path.lexists(dest):
            return False
        os.unlink(dest)
        return True

    # -- observing
    def quiet_stderr(self):
        """Context manager: while it is open file descriptor 2 is the file self.errlog
        (no-op without capture_stderr)."""
        return _Fd2(self.errlog)

    def stderr_seen(self):
        """The bytes that went to file descriptor 2 inside quiet_stderr() so far."""
        if self.errlog is None or not os.path.exists(self.errlog):
            return b''
        with open(self.errlog, 'rb') as f:
            return f.read()

    def collect(self):
        """Invocations since the last collect: list of dicts
        {name, args, input}; the capture directory is emptied."""
        calls = []
        p = os.path.join(self.cap, 'calls')
        names = []
        if os.path.exists(p):
            with open(p) as f:
                names = f.read().split('\n')[:-1]
        for nm in names:
            rec = {'name': nm, 'args': None, 'input': None}
            pa = os.path.join(self.cap, nm + '.args')
            if os.path.exists(pa):
                with open(pa) as f:
                    rec['args'] = f.read().split('\n')[:-1]
            pi = os.path.join(self.cap, nm + '.in')
            if os.path.exists(pi):
                with open(pi, 'rb') as f:
                    rec['input'] = f.read()
            for extra in ('eof', 'stuck', 'notes', 'done'):          # left by a consumer program
                pe = os.path.join(self.cap, nm + '.' + extra)
                if os.path.exists(pe):
                    with open(pe) as f:
                        rec[extra] = f.read().split('\n')[:-1]
            calls.append(rec)
        for fn in os.listdir(self.cap):
            os.unlink(os.path.join(self.cap, fn))
        return calls

    def leftovers(self):
        return sorted(os.listdir(self.tmp))

    def clear_tmp(self):
        for fn in os.listdir(self.tmp):
            p = os.path.join(self.tmp, fn)
            if os.path.isdir(p) and not os.path.islink(p):
                shutil.rmtree(p, ignore_errors=True)
            else:
                os.unlink(p)


# ---------------------------------------------------------------------------
# gated programs: overlapping calls in one process, interleaved in an order the harness owns
#
# A *gated* program (``Sandbox.install_gated``) is a Python program that serves several calls that are in flight at
# the same time.  Every call names itself with the option ``--tag=K`` of its command line.  The program
#   * reports ``K started`` (before it touches its input), ``K read`` (the input - file argument or standard input -
#     was read to the end and saved as ``<cap>/run.K.<pid>.in``) and ``K done`` (answer written) as lines written to
#     the FIFO ``<cap>/events``;
#   * waits, when the plan of call K has the gate 'start' (before the input is opened) or 'answer' (after the input
#     was read, before the answer is written), until the harness puts a byte into the FIFO ``<cap>/gate.K.<gate>``;
#     the wait is a select() guarded by WATCHDOG_S, after which the program leaves a ``stuck`` note and exits;
#   * answers for the formula it RECEIVED: the harness prepares the truthful answer of every formula of the case
#     under ``formula_key`` (a hash of the variable count and the clause set); a text that is none of them gets no
#     answer (and a ``problems`` note).
# ``Stage`` is the harness side: it owns the FIFOs, waits for events (select, no polling, no clock beyond the
# guard) and opens gates.

def formula_key(n, clauses):
    import hashlib
    clauses = sorted(sorted(int(l) for l in c) for c in clauses)
    text = str(int(n)) + '|' + str(len(clauses)) + '|' + ';'.join(' '.join(str(l) for l in c) for c in clauses)
    return hashlib.sha1(text.encode('ascii')).hexdigest()[:16]


_GATED = r"""#!{python} -SE
# scripted SAT solver (vlib/fakesolver.py: gated_program)
import os, sys, select, hashlib
ME = os.path.basename(sys.argv[0])
CAP = {cap!r}
D = {data!r}
BEH = {behaviour!r}
GATES = {gates!r}
WATCHDOG = {watchdog!r}

args = sys.argv[1:]
for a in args:
    if a in ('--help', '-h', '-help', '--version', '-version', '-V'):
        sys.exit(0)
tag = 'none'
inp = out = None
for a in args:
    if a.startswith('--tag='):
        tag = a[6:]
    elif a.startswith('-'):
        continue
    elif inp is None:
        inp = a
    elif out is None:
        out = a
RUN = os.path.join(CAP, 'run.%s.%d' % (tag, os.getpid()))
with open(RUN + '.args', 'w') as f:
    f.write(ME + '\n')
    for a in args:
        f.write(a + '\n')


def note(kind, text):
    with open(RUN + '.' + kind, 'a') as f:
        f.write(text + '\n')


def event(kind):
    fd = os.open(os.path.join(CAP, 'events'), os.O_WRONLY)
    os.write(fd, ('%s %s\n' % (tag, kind)).encode('ascii'))
    os.close(fd)


def stuck(text):
    note('stuck', text)
    os._exit(3)


def gate(kind):
    if kind not in GATES.get(tag, ()):
        return
    fd = os.open(os.path.join(CAP, 'gate.%s.%s' % (tag, kind)), os.O_RDONLY | os.O_NONBLOCK)
    r, _, _ = select.select([fd], [], [], WATCHDOG)
    if not r:
        stuck('gate %s of call %s was never opened' % (kind, tag))
    os.read(fd, 1)
    os.close(fd)


if BEH == 'filereq' and inp is None:
    print('usage: ' + ME + ' [options] FILE')
    note('problems', 'no input file on the command line')
    event('started'); event('read'); event('done')
    sys.exit(1)
event('started')
gate('start')
got = bytearray()
try:
    fd = os.open(inp, os.O_RDONLY) if inp is not None else 0
except OSError as e:
    note('problems', 'cannot open the input file: %s' % e.__class__.__name__)
    event('read'); event('done')
    os._exit(3)
while True:
    r, _, _ = select.select([fd], [], [], WATCHDOG)
    if not r:
        stuck('waiting for input: neither a byte nor the end of the input arrived (%d bytes so far)' % len(got))
    b = os.read(fd, 65536)
    if not b:
        break
    got.extend(b)
with open(RUN + '.in', 'wb') as f:
    f.write(got)


def key_of(data):
    try:
        n = None
        nums = []
        for line in data.decode('ascii').split('\n'):
            s = line.strip()
            if not s or s[0] == 'c':
                continue
            if s[0] == 'p':
                n = int(s.split()[2])
                continue
            nums.extend(int(t) for t in s.split())
        if n is None:
            return None
        clauses, cur = [], []
        for x in nums:
            if x == 0:
                clauses.append(sorted(cur))
                cur = []
            else:
                cur.append(x)
        if cur:
            return None
        text = str(n) + '|' + str(len(clauses)) + '|' + ';'.join(' '.join(str(l) for l in c) for c in sorted(clauses))
        return hashlib.sha1(text.encode('ascii')).hexdigest()[:16]
    except Exception:
        return None


KEY = key_of(bytes(got))
event('read')
gate('answer')
base = os.path.join(D, str(KEY))
if KEY is None or not os.path.exists(base + '.stdout'):
    note('problems', 'the text received is none of the formulas of the case')
    os.write(1, b'c formula not recognised\n')
    event('done')
    os._exit(1)
with open(base + '.stdout', 'rb') as f:
    STDOUT = f.read()
if out is not None and os.path.exists(base + '.result'):
    with open(base + '.result', 'rb') as f:
        RESULT = f.read()
    with open(out, 'wb') as f:
        f.write(RESULT)
view = memoryview(STDOUT)
while len(view):
    view = view[os.write(1, view):]
with open(base + '.exit') as f:
    status = int(f.read())
event('done')
os._exit(status)
"""


def gated_program(behaviour, capdir, datadir, gates):
    return _GATED.format(python=os.path.realpath(sys.executable), cap=capdir, data=datadir, behaviour=behaviour,
                         gates=dict((str(k), list(v)) for k, v in gates.items()), watchdog=float(WATCHDOG_S))


def _install_gated(self, name, behaviour, gates, answers, where=0):
    """Put a gated program called `name` in a PATH directory.  gates: {tag: ['start', 'answer']};
    answers: {formula_key: (stdout bytes, result bytes or None, exit status)}."""
    dest = os.path.join(self.bins[where], name)
    if os.path.lexists(dest):
        os.unlink(dest)
    datadir = os.path.join(self.root, 'gated-{}-{}.d'.format(where, name))
    if not os.path.isdir(datadir):
        os.mkdir(datadir)
    for key, (out, res, status) in answers.items():
        with open(os.path.join(datadir, key + '.stdout'), 'wb') as f:
            f.write(out)
        if res is not None:
            with open(os.path.join(datadir, key + '.result'), 'wb') as f:
                f.write(res)
        with open(os.path.join(datadir, key + '.exit'), 'w') as f:
            f.write(str(int(status)))
    with open(dest, 'w') as f:
        f.write(gated_program(behaviour, self.cap, datadir, gates))
    os.chmod(dest, 0o755)


Sandbox.install_gated = _install_gated


class Stage:
    """Harness side of the gated programs of one sandbox: events in, gates out.  Use as a context manager."""
    EVENTS = ('started', 'read', 'done', 'returned')
    GATES = ('start', 'answer')

    def __init__(self, sb, gates, guard_s=30.0):
        self.cap = sb.cap
        self.gates = dict((str(k), list(v)) for k, v in gates.items())
        self.guard_s = float(guard_s)
        self.seen = []              # (tag, event) in order of arrival
        self.missed = []            # (tag, event) waited for in vain
        self._buf = b''
        self._ev = None
        self._gate_fds = {}
        self._released = []

    def __enter__(self):
        p = os.path.join(self.cap, 'events')
        os.mkfifo(p)
        self._ev = os.open(p, os.O_RDWR | os.O_NONBLOCK)
        for tag, kinds in self.gates.items():
            for kind in kinds:
                if kind not in self.GATES:
                    raise ValueError(kind)
                g = os.path.join(self.cap, 'gate.{}.{}'.format(tag, kind))
                os.mkfifo(g)
                self._gate_fds[(tag, kind)] = os.open(g, os.O_RDWR | os.O_NONBLOCK)
        return self

    def __exit__(self, *exc):
        for fd in list(self._gate_fds.values()) + self._released + ([self._ev] if self._ev is not None else []):
            try:
                os.close(fd)
            except OSError:
                pass
        self._gate_fds = {}
        self._released = []
        self._ev = None
        return False

    def post(self, tag, event):
        """An event of the harness' own threads (a call returned)."""
        os.write(self._ev, '{} {}\n'.format(tag, event).encode('ascii'))

    def release(self, tag, kind):
        fd = self._gate_fds.pop((str(tag), kind), None)
        if fd is None:
            return False
        os.write(fd, b'g')
        self._released.append(fd)         # kept open: the byte waits in the FIFO until the program takes it
        return True

    def release_all(self):
        for (tag, kind) in list(self._gate_fds):
            self.release(tag, kind)

    def _pump(self, timeout):
        import select
        r, _, _ = select.select([self._ev], [], [], timeout)
        if not r:
            return False
        try:
            self._buf += os.read(self._ev, 65536)
        except BlockingIOError:
            return True
        while b'\n' in self._buf:
            line, self._buf = self._buf.split(b'\n', 1)
            parts = line.decode('ascii', 'replace').split()
            if len(parts) == 2:
                self.seen.append((parts[0], parts[1]))
        return True

    def wait(self, tag, event):
        """True when the event arrived; False when it cannot arrive any more (the call returned without it) or did
        not arrive within the guard (recorded in self.missed)."""
        import time
        tag = str(tag)
        deadline = time.monotonic() + self.guard_s
        while True:
            if (tag, event) in self.seen:
                return True
            if event != 'returned' and (tag, 'returned') in self.seen:
                self.missed.append((tag, event, 'the call returned without it'))
                return False
            left = deadline - time.monotonic()
            if left <= 0 or not self._pump(left):
                self.missed.append((tag, event, 'not within {:.0f} s'.format(self.guard_s)))
                return False

    def drain(self):
        while self._pump(0):
            pass

    def runs(self):
        """What the gated programs recorded: list of dicts {tag, pid, name, args, input, stuck, problems}."""
        out = []
        names = sorted(fn for fn in os.listdir(self.cap) if fn.startswith('run.') and fn.endswith('.args'))
        for fn in names:
            stem = fn[:-len('.args')]
            rec = {'tag': stem[len('run.'):stem.rfind('.')], 'pid': stem[stem.rfind('.') + 1:], 'input': None,
                   'stuck': None, 'problems': None}
            with open(os.path.join(self.cap, fn)) as f:
                lines = f.read().split('\n')[:-1]
            rec['name'], rec['args'] = lines[0], lines[1:]
            pi = os.path.join(self.cap, stem + '.in')
            if os.path.exists(pi):
                with open(pi, 'rb') as f:
                    rec['input'] = f.read()
            for extra in ('stuck', 'problems'):
                pe = os.path.join(self.cap, stem + '.' + extra)
                if os.path.exists(pe):
                    with open(pe) as f:
                        rec[extra] = f.read().split('\n')[:-1]
            out.append(rec)
        return out
