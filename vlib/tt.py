"""Complete truth tables as Python big integers (bit-vectors of 2^n rows).

Row a (0 <= a < 2^n) is the assignment in which variable i (1-based) has the
value of bit i-1 of a.  ``var_mask(n, i)`` has bit a set iff variable i is true
in row a.  All formulas are evaluated on all 2^n rows at once.
"""
from functools import lru_cache

MAXVARS = 24


class Batch:
    """A chosen set of K assignments over n variables, usable wherever the functions of this module
    take the number of variables ``n``: row r is the r-th assignment, ``full(B)`` has K bits and
    ``var_mask(B, i)`` tells in which rows variable i is true.  This lets the very same reference
    predicates be evaluated on a sample of assignments when 2^n rows are out of reach."""

    def __init__(self, n, assignments):
        """assignments: iterable of sets (or iterables) of the variables that are true"""
        self.n = n
        self.rows = [frozenset(a) for a in assignments]
        self.K = len(self.rows)
        self.full = (1 << self.K) - 1
        self.masks = [0] * (n + 1)
        for r, a in enumerate(self.rows):
            bit = 1 << r
            for v in a:
                self.masks[v] |= bit

    def var(self, i):
        assert 1 <= i <= self.n, (self.n, i)
        return self.masks[i]

    def row(self, r):
        return [v if v in self.rows[r] else -v for v in range(1, self.n + 1)]


@lru_cache(maxsize=None)
def _full_int(n):
    return (1 << (1 << n)) - 1


def full(n):
    if isinstance(n, Batch):
        return n.full
    return _full_int(n)


def var_mask(n, i):
    """Mask of rows where variable i (1..n) is true."""
    if isinstance(n, Batch):
        return n.var(i)
    return _var_mask_int(n, i)


@lru_cache(maxsize=None)
def _var_mask_int(n, i):
    assert 1 <= i <= n, (n, i)
    block = 1 << (i - 1)                 # run length
    unit = ((1 << block) - 1) << block   # 0..0 1..1 pattern of length 2*block
    period = 2 * block
    total = 1 << n
    # replicate unit total/period times
    reps = total // period
    mask = unit
    length = period
    while reps > 1:
        # double
        mask = mask | (mask << length)
        length *= 2
        reps //= 2
    return mask


def lit_mask(n, lit):
    m = var_mask(n, abs(lit))
    return m if lit > 0 else full(n) & ~m


def clause_tt(n, clause):
    r = 0
    for l in clause:
        r |= lit_mask(n, l)
    return r


def cnf_tt(n, clauses):
    r = full(n)
    for c in clauses:
        r &= clause_tt(n, c)
        if not r:
            return 0
    return r


# ---- bit-sliced arithmetic over rows

def add_bit(slices, mask, pos=0):
    """Add 2^pos * mask (a 0/1 value per row) to the bit-sliced number."""
    carry = mask
    i = pos
    while carry:
        if i >= len(slices):
            slices.extend([0] * (i + 1 - len(slices)))
        s = slices[i]
        slices[i] = s ^ carry
        carry = s & carry
        i += 1


def weighted_sum(n, terms):
    """terms: iterable of (coeff>=0, mask). Returns bit slices (LSB first)."""
    slices = []
    for c, m in terms:
        assert c >= 0
        pos = 0
        while c:
            if c & 1:
                add_bit(slices, m, pos)
            c >>= 1
            pos += 1
    return slices


def cmp_geq(n, slices, d):
    """Mask of rows where the bit-sliced value >= d."""
    F = full(n)
    if d <= 0:
        return F
    if d >= (1 << len(slices)):
        return 0
    # compare from MSB: value > d-1
    t = d - 1
    gt = 0
    eq = F
    for i in range(len(slices) - 1, -1, -1):
        s = slices[i]
        if (t >> i) & 1:
            eq &= s
        else:
            gt |= eq & s
            eq &= F & ~s
    return gt


def cmp_eq(n, slices, d):
    F = full(n)
    if d < 0 or d >= (1 << len(slices)):
        return 0
    eq = F
    for i in range(len(slices)):
        s = slices[i]
        if (d >> i) & 1:
            eq &= s
        else:
            eq &= F & ~s
    return eq


def count_slices(n, masks):
    """Bit-sliced count of true masks per row."""
    return weighted_sum(n, ((1, m) for m in masks))


def at_least(n, masks, k):
    return cmp_geq(n, count_slices(n, list(masks)), k)


def at_most(n, masks, k):
    F = full(n)
    return F & ~cmp_geq(n, count_slices(n, list(masks)), k + 1)


def exactly(n, masks, k):
    masks = list(masks)
    if k < 0 or k > len(masks):
        return 0
    return cmp_eq(n, count_slices(n, masks), k)


def xor_all(n, masks):
    r = 0
    for m in masks:
        r ^= m
    return r


def neg(n, m):
    return full(n) & ~m


def opb_constraint_tt(n, constraint):
    """constraint = [(c,l),...,op,d] with op in >=,== and c>0 (normalised),
    but negative coefficients and other operators are accepted too (reference
    semantics: sum c*[l] op d)."""
    terms = constraint[:-2]
    op, d = constraint[-2], constraint[-1]
    # move negative coefficients: c*[l] = c - c*[~l]  -> (-c)*[~l] + c
    pos = []
    shift = 0
    for c, l in terms:
        if c >= 0:
            pos.append((c, lit_mask(n, l)))
        else:
            pos.append((-c, lit_mask(n, -l)))
            shift += c          # c*[l] = (-c)*[~l] + c  (c negative)
    d = d - shift
    sl = weighted_sum(n, pos)
    F = full(n)
    if op == '>=':
        return cmp_geq(n, sl, d)
    if op == '>':
        return cmp_geq(n, sl, d + 1)
    if op == '<=':
        return F & ~cmp_geq(n, sl, d + 1)
    if op == '<':
        return F & ~cmp_geq(n, sl, d)
    if op in ('==', '='):
        return cmp_eq(n, sl, d)
    if op == '!=':
        return F & ~cmp_eq(n, sl, d)
    raise ValueError(op)


def opb_tt(n, constraints):
    r = full(n)
    for c in constraints:
        r &= opb_constraint_tt(n, c)
        if not r:
            return 0
    return r


def formula_tt(F, env=None):
    """Truth table of a cnfgen CNF or OPB object (on all rows, or on the rows of a Batch)."""
    from cnfgen.formula.baseopb import BaseOPB
    n = F.number_of_variables() if env is None else env
    if isinstance(F, BaseOPB):
        return opb_tt(n, list(F))
    return cnf_tt(n, list(F))


def popcount(x):
    return x.bit_count()


def first_row(x):
    """Index of the lowest set bit (a witness row), or None."""
    if not x:
        return None
    return (x & -x).bit_length() - 1


def row_assignment(n, a):
    return [(i if (a >> (i - 1)) & 1 else -i) for i in range(1, n + 1)]
