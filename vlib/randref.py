"""Reference computations for C13 (random k-CNF / k-XOR).

Everything here is written from the meaning of the objects (clauses, parity
constraints, total assignments) and shares no code with the tree:

* brute-force counts of the k-clauses / k-parities compatible with a set of
  planted total assignments (the "max" of the property statement),
* an order-independent decoder of the CNF encoding of a set of parities,
* Gaussian elimination over GF(2) giving the solution set as a truth-table mask
  (row a of the table: variable i has the value of bit i-1 of a, as in vlib/tt),
* a strict little DIMACS reader for the command line output,
* an in-process runner for ``cnfgen.clitools.cnfgen.cli`` / ``main`` and a
  recorder of the calls of ``random.sample`` (only used to *label* the sampling
  path, never in an oracle).
"""
import io
import itertools
import random
import signal
import sys
from functools import lru_cache
from math import comb


# ---------------------------------------------------------------------------
# planted assignments

def assignment_bits(n, assignment):
    """Total assignment (sequence of n literals) -> integer with bit i-1 = value of i.

    Raises AssertionError (a harness error) when it is not a total assignment."""
    lits = list(assignment)
    # a literal may be listed more than once; opposite literals are not an assignment
    assert sorted(set(abs(l) for l in lits)) == list(range(1, n + 1)) and len(set(lits)) == n, (n, lits)
    a = 0
    for l in lits:
        if l > 0:
            a |= 1 << (l - 1)
    return a


def bits_assignment(n, a):
    return [(i if (a >> (i - 1)) & 1 else -i) for i in range(1, n + 1)]


# ---------------------------------------------------------------------------
# the number of available clauses / parities, by brute force

def clause_true(clause, abits):
    for l in clause:
        if l > 0:
            if (abits >> (l - 1)) & 1:
                return True
        elif not (abits >> (-l - 1)) & 1:
            return True
    return False


@lru_cache(maxsize=4096)
def max_clauses(k, n, planted_bits):
    """Number of clauses on k distinct variables out of n satisfied by every
    assignment in planted_bits (a tuple of integers)."""
    if k > n:
        return 0
    cnt = 0
    for dom in itertools.combinations(range(1, n + 1), k):
        for signs in itertools.product((1, -1), repeat=k):
            cl = [s * v for s, v in zip(signs, dom)]
            if all(clause_true(cl, a) for a in planted_bits):
                cnt += 1
    distinct = len(set(planted_bits))
    if distinct == 0:
        assert cnt == comb(n, k) * 2 ** k
    elif distinct == 1:
        assert cnt == comb(n, k) * (2 ** k - 1)
    return cnt


def parity_value(S, abits):
    v = 0
    for x in S:
        v ^= (abits >> (x - 1)) & 1
    return v


@lru_cache(maxsize=4096)
def max_parities(k, n, planted_bits):
    """Number of pairs (S, b), |S| = k, S subset of 1..n, b in {0,1}, with
    xor(S) = b under every assignment in planted_bits."""
    if k > n:
        return 0
    cnt = 0
    for S in itertools.combinations(range(1, n + 1), k):
        for b in (0, 1):
            if all(parity_value(S, a) == b for a in planted_bits):
                cnt += 1
    distinct = len(set(planted_bits))
    if distinct == 0:
        assert cnt == 2 * comb(n, k)
    elif distinct == 1:
        assert cnt == comb(n, k)
    return cnt


# ---------------------------------------------------------------------------
# the same two counts without enumerating the k-subsets (for n >= 13)
#
# Two variables on which every planted assignment takes the same values are
# interchangeable: the variables are partitioned into at most 2^p classes by
# their column (value under a_1, ..., value under a_p).  Whether a clause /
# parity on the variable set S is compatible with the planted assignments
# depends only on how many variables S takes from each class:
#   * a clause on S is falsified by a_j iff its signs are the opposite of a_j
#     restricted to S, so 2^k - #{distinct restrictions a_j|S} clauses on S are
#     compatible, and a_i|S = a_j|S iff i and j agree on every class S meets;
#   * the parity of a_j on S is the xor over the classes from which S takes an
#     odd number of variables of the value of a_j on that class; (S, b) is
#     compatible iff every a_j has parity b on S.

def column_classes(n, planted_bits):
    """{column: number of variables with that column}; column = tuple of the
    values of the variable under each planted assignment."""
    sizes = {}
    for i in range(n):
        col = tuple((a >> i) & 1 for a in planted_bits)
        sizes[col] = sizes.get(col, 0) + 1
    return sizes


def _class_choices(cols, sizes, k):
    """Every way of taking k variables as (c_1, ..., c_r) variables per class."""
    if not cols:
        if k == 0:
            yield ()
        return
    head, rest = cols[0], cols[1:]
    for c in range(0, min(k, sizes[head]) + 1):
        for tail in _class_choices(rest, sizes, k - c):
            yield (c,) + tail


@lru_cache(maxsize=4096)
def max_clauses_by_classes(k, n, planted_bits):
    if k > n:
        return 0
    sizes = column_classes(n, planted_bits)
    cols = sorted(sizes)
    p = len(planted_bits)
    total = 0
    for choice in _class_choices(cols, sizes, k):
        ways = 1
        for col, c in zip(cols, choice):
            ways *= comb(sizes[col], c)
        met = [col for col, c in zip(cols, choice) if c]
        restrictions = set(tuple(col[j] for col in met) for j in range(p))
        total += ways * (2 ** k - len(restrictions))
    return total


@lru_cache(maxsize=4096)
def max_parities_by_classes(k, n, planted_bits):
    if k > n:
        return 0
    sizes = column_classes(n, planted_bits)
    cols = sorted(sizes)
    p = len(planted_bits)
    total = 0
    for choice in _class_choices(cols, sizes, k):
        ways = 1
        for col, c in zip(cols, choice):
            ways *= comb(sizes[col], c)
        values = set()
        for j in range(p):
            v = 0
            for col, c in zip(cols, choice):
                if c & 1:
                    v ^= col[j]
            values.add(v)
        if p == 0:
            total += 2 * ways
        elif len(values) == 1:
            total += ways
    return total


def gf2_consistent(parities):
    """True when the system xor(S)=b has a solution (elimination, no truth table)."""
    pivots = {}
    for S, b in parities:
        r = 0
        for x in S:
            r ^= 1 << x
        while r:
            p = r.bit_length() - 1
            if p not in pivots:
                pivots[p] = (r, b)
                break
            pr, pb = pivots[p]
            r ^= pr
            b ^= pb
        else:
            if b:
                return False
    return True


# ---------------------------------------------------------------------------
# shape of a clause list

class ShapeError(Exception):
    """The clause list does not have the promised shape (message says why)."""


def check_clause_widths(clauses, k, n):
    for c in clauses:
        c = list(c)
        if not all(isinstance(l, int) and not isinstance(l, bool) for l in c):
            raise ShapeError("clause {} has a non integer literal".format(c))
        if len(c) != k:
            raise ShapeError("clause {} has {} literals instead of {}".format(c, len(c), k))
        vs = set(abs(l) for l in c)
        if len(vs) != k:
            raise ShapeError("clause {} does not mention {} distinct variables".format(c, k))
        if any(v < 1 or v > n for v in vs):
            raise ShapeError("clause {} mentions a variable outside 1..{}".format(c, n))


def check_kcnf_shape(clauses, k, n, m, planted_bits):
    """m pairwise distinct clauses, k distinct variables each, all satisfied by
    every planted assignment."""
    clauses = [list(c) for c in clauses]
    if len(clauses) != m:
        raise ShapeError("{} clauses instead of {}".format(len(clauses), m))
    check_clause_widths(clauses, k, n)
    seen = {}
    for i, c in enumerate(clauses):
        key = frozenset(c)
        if key in seen:
            raise ShapeError("clauses #{} {} and #{} {} are the same clause".format(
                seen[key], clauses[seen[key]], i, c))
        seen[key] = i
    for c in clauses:
        for a in planted_bits:
            if not clause_true(c, a):
                raise ShapeError("clause {} is falsified by the planted assignment {}".format(
                    c, bits_assignment(n, a)))


def decode_parities(clauses, k, n, m):
    """Read a clause list as the CNF encoding of m distinct parities of width k.

    Order independent.  The encoding of xor(S) = b is the set of the 2^(k-1)
    clauses on S whose number of negative literals has the parity of 1-b (each
    such clause forbids the assignments of S with the wrong parity).  Returns
    the sorted list of (S, b).  For k = 0 the parity 0=0 has no clause and 0=1
    is the empty clause, so the list cannot be recovered: returns None after
    checking that there is nothing but at most one empty clause.
    """
    clauses = [list(c) for c in clauses]
    check_clause_widths(clauses, k, n)
    if k == 0:
        e = len(clauses)
        if e > 1:
            raise ShapeError("{} empty clauses: the parity 0=1 occurs more than once".format(e))
        if e > m:
            raise ShapeError("{} empty clauses from {} parities".format(e, m))
        if m == 2 and e != 1:
            raise ShapeError("two distinct parities of width 0 must be 0=0 and 0=1, "
                             "but there is no empty clause")
        return None
    block = 2 ** (k - 1)
    if len(clauses) != m * block:
        raise ShapeError("{} clauses instead of {} = {} parities x {}".format(
            len(clauses), m * block, m, block))
    groups = {}
    for c in clauses:
        groups.setdefault(tuple(sorted(abs(l) for l in c)), []).append(c)
    parities = []
    for S, cls in groups.items():
        pats = set(frozenset(c) for c in cls)
        if len(pats) != len(cls):
            raise ShapeError("repeated clause among those on variables {}: {}".format(S, cls))
        byneg = {0: 0, 1: 0}
        for c in cls:
            byneg[sum(1 for l in c if l < 0) % 2] += 1
        for negpar in (0, 1):
            if byneg[negpar] == 0:
                continue
            if byneg[negpar] != block:
                raise ShapeError("the clauses on variables {} are not the complete encoding of "
                                 "a parity: {}".format(S, cls))
            parities.append((S, 1 - negpar))
    if len(parities) != m:
        raise ShapeError("{} distinct parities instead of {}".format(len(parities), m))
    return sorted(parities)


# ---------------------------------------------------------------------------
# linear algebra over GF(2)

def gf2_solution_mask(n, parities):
    """Truth-table mask (2^n rows) of the solutions of the system xor(S)=b."""
    pivots = {}                     # pivot bit -> (row mask, rhs), fully reduced below
    for S, b in parities:
        r = 0
        for x in S:
            r ^= 1 << (x - 1)
        # reduce by existing pivots
        for p, (pr, pb) in pivots.items():
            if (r >> p) & 1:
                r ^= pr
                b ^= pb
        if r == 0:
            if b:
                return 0            # 0 = 1
            continue
        p = r.bit_length() - 1
        # eliminate p from the others (keeps the basis reduced)
        for q in list(pivots):
            qr, qb = pivots[q]
            if (qr >> p) & 1:
                pivots[q] = (qr ^ r, qb ^ b)
        pivots[p] = (r, b)
    free = [i for i in range(n) if i not in pivots]
    # particular solution: free variables 0 -> pivot variable = rhs
    x0 = 0
    for p, (pr, pb) in pivots.items():
        if pb:
            x0 |= 1 << p
    # null space: one vector per free variable
    basis = []
    for f in free:
        v = 1 << f
        for p, (pr, pb) in pivots.items():
            if (pr >> f) & 1:
                v |= 1 << p
        basis.append(v)
    mask = 0
    x = x0
    mask |= 1 << x
    for g in range(1, 1 << len(basis)):
        x ^= basis[(g & -g).bit_length() - 1]      # Gray code walk
        mask |= 1 << x
    assert mask.bit_count() == 1 << len(basis)
    return mask


# ---------------------------------------------------------------------------
# DIMACS, strictly

def read_dimacs(text):
    """Returns (n, clauses) or raises ShapeError."""
    lines = text.split('\n')
    if lines and lines[-1] == '':
        lines.pop()
    n = None
    declared = None
    clauses = []
    for ln in lines:
        if n is None:
            if ln.startswith('c'):
                continue
            t = ln.split()
            if len(t) != 4 or t[0] != 'p' or t[1] != 'cnf':
                raise ShapeError("bad DIMACS line before the header: {!r}".format(ln))
            n, declared = int(t[2]), int(t[3])
            continue
        if ln.startswith('c'):
            continue
        t = ln.split()
        if not t or t[-1] != '0':
            raise ShapeError("bad DIMACS clause line {!r}".format(ln))
        lits = [int(x) for x in t[:-1]]
        if any(l == 0 for l in lits):
            raise ShapeError("bad DIMACS clause line {!r}".format(ln))
        clauses.append(lits)
    if n is None:
        raise ShapeError("no 'p cnf' line in the output")
    if declared != len(clauses):
        raise ShapeError("'p cnf' declares {} clauses, {} follow".format(declared, len(clauses)))
    return n, clauses


# ---------------------------------------------------------------------------
# recording the calls of random.sample (labels only)

class SampleRecorder:
    """Context manager: counts calls of random.sample by kind of population.

    The replacement delegates to the original bound method, so the stream of
    random numbers is untouched."""

    def __init__(self):
        self.range_calls = 0
        self.list_calls = 0

    def __enter__(self):
        self._orig = random.sample
        orig = self._orig

        def sample(population, k, *args, **kwargs):
            if isinstance(population, range):
                self.range_calls += 1
            else:
                self.list_calls += 1
            return orig(population, k, *args, **kwargs)
        random.sample = sample
        return self

    def __exit__(self, *exc):
        random.sample = self._orig
        return False

    def path_labels(self):
        out = []
        if self.list_calls:
            out.append('dense-path')
        elif self.range_calls:
            out.append('sparse-path')
        return out


# ---------------------------------------------------------------------------
# running the command line tool in this process

class _NonClosing(io.StringIO):
    def close(self):
        pass


class CliResult:
    __slots__ = ("kind", "value", "stdout", "stderr", "code")

    def __init__(self, kind, value=None, stdout="", stderr="", code=None):
        self.kind = kind        # 'ok' | 'clierror' | 'exit'
        self.value = value
        self.stdout = stdout
        self.stderr = stderr
        self.code = code


def reset_cli_state():
    try:
        import cnfgen.clitools.msg as msg
        if hasattr(msg, '_prefix'):
            msg._prefix = ''
    except ImportError:
        pass


def run_cli(argv, via):
    """via: 'string' | 'formula' | 'output' (cli(argv, mode=via)) or 'main'."""
    from cnfgen.clitools.cnfgen import cli, main
    from cnfgen.clitools.cmdline import CLIError
    argv = [str(a) for a in argv]
    out, err = _NonClosing(), _NonClosing()
    saved = (sys.argv, sys.stdout, sys.stderr, sys.stdin)
    handler = signal.getsignal(signal.SIGINT)
    reset_cli_state()
    res = None
    try:
        sys.stdout, sys.stderr = out, err
        sys.stdin = io.StringIO("")
        if via == 'main':
            sys.argv = list(argv)
            try:
                main()
                res = CliResult('ok', None, code=0)
            except SystemExit as e:
                res = CliResult('exit', None, code=e.code)
        else:
            try:
                v = cli(list(argv), mode=via)
                res = CliResult('ok', v)
            except CLIError as e:
                res = CliResult('clierror', str(e))
            except SystemExit as e:
                res = CliResult('exit', None, code=e.code)
    finally:
        sys.argv, sys.stdout, sys.stderr, sys.stdin = saved
        try:
            signal.signal(signal.SIGINT, handler)
        except (ValueError, TypeError):
            pass
        reset_cli_state()
    res.stdout = out.getvalue()
    res.stderr = err.getvalue()
    return res
