"""Runs a batch of command lines in this (fresh) process and prints their results as JSON.

stdin : JSON list of {"tool":..., "args":[...], "stdin":...}
stdout: JSON list of [exit code, stdout text, exception name or None]
"""
import json
import random
import sys


def main():
    from vlib import cli
    cmds = json.load(sys.stdin)
    res = []
    real_out = sys.stdout
    for i, c in enumerate(cmds):
        random.seed(1000 + i)
        r = cli.run_main(c['tool'], c['args'], c.get('stdin'))
        res.append([r.code, r.out, type(r.exc).__name__ if r.exc is not None else None])
    json.dump(res, real_out)


if __name__ == '__main__':
    main()
