"""Graph cases: JSON-able descriptions, builders into cnfgen / networkx objects,
complete enumerators for small scopes and Hypothesis strategies.

simple graph  : {'n': 4, 'edges': [[1,2],[2,4]], 'as': 'cnfgen'|'networkx'}
bipartite     : {'L': 2, 'R': 3, 'edges': [[1,3],[2,1]], 'as': ...}
digraph / dag : {'n': 4, 'edges': [[1,2],[3,1]], 'as': ...}
"""
import itertools

from hypothesis import strategies as st


# ---------------------------------------------------------------------------
# builders

def build_simple(g):
    import networkx
    from cnfgen.graphs import Graph
    kind = g.get('as', 'cnfgen')
    if kind == 'networkx':
        G = networkx.Graph()
        G.add_nodes_from(range(1, g['n'] + 1))
        G.add_edges_from((u, v) for u, v in g['edges'])
        G.name = 'nx simple graph'
        return G
    if kind == 'networkx-rev':
        # same graph, nodes inserted in decreasing order and every edge given as (larger, smaller)
        G = networkx.Graph()
        G.add_nodes_from(range(g['n'], 0, -1))
        G.add_edges_from((max(u, v), min(u, v)) for u, v in reversed(g['edges']))
        G.name = 'nx simple graph (reversed insertion)'
        return G
    if kind == 'cnfgen-grown':
        # same graph, reached through growth: start small, raise the vertex count in one step,
        # insert the edges in reverse order, exercise remove_edge on the way
        n = g['n']
        G = Graph(min(n, 1))
        G.update_vertex_number(n)
        es = list(reversed(g['edges']))
        for i, (u, v) in enumerate(es):
            G.add_edge(v, u)
            if i == 0:
                G.remove_edge(u, v)
                list(G.edges())
                G.add_edge(u, v)
        return G
    if kind in ('networkx-gaps', 'networkx-digits'):
        # same graph under labels that are not 1..n: integers with gaps (negative ones included) or strings of
        # digits; the documented numbering follows the sorted order of the labels (digit strings: as numbers)
        # (even number of edges: positive integers with gaps; odd: starting below zero)
        lab = ((lambda i: 3 * i + 2) if len(g['edges']) % 2 == 0 else (lambda i: 10 * i - 25)) if kind == 'networkx-gaps' else (lambda i: str(7 * i + 2))
        G = networkx.Graph()
        if kind == 'networkx-digits' and len(g['edges']) % 2 == 1:
            # digit strings that are different labels of equal numeric value ('01' and '1'): still one vertex each;
            # inserted in increasing order, the padded one first, so that insertion order and text order agree on the ties
            lab = lambda i: ('0' if i % 2 else '') + str((i + 1) // 2)       # noqa
            G.add_nodes_from(lab(i) for i in range(1, g['n'] + 1))
        else:
            G.add_nodes_from(lab(i) for i in range(g['n'], 0, -1))
        G.add_edges_from((lab(u), lab(v)) for u, v in g['edges'])
        G.name = 'nx simple graph (labels with gaps)'
        return G
    if kind in ('cnfgen-batch', 'cnfgen-batch-iter'):
        # same graph inserted in one call, the pairs in a shuffled order and with either endpoint first;
        # '-iter': the batch is a one-shot iterator, not a list
        r = _rng(g)
        es = [tuple(e) if r.random() < 0.5 else (e[1], e[0]) for e in g['edges']]
        r.shuffle(es)
        G = Graph(g['n'])
        G.add_edges_from(es if kind == 'cnfgen-batch' else (p for p in es))
        return G
    if kind == 'cnfgen-readd':
        # same graph after every third edge was removed (named in either orientation) and put back the other way round
        r = _rng(g)
        G = Graph(g['n'])
        for u, v in g['edges']:
            G.add_edge(u, v)
        for i, (u, v) in enumerate(g['edges']):
            if i % 3 == 0:
                a, b = (u, v) if r.random() < 0.5 else (v, u)
                G.remove_edge(a, b)
                G.remove_edge(a, b)
                G.add_edge(b, a)
        return G
    if kind == 'cnfgen-pruned':
        # same graph reached from a denser one: extra edges are inserted and removed again (named in either orientation),
        # and the order is "raised" to values that are not larger than the current one (documented as no change)
        r = _rng(g)
        n = g['n']
        have = [tuple(e) for e in g['edges']]          # as described: either orientation
        named = set(frozenset(e) for e in have)
        allp = [(u, v) for u in range(1, n + 1) for v in range(u + 1, n + 1) if frozenset((u, v)) not in named]
        extra = r.sample(allp, min(len(allp), 2 + len(named) // 2))
        G = Graph(n)
        mixed = [(e, True) for e in have] + [(e, False) for e in extra]
        r.shuffle(mixed)
        for (u, v), _keep in mixed:
            G.add_edge(u, v)
        G.update_vertex_number(max(0, n - 2))
        for (u, v) in extra:
            if r.random() < 0.5:
                u, v = v, u
            G.remove_edge(u, v)
        G.update_vertex_number(n)
        G.update_vertex_number(max(0, n - 1))      # "raises the number of vertices to": a smaller value changes nothing
        G.update_vertex_number(0)
        return G
    if kind in ('networkx-shuffled', 'networkx-directed'):
        r = _rng(g)
        nodes = list(range(1, g['n'] + 1))
        r.shuffle(nodes)
        es = [tuple(e) if r.random() < 0.5 else (e[1], e[0]) for e in g['edges']]
        r.shuffle(es)
        if kind == 'networkx-directed':
            # a directed networkx graph is a legal description of a simple graph: arcs in either direction, some in both
            G = networkx.DiGraph()
            G.add_nodes_from(nodes)
            G.add_edges_from(es)
            G.add_edges_from((v, u) for i, (u, v) in enumerate(es) if i % 3 == 0)
            G.name = 'nx digraph standing for a simple graph'
            return G
        G = networkx.Graph()
        G.add_nodes_from(nodes)
        G.add_edges_from(es)
        G.name = 'nx simple graph (shuffled insertion)'
        return G
    if kind == 'cnfgen-rejected':
        # same graph on an object that has seen refused calls: illegal single edges and a batch refused half way
        n = g['n']
        G = Graph(n)
        es = [tuple(e) for e in g['edges']]
        for u, v in ((0, 1), (n + 1, 1), (1, n + 1), (1, 1), (n, -1)):
            _refused(G.add_edge, u, v)
        half = list(reversed(es))[:(len(es) + 1) // 2]
        _refused(G.add_edges_from, [(v, u) for u, v in half] + [(n + 1, 1)] + es)
        for u, v in es:
            G.add_edge(u, v)
            _refused(G.add_edge, u, n + 1)
        return G
    G = Graph(g['n'])
    for u, v in g['edges']:
        G.add_edge(u, v)
    return G


def _rng(g):
    """a private generator that depends on the graph description only"""
    import random
    es = g.get('edges', [])
    return random.Random(len(es) * 7919 + sum((i + 1) * (3 * u + 5 * v) for i, (u, v) in enumerate(es)) + 31 * g.get('n', g.get('L', 0)))


def _refused(fn, *args):
    """call that the library is expected to refuse (or, for edges that happen to be legal, to accept)"""
    try:
        fn(*args)
    except ValueError:
        pass


def build_bipartite(g):
    import networkx
    from cnfgen.graphs import BipartiteGraph
    L, R = g['L'], g['R']
    kind = g.get('as', 'cnfgen')
    if kind == 'networkx':
        G = networkx.Graph()
        # the side of a vertex may be given as 0/1 or as the text '0'/'1' (what a GML or DOT file delivers): both are
        # documented; graphs with an odd number of edges use the text form
        zero, one = ('0', '1') if len(g['edges']) % 2 else (0, 1)
        G.add_nodes_from(range(1, L + 1), bipartite=zero)
        G.add_nodes_from(range(L + 1, L + R + 1), bipartite=one)
        G.add_edges_from((u, L + v) for u, v in g['edges'])
        G.name = 'nx bipartite graph'
        return G
    if kind == 'networkx-rl':
        # same graph: the two sides are inserted interleaved starting with a right vertex (the order
        # inside each side is kept, which is what fixes the numbering), string labels, and every
        # edge is given as (right, left): networkx then reports edges starting from the right side
        G = networkx.Graph()
        for i in range(1, max(L, R) + 1):
            if i <= R:
                G.add_node('r{:03d}'.format(i), bipartite=1)
            if i <= L:
                G.add_node('l{:03d}'.format(i), bipartite=0)
        G.add_edges_from(('r{:03d}'.format(v), 'l{:03d}'.format(u)) for u, v in reversed(g['edges']))
        G.name = 'nx bipartite graph (right side first)'
        return G
    if kind == 'networkx-gaps':
        # integer labels that are neither contiguous nor grouped by side; the numbering inside a side follows insertion
        G = networkx.Graph()
        for i in range(1, max(L, R) + 1):
            if i <= L:
                G.add_node(20 * i + 3, bipartite=0)
            if i <= R:
                G.add_node(20 * i - 4, bipartite=1)
        G.add_edges_from((20 * v - 4, 20 * u + 3) if (u + v) % 2 else (20 * u + 3, 20 * v - 4) for u, v in g['edges'])
        G.name = 'nx bipartite graph (labels with gaps)'
        return G
    if kind == 'cnfgen-complete-class' and len(g['edges']) == L * R:
        from cnfgen.graphs import CompleteBipartiteGraph
        return CompleteBipartiteGraph(L, R)          # the class the 'complete L R' construction uses (it stores no edges)
    if kind == 'networkx-directed':
        # a directed networkx graph with arcs left->right and right->left describes the same bipartite graph
        r = _rng(g)
        G = networkx.DiGraph()
        G.add_nodes_from(range(1, L + 1), bipartite=0)
        G.add_nodes_from(range(L + 1, L + R + 1), bipartite=1)
        for u, v in g['edges']:
            if r.random() < 0.5:
                G.add_edge(u, L + v)
            else:
                G.add_edge(L + v, u)
        G.name = 'nx bipartite digraph'
        return G
    if kind == 'networkx-shuffled':
        r = _rng(g)
        nodes = [('l', i) for i in range(1, L + 1)] + [('r', i) for i in range(1, R + 1)]
        order = {}
        # the numbering inside a side follows insertion: keep each side in order, interleave the two sides at random
        li, ri = 1, 1
        G = networkx.Graph()
        while li <= L or ri <= R:
            if ri > R or (li <= L and r.random() < 0.5):
                G.add_node('left-{:03d}'.format(li), bipartite=0)
                li += 1
            else:
                G.add_node('right-{:03d}'.format(ri), bipartite=1)
                ri += 1
        es = [('left-{:03d}'.format(u), 'right-{:03d}'.format(v)) for u, v in g['edges']]
        es = [e if r.random() < 0.5 else (e[1], e[0]) for e in es]
        r.shuffle(es)
        G.add_edges_from(es)
        G.name = 'nx bipartite graph (shuffled insertion)'
        return G
    B = BipartiteGraph(L, R)
    if kind == 'cnfgen-batch':
        r = _rng(g)
        es = [tuple(e) for e in g['edges']]
        r.shuffle(es)
        B.add_edges_from(p for p in es)
        return B
    if kind == 'cnfgen-rejected':
        es = [tuple(e) for e in g['edges']]
        for u, v in ((0, 1), (L + 1, 1), (1, R + 1), (1, 0), (-1, 1)):
            _refused(B.add_edge, u, v)
        half = list(reversed(es))[:(len(es) + 1) // 2]
        _refused(B.add_edges_from, half + [(L + 1, R + 1)] + es)
        for u, v in es:
            B.add_edge(u, v)
            _refused(B.add_edge, u, R + 1)
        return B
    if kind == 'cnfgen-inspected':
        # same graph, but its views are read while it is only half built (lazy indexes must not go stale)
        es = g['edges']
        for u, v in es[:len(es) // 2]:
            B.add_edge(u, v)
        for v in range(1, R + 1):
            B.left_neighbors(v), B.left_degree(v)
        for u in range(1, L + 1):
            B.right_neighbors(u)
        list(B.edges())
        for u, v in es[len(es) // 2:]:
            B.add_edge(u, v)
        return B
    for u, v in g['edges']:
        B.add_edge(u, v)
    return B


def build_digraph(g):
    import networkx
    from cnfgen.graphs import DirectedGraph
    if g.get('as', 'cnfgen') == 'networkx':
        G = networkx.DiGraph()
        G.add_nodes_from(range(1, g['n'] + 1))
        G.add_edges_from((u, v) for u, v in g['edges'])
        G.name = 'nx digraph'
        return G
    if g.get('as') == 'networkx-rev':
        G = networkx.DiGraph()
        G.add_nodes_from(range(g['n'], 0, -1))
        G.add_edges_from((u, v) for u, v in reversed(g['edges']))
        G.name = 'nx digraph (reversed insertion)'
        return G
    if g.get('as') == 'networkx-gaps':
        lab = (lambda i: 3 * i + 2) if len(g['edges']) % 2 == 0 else (lambda i: 10 * i - 25)      # noqa
        G = networkx.DiGraph()
        G.add_nodes_from(lab(i) for i in range(g['n'], 0, -1))
        G.add_edges_from((lab(u), lab(v)) for u, v in g['edges'])
        G.name = 'nx digraph (labels with gaps)'
        return G
    if g.get('as') == 'networkx-shuffled':
        r = _rng(g)
        nodes = list(range(1, g['n'] + 1))
        r.shuffle(nodes)
        es = [tuple(e) for e in g['edges']]
        r.shuffle(es)
        G = networkx.DiGraph()
        G.add_nodes_from(nodes)
        G.add_edges_from(es)
        G.name = 'nx digraph (shuffled insertion)'
        return G
    D = DirectedGraph(g['n'])
    if g.get('as') == 'cnfgen-batch':
        r = _rng(g)
        es = [tuple(e) for e in g['edges']]
        r.shuffle(es)
        D.add_edges_from(p for p in es)
        return D
    if g.get('as') == 'cnfgen-rejected':
        n = g['n']
        es = [tuple(e) for e in g['edges']]
        sinks = [v for v in range(1, n + 1) if not any(u == v for u, _ in es)]
        for u, v in [(0, 1), (n + 1, 1), (1, 0)] + [(v, n + 1) for v in sinks] + [(n + 1, v) for v in range(1, n + 1)]:
            _refused(D.add_edge, u, v)
        half = list(reversed(es))[:(len(es) + 1) // 2]
        _refused(D.add_edges_from, half + [(1, n + 1)] + es)
        for u, v in es:
            D.add_edge(u, v)
            _refused(D.add_edge, v, n + 1)
        return D
    for u, v in g['edges']:
        D.add_edge(u, v)
    return D


# rotations used by the enumerated slices so that every way of handing over a graph meets every shape
SIMPLE_ROT = ('networkx', 'cnfgen', 'cnfgen-grown', 'cnfgen-batch', 'networkx-rev', 'networkx-gaps', 'cnfgen-rejected', 'cnfgen', 'networkx-digits',
              'cnfgen-batch-iter', 'networkx-shuffled', 'cnfgen-readd', 'cnfgen', 'cnfgen-pruned', 'networkx-directed')
BIP_ROT = ('networkx', 'cnfgen', 'networkx-rl', 'cnfgen-inspected', 'cnfgen-complete-class', 'networkx-gaps', 'cnfgen-rejected', 'cnfgen-batch',
           'networkx-shuffled', 'cnfgen', 'cnfgen-complete-class', 'networkx-directed')
DAG_ROT = ('networkx', 'cnfgen', 'networkx-rev', 'cnfgen-rejected', 'cnfgen-batch', 'networkx-gaps', 'cnfgen', 'networkx-shuffled')


# ---------------------------------------------------------------------------
# complete enumerators

def all_pairs(n):
    return [(u, v) for u in range(1, n + 1) for v in range(u + 1, n + 1)]


def all_simple_graphs(nmax, nmin=0):
    for n in range(nmin, nmax + 1):
        P = all_pairs(n)
        for mask in range(1 << len(P)):
            yield {'n': n, 'edges': [list(p) for i, p in enumerate(P) if (mask >> i) & 1]}


def all_bipartite_graphs(Lmax, Rmax, Lmin=0, Rmin=0):
    for L in range(Lmin, Lmax + 1):
        for R in range(Rmin, Rmax + 1):
            P = [(u, v) for u in range(1, L + 1) for v in range(1, R + 1)]
            for mask in range(1 << len(P)):
                yield {'L': L, 'R': R, 'edges': [list(p) for i, p in enumerate(P) if (mask >> i) & 1]}


def all_dags(nmax, nmin=1):
    """All DAGs whose vertices are in topological order (edges u<v)."""
    for g in all_simple_graphs(nmax, nmin):
        yield g


def all_digraphs(nmax, nmin=0, loops=False):
    for n in range(nmin, nmax + 1):
        P = [(u, v) for u in range(1, n + 1) for v in range(1, n + 1) if loops or u != v]
        for mask in range(1 << len(P)):
            yield {'n': n, 'edges': [list(p) for i, p in enumerate(P) if (mask >> i) & 1]}


# ---------------------------------------------------------------------------
# strategies

def _edge_subset(draw, P, max_edges=None):
    """A subset of the pairs P: sparse or (by complement) dense."""
    if not P:
        return []
    chosen = draw(st.lists(st.sampled_from(P), unique=True, max_size=len(P)))
    if draw(st.booleans()):
        cs = set(chosen)
        chosen = [p for p in P if p not in cs]
    chosen = sorted(chosen)
    if max_edges is not None and len(chosen) > max_edges:
        chosen = chosen[:max_edges]
    return [list(p) for p in chosen]


@st.composite
def simple_graphs(draw, nmin=0, nmax=7, max_edges=None, kinds=('cnfgen', 'networkx', 'networkx-rev', 'cnfgen-grown', 'networkx-gaps', 'networkx-digits', 'cnfgen-rejected',
                         'cnfgen-batch', 'cnfgen-batch-iter', 'networkx-shuffled', 'cnfgen-readd', 'cnfgen-pruned', 'networkx-directed')):
    n = draw(st.integers(nmin, nmax))
    edges = _edge_subset(draw, all_pairs(n), max_edges)
    return {'n': n, 'edges': edges, 'as': draw(st.sampled_from(list(kinds)))}


@st.composite
def bipartite_graphs(draw, Lmin=0, Lmax=4, Rmin=0, Rmax=5, max_edges=None, kinds=('cnfgen', 'networkx', 'networkx-rl', 'cnfgen-inspected', 'networkx-gaps', 'cnfgen-rejected', 'cnfgen-batch', 'networkx-shuffled',
                            'cnfgen-complete-class', 'networkx-directed')):
    L = draw(st.integers(Lmin, Lmax))
    R = draw(st.integers(Rmin, Rmax))
    P = [(u, v) for u in range(1, L + 1) for v in range(1, R + 1)]
    edges = _edge_subset(draw, P, max_edges)
    return {'L': L, 'R': R, 'edges': edges, 'as': draw(st.sampled_from(list(kinds)))}


@st.composite
def dags(draw, nmin=1, nmax=7, max_edges=None, kinds=('cnfgen', 'networkx', 'networkx-rev', 'networkx-gaps', 'cnfgen-rejected', 'cnfgen-batch', 'networkx-shuffled')):
    return draw(simple_graphs(nmin=nmin, nmax=nmax, max_edges=max_edges, kinds=kinds))


@st.composite
def digraphs(draw, nmin=0, nmax=5, kinds=('cnfgen', 'networkx', 'networkx-gaps', 'cnfgen-rejected', 'cnfgen-batch', 'networkx-shuffled'), loops=False, max_edges=None):
    n = draw(st.integers(nmin, nmax))
    P = [(u, v) for u in range(1, n + 1) for v in range(1, n + 1) if loops or u != v]
    edges = _edge_subset(draw, P, max_edges)
    return {'n': n, 'edges': edges, 'as': draw(st.sampled_from(list(kinds)))}


# ---------------------------------------------------------------------------
# plain graph algorithms for oracles (no cnfgen code involved)

def adjacency(n, edges):
    adj = {u: set() for u in range(1, n + 1)}
    for u, v in edges:
        adj[u].add(v)
        adj[v].add(u)
    return adj


def components(n, edges):
    adj = adjacency(n, edges)
    seen = set()
    comps = []
    for s in range(1, n + 1):
        if s in seen:
            continue
        comp = []
        stack = [s]
        seen.add(s)
        while stack:
            x = stack.pop()
            comp.append(x)
            for y in adj[x]:
                if y not in seen:
                    seen.add(y)
                    stack.append(y)
        comps.append(sorted(comp))
    return comps


def count_perfect_matchings(n, edges):
    adj = adjacency(n, edges)

    def rec(free):
        if not free:
            return 1
        u = min(free)
        tot = 0
        for v in adj[u]:
            if v in free and v != u:
                tot += rec(free - {u, v})
        return tot
    return rec(frozenset(range(1, n + 1)))


def graph_labels(n, edges):
    labels = []
    deg = {u: 0 for u in range(1, n + 1)}
    for u, v in edges:
        deg[u] += 1
        deg[v] += 1
    if n == 0:
        labels.append('null-graph')
    if any(d == 0 for d in deg.values()):
        labels.append('isolated-vertex')
    if n and len(components(n, edges)) > 1:
        labels.append('disconnected')
    if not edges:
        labels.append('no-edges')
    return labels
