"""Decoding variables by their documented names.

``decode(F)`` returns {(prefix, index tuple): variable id} from
``F.all_variable_labels()``.  A label is split into the text before the first
digit group (with brackets, underscores and braces removed) and the integers it
contains: 'p_{3,2}' -> ('p', (3, 2)); 'v(2,0)' -> ('v', (2, 0)); 'x_{1}' ->
('x', (1,)); 'Y' -> ('Y', ()).
"""
import re

_num = re.compile(r'\d+')
_clean = re.compile(r'[\s_{}()\[\],=^]')


def parse_label(label):
    m = _num.search(label)
    if m is None:
        return _clean.sub('', label), ()
    prefix = _clean.sub('', label[:m.start()])
    nums = tuple(int(x) for x in _num.findall(label))
    return prefix, nums


def decode(F):
    out = {}
    for vid, lab in enumerate(F.all_variable_labels(), start=1):
        key = parse_label(lab)
        if key in out:
            raise KeyError("two variables with the same name {!r} ({} and {})".format(lab, out[key], vid))
        out[key] = vid
    return out


def group(dec, prefix):
    """{index tuple: id} for one prefix."""
    return {idx: v for (p, idx), v in dec.items() if p == prefix}
