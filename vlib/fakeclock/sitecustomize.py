"""Loaded at interpreter start-up when this directory is on PYTHONPATH: shifts the clock the process sees by
VERIF_CLOCK_OFFSET seconds (time.time, localtime, gmtime, strftime, ctime, asctime, datetime.date.today,
datetime.datetime.now / today / utcnow).  Used by checks that run a tool as a real process "on another day".
Without the environment variable nothing is changed."""
import os

_off = os.environ.get('VERIF_CLOCK_OFFSET')
if _off:
    import time
    import datetime
    _off = float(_off)
    _time, _lt, _gt, _sf, _ct, _at = time.time, time.localtime, time.gmtime, time.strftime, time.ctime, time.asctime
    time.time = lambda: _time() + _off
    time.time_ns = lambda: int((_time() + _off) * 1e9)
    time.localtime = lambda secs=None: _lt(_time() + _off if secs is None else secs)
    time.gmtime = lambda secs=None: _gt(_time() + _off if secs is None else secs)
    time.strftime = lambda fmt, t=None: _sf(fmt, time.localtime() if t is None else t)
    time.ctime = lambda secs=None: _ct(_time() + _off if secs is None else secs)
    time.asctime = lambda t=None: _at(time.localtime() if t is None else t)

    class date(datetime.date):
        @classmethod
        def today(cls):
            return cls.fromtimestamp(time.time())

    class _dt(datetime.datetime):
        @classmethod
        def now(cls, tz=None):
            return cls.fromtimestamp(time.time(), tz)

        @classmethod
        def today(cls):
            return cls.fromtimestamp(time.time())

        @classmethod
        def utcnow(cls):
            return cls.fromtimestamp(time.time(), datetime.timezone.utc).replace(tzinfo=None)

    _dt.__name__ = _dt.__qualname__ = 'datetime'
    datetime.date = date
    datetime.datetime = _dt
