"""A sub-check that re-runs cases of the other sub-checks of a property *after other work in the same
process*: formulas must not depend on what the program did before (objects handed out by library
constructors and then edited by the caller, earlier formulas, earlier command lines)."""
import itertools

from hypothesis import strategies as st

from vlib.core import SubCheck, Violation, Outcome
from vlib import cli

_POOLS = {}

CLI_PREFIX = [['kcolor', '3', 'complete', '4', 'splitedges', '1'], ['kcolor', '2', 'complete', '3', 'addedges', '0', 'splitedges', '2'],
              ['kclique', '3', 'complete', '5', 'splitedges', '1'], ['op', '4'], ['op', '3', '--total'], ['peb', 'pyramid', '2', '-T', 'xor', '2'],
              ['tseitin', 'first', 'complete', '4'], ['stone', '2', 'path', '3'], ['ram', '3', '3', '5'], ['vdw', '5', '2', '3'],
              ['gop', 'complete', '4', 'splitedges', '1'], ['php', '3', '2', '-T', 'shuffle'], ['matching', 'complete', '4', 'splitedges', '1'],
              ['gphp', 'complete', '3', '2', 'addedges', '0'], ['gphp', 'glrd', '4', '3', '2', 'plantbiclique', '2', '2'],
              ['subsetcard', 'regular', '4', '4', '2'], ['bphp', '3', '2'], ['count', '5', '2'], ['cliquecoloring', '4', '2', '2'],
              ['domset', '2', 'grid', '2', '3'], ['iso', 'complete', '3'], ['ec', 'complete', '4', 'splitedges', '1'], ['tiling', 'torus', '2', '2']]


def _pool(subchecks, name):
    key = (id(subchecks), name)
    if key not in _POOLS:
        sc = next(x for x in subchecks if x.name == name)
        _POOLS[key] = list(itertools.islice(sc.enumerate_cases('quick'), 0, 4000, 7))[:300]
    return _POOLS[key]


def prefix_action(subchecks, act):
    """work a program may legitimately do before asking for a formula; the objects it obtained are its own to edit"""
    from cnfgen import graphs as G_
    kind = act[0]
    if kind == 'complete':
        n, how = act[1], act[2]
        G = G_.Graph.complete_graph(n)
        if how == 'remove' and n >= 2:
            G.remove_edge(1, n)
        elif how == 'grow':
            G.update_vertex_number(n + 2)
            G.add_edge(1, n + 2)
        elif how == 'split' and n >= 2:
            G_.split_random_edges(G, 1, seed=act[3])
        elif how == 'name':
            G.name = 'edited'
    elif kind == 'other-graph':
        n = act[1]
        for H in (G_.Graph.empty_graph(n), G_.Graph.star_graph(n), G_.Graph.null_graph()):
            if H.number_of_vertices() >= 2:
                if H.has_edge(1, 2):
                    H.remove_edge(1, 2)
                else:
                    H.add_edge(1, 2)
            H.update_vertex_number(H.number_of_vertices() + 1)
    elif kind == 'dag':
        D = {'pyramid': G_.dag_pyramid, 'tree': G_.dag_complete_binary_tree, 'path': G_.dag_path}[act[1]](act[2])
        n = D.number_of_vertices()
        if n >= 3 and not D.has_edge(1, n):
            D.add_edge(1, n)
        D.name = 'edited'
    elif kind == 'bipartite':
        L, R = act[1], act[2]
        for B in (G_.bipartite_shift(L, R, [0]), G_.CompleteBipartiteGraph(L, R), G_.BipartiteGraph(L, R)):
            B.left_neighbors(R)
            B.right_neighbors(1)
            if not B.has_edge(1, R):
                B.add_edge(1, R)
    elif kind == 'cli':
        r = cli.run_main('cnfgen', ['-q'] + act[1], None)
        if r.exc is not None:
            raise r.exc
    elif kind == 'case':
        sc = next(x for x in subchecks if x.name == act[1])
        p = _pool(subchecks, act[1])
        sc.run_case(p[act[2] % len(p)])
    else:
        raise ValueError(kind)


def make(subchecks, inner, as_prefix, required_labels, special=None, quick=400, thorough=20000):
    """inner: names of the sub-checks (with enumerators) whose cases are re-run; as_prefix: those that may be run before"""

    def run_after(case):
        for act in case['prefix']:
            prefix_action(subchecks, act)
        sc = next(x for x in subchecks if x.name == case['sub'])
        p = _pool(subchecks, case['sub'])
        try:
            out = sc.run_case(p[case['idx'] % len(p)])
        except Violation as v:
            raise Violation("after the calls {}: {}".format(case['prefix'], v))
        labels = ['after:' + a[0] for a in case['prefix']] + ['then:' + case['sub']]
        if special is not None:
            labels += special(case, out)
        return Outcome(labels=labels, nontrivial=bool(case['prefix']) and out.nontrivial, rejected=out.rejected)

    @st.composite
    def strat_after(draw):
        act = st.one_of(
            st.tuples(st.just('complete'), st.integers(1, 6), st.sampled_from(['remove', 'grow', 'split', 'name']), st.integers(0, 99)).map(list),
            st.tuples(st.just('complete'), st.integers(2, 5), st.sampled_from(['remove', 'grow', 'split']), st.integers(0, 99)).map(list),
            st.tuples(st.just('other-graph'), st.integers(0, 5)).map(list),
            st.tuples(st.just('dag'), st.sampled_from(['pyramid', 'tree', 'path']), st.integers(0, 3)).map(list),
            st.tuples(st.just('bipartite'), st.integers(1, 4), st.integers(1, 4)).map(list),
            st.tuples(st.just('cli'), st.sampled_from(CLI_PREFIX)).map(list),
            st.tuples(st.just('case'), st.sampled_from(as_prefix), st.integers(0, 299)).map(list))
        return {'prefix': draw(st.lists(act, min_size=1, max_size=4)), 'sub': draw(st.sampled_from(inner)), 'idx': draw(st.integers(0, 299))}

    return SubCheck('after', run_after, strategy=strat_after, quick=quick, thorough=thorough,
                    rule="1..4 earlier calls in the same process (obtain K_n / empty / star / a dag / bipartite graphs from the library constructors and edit them: "
                         "remove or add edges, grow, split edges; build other formulas of this property; run cnfgen command lines with graph modifiers) followed by a case "
                         "of the sub-checks above ({}; taken from their quick enumerations); oracle: that case's oracle, unchanged; non-trivial: the inner case is".format(
                             ', '.join(sorted(set(inner)))),
                    required_labels=required_labels)
