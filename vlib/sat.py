"""A small DPLL: satisfiability, one model, and exact model counting.

Only for CNF given as lists of integer literals over variables 1..n.  Written for
instances just past the truth-table range (tens of variables, hundreds to a few
thousand clauses).  Cross-checked against vlib/tt.py in tools/selftest_lib.py.
"""
import sys

if sys.getrecursionlimit() < 10000:
    sys.setrecursionlimit(10000)


def _simplify(clauses, lit):
    """Assign lit true. Returns new clause list or None on conflict."""
    out = []
    for c in clauses:
        if lit in c:
            continue
        if -lit in c:
            nc = [l for l in c if l != -lit]
            if not nc:
                return None
            out.append(nc)
        else:
            out.append(c)
    return out


def _propagate(clauses, assigned):
    while True:
        unit = None
        for c in clauses:
            if len(c) == 1:
                unit = c[0]
                break
        if unit is None:
            return clauses
        assigned.append(unit)
        clauses = _simplify(clauses, unit)
        if clauses is None:
            return None


def _normalize(clauses):
    out = []
    for c in clauses:
        s = set(c)
        if any(-l in s for l in s):
            continue
        if not s:
            return None
        out.append(sorted(s, key=abs))
    return out


class Budget(Exception):
    """the node budget of a bounded search is exhausted (the answer is unknown)"""


def solve(n, clauses, max_nodes=None):
    """Returns a model as a list of n signed literals, or None.
    With max_nodes the search is cut after that many nodes and Budget is raised (a deterministic
    budget: no clock involved)."""
    cl = _normalize(clauses)
    if cl is None:
        return None
    res = _solve(cl, [], [max_nodes] if max_nodes is not None else None)
    if res is None:
        return None
    val = {abs(l): l for l in res}
    return [val.get(v, -v) for v in range(1, n + 1)]


def _solve(clauses, assigned, budget=None):
    if budget is not None:
        budget[0] -= 1
        if budget[0] < 0:
            raise Budget()
    assigned = list(assigned)
    clauses = _propagate(clauses, assigned)
    if clauses is None:
        return None
    if not clauses:
        return assigned
    # branch on a literal of a shortest clause
    c = min(clauses, key=len)
    for lit in (c[0], -c[0]):
        nc = _simplify(clauses, lit)
        if nc is None:
            continue
        r = _solve(nc, assigned + [lit], budget)
        if r is not None:
            return r
    return None


def is_sat(n, clauses):
    return solve(n, clauses) is not None


def count(n, clauses):
    """Exact number of models over variables 1..n."""
    cl = _normalize(clauses)
    if cl is None:
        return 0
    return _count(cl, n)


def _count(clauses, free):
    assigned = []
    clauses = _propagate(clauses, assigned)
    if clauses is None:
        return 0
    free -= len(set(abs(l) for l in assigned))
    if not clauses:
        return 1 << free
    c = min(clauses, key=len)
    v = c[0]
    tot = 0
    for lit in (v, -v):
        nc = _simplify(clauses, lit)
        if nc is not None:
            tot += _count(nc, free - 1)
    return tot
