"""Reference model of the graph specifications of the command line (property C15).

Nothing in here calls the constructions of the tree: the legal ranges are taken from
cnfgen/clitools/graph_docs.py and from the texts of the error messages, the structures from
the definitions of the named graphs.

A graph is observed through the public interface of the returned object and turned into a
``Desc`` (number of vertices / the two sides, and the set of edges); every predicate works on
``Desc`` objects.

    parse_spec(gtype, tokens)        -> Spec     (harness-side reading of the token list)
    judge_base(gtype, cons, args)    -> Judge    (valid / invalid / gray + parameter values)
    check_base(gtype, cons, P, d)    -> labels   (raises Mismatch)
    step_validity / check_step       modifiers   (plantclique, plantbiclique, addedges, splitedges)
    read_saved(fmt, gtype, text)     -> Desc     (independent readers of the five file formats)
"""
import itertools
import math
import re

from vlib import rd_graphs as R

TYPES = ('simple', 'bipartite', 'dag', 'digraph')
CONSTRUCTIONS = {
    'simple': ('gnp', 'gnm', 'gnd', 'grid', 'torus', 'complete', 'empty'),
    'bipartite': ('glrp', 'glrm', 'glrd', 'regular', 'shift', 'complete', 'empty'),
    'dag': ('path', 'tree', 'pyramid'),
    'digraph': ('path', 'tree', 'pyramid'),
}
RANDOM_CONSTRUCTIONS = ('gnp', 'gnm', 'gnd', 'glrp', 'glrm', 'glrd', 'regular')
MODIFIERS = {
    'simple': ('plantclique', 'addedges', 'splitedges'),
    'bipartite': ('plantbiclique', 'addedges'),
    'dag': (),
    'digraph': (),
}
MOD_ARITY = {'plantclique': 1, 'plantbiclique': 2, 'addedges': 1, 'splitedges': 1}
ALL_OPTION_NAMES = ('plantclique', 'plantbiclique', 'addedges', 'splitedges', 'save')
FORMATS = {
    'simple': ('kthlist', 'gml', 'dot', 'dimacs'),
    'digraph': ('kthlist', 'gml', 'dot', 'dimacs'),
    'dag': ('kthlist', 'gml', 'dot', 'dimacs'),
    'bipartite': ('kthlist', 'gml', 'dot', 'matrix'),
}
ALL_FORMATS = ('kthlist', 'gml', 'dot', 'dimacs', 'matrix')


class Mismatch(Exception):
    """The observed graph is not the one the specification names."""


# ---------------------------------------------------------------------------
# graphs as plain data

class Desc(object):
    __slots__ = ('gtype', 'n', 'L', 'R', 'edges')

    def __init__(self, gtype, edges, n=None, L=None, R=None):
        self.gtype = 'digraph' if gtype == 'dag' else gtype
        self.n, self.L, self.R = n, L, R
        if self.gtype == 'simple':
            self.edges = frozenset((min(u, v), max(u, v)) for u, v in edges)
        else:
            self.edges = frozenset((u, v) for u, v in edges)

    def order(self):
        return self.n if self.gtype != 'bipartite' else self.L + self.R

    def max_edges(self):
        if self.gtype == 'bipartite':
            return self.L * self.R
        return self.n * (self.n - 1) // 2

    def same(self, other):
        return (self.gtype, self.n, self.L, self.R, self.edges) == \
            (other.gtype, other.n, other.L, other.R, other.edges)

    def show(self):
        if self.gtype == 'bipartite':
            return "({},{})-bipartite {}".format(self.L, self.R, sorted(self.edges))
        return "{} vertices {}".format(self.n, sorted(self.edges))

    def adj(self):
        a = {v: set() for v in range(1, self.n + 1)}
        for u, v in self.edges:
            a[u].add(v)
            a[v].add(u)
        return a


def describe(obj, gtype):
    """Desc of a graph object of the tree, read through its public interface; the views of the
    object must agree with each other."""
    from cnfgen.graphs import Graph, DirectedGraph, BipartiteGraph
    want = {'simple': Graph, 'bipartite': BipartiteGraph, 'dag': DirectedGraph, 'digraph': DirectedGraph}[gtype]
    if not isinstance(obj, want):
        raise Mismatch("a '{}' specification gives an object of class {}".format(gtype, type(obj).__name__))
    if not isinstance(getattr(obj, 'name', None), str):
        raise Mismatch("the graph has no name")
    raw = [(int(u), int(v)) for u, v in obj.edges()]
    if gtype == 'bipartite':
        L, Rr = obj.left_order(), obj.right_order()
        if obj.number_of_vertices() != L + Rr:
            raise Mismatch("number_of_vertices() is {} for sides {},{}".format(obj.number_of_vertices(), L, Rr))
        for u, v in raw:
            if not (1 <= u <= L and 1 <= v <= Rr):
                raise Mismatch("edge {} outside a ({},{})-bipartite graph".format((u, v), L, Rr))
        d = Desc('bipartite', raw, L=L, R=Rr)
    else:
        n = obj.number_of_vertices()
        for u, v in raw:
            if not (1 <= u <= n and 1 <= v <= n) or u == v:
                raise Mismatch("edge {} in a graph of {} vertices".format((u, v), n))
        d = Desc(gtype, raw, n=n)
    if len(d.edges) != len(raw):
        raise Mismatch("edges() lists an edge twice: {}".format(sorted(raw)))
    if obj.number_of_edges() != len(raw):
        raise Mismatch("number_of_edges() is {} but edges() lists {}".format(obj.number_of_edges(), len(raw)))
    for u, v in raw[:6]:
        if not obj.has_edge(u, v):
            raise Mismatch("has_edge{} is false for a listed edge".format((u, v)))
    # small graphs: has_edge on every pair says what the listing says (families such as iso and subgraph read the graph
    # through has_edge, others through the listing or the neighbourhoods)
    listed = set(raw)
    if gtype == 'bipartite':
        pairs = [(u, v) for u in range(1, min(L, 8) + 1) for v in range(1, min(Rr, 8) + 1)]
        member = lambda u, v: (u, v) in listed       # noqa
    else:
        pairs = [(u, v) for u in range(1, min(n, 10) + 1) for v in range(1, min(n, 10) + 1) if u != v]
        member = (lambda u, v: (u, v) in listed or (v, u) in listed) if gtype == 'simple' else (lambda u, v: (u, v) in listed)    # noqa
    for u, v in pairs:
        if bool(obj.has_edge(u, v)) != member(u, v):
            raise Mismatch("has_edge{} answers {} but edges() {} that pair".format((u, v), bool(obj.has_edge(u, v)), 'lists' if member(u, v) else 'does not list'))
    if gtype == 'dag' and not obj.is_dag():
        raise Mismatch("is_dag() is false for a 'dag' specification")
    return d


# ---------------------------------------------------------------------------
# numbers on the command line

_CANON_INT = re.compile(r'-?(0|[1-9][0-9]*)\Z')


class Num(object):
    """kind: 'ok' plain spelling, 'gray' unusual spelling of a legal value (both a refusal and
    the value are fine), 'bad' not a number of the requested sort (must be refused)."""
    __slots__ = ('kind', 'value')

    def __init__(self, kind, value=None):
        self.kind, self.value = kind, value


def is_numeric_token(tok):
    try:
        float(tok)
        return True
    except ValueError:
        return False


def int_arg(tok):
    if _CANON_INT.match(tok) and tok != '-0':
        return Num('ok', int(tok))
    try:
        return Num('gray', int(tok))            # '+2', '02', '-0'
    except ValueError:
        pass
    try:
        f = float(tok)
    except ValueError:
        return Num('bad')
    if math.isfinite(f) and f == int(f):
        return Num('gray', int(f))              # '2.0', '1e0'
    return Num('bad')


def float_arg(tok):
    try:
        f = float(tok)
    except ValueError:
        return Num('bad')
    if not math.isfinite(f):
        return Num('bad')
    if f == 0 and tok.lstrip().startswith('-'):
        return Num('gray', 0.0)
    return Num('ok', f)


class Judge(object):
    """Verdict of the reference model on `construction args...`"""

    def __init__(self):
        self.status = 'valid'
        self.why = []
        self.marks = set()
        self.P = {}

    def invalid(self, why):
        self.status = 'invalid'
        self.why.append(why)

    def gray(self, why):
        if self.status == 'valid':
            self.status = 'gray'
        self.why.append(why)

    def integer(self, name, tok, lo, hi=None):
        """integer parameter with legal range lo..hi (hi None: unbounded)"""
        x = int_arg(tok)
        if x.kind == 'bad':
            self.marks.add('not-an-integer')
            self.invalid("{}={!r} is not an integer".format(name, tok))
            return None
        if x.kind == 'gray':
            self.marks.add('odd-spelling')
            self.gray("{}={!r} unusual spelling".format(name, tok))
        v = x.value
        self.P[name] = v
        if v < lo or (hi is not None and v > hi):
            if v == lo - 1 or (hi is not None and v == hi + 1):
                self.marks.add('just-outside')
            else:
                self.marks.add('far-outside')
            self.invalid("{}={} outside {}..{}".format(name, v, lo, '' if hi is None else hi))
            return v
        if v == lo or (hi is not None and v == hi):
            self.marks.add('at-limit')
        return v

    def prob(self, name, tok):
        x = float_arg(tok)
        if x.kind == 'bad':
            self.marks.add('not-a-probability')
            self.invalid("{}={!r} is not a finite number".format(name, tok))
            return None
        if x.kind == 'gray':
            self.marks.add('odd-spelling')
            self.gray("{}={!r} unusual spelling".format(name, tok))
        v = x.value
        self.P[name] = v
        if not 0 <= v <= 1:
            self.marks.add('just-outside' if -0.5 <= v <= 1.5 else 'far-outside')
            self.invalid("{}={} outside [0,1]".format(name, v))
        elif v in (0, 1):
            self.marks.add('at-limit')
        return v

    def arity(self, what):
        self.marks.add('arity')
        self.invalid(what)


def judge_base(gtype, cons, args):
    """The documented domain of `cons args` for graphs of type gtype."""
    J = Judge()
    a = list(args)
    if cons not in CONSTRUCTIONS[gtype]:
        J.marks.add('foreign-construction')
        J.invalid("'{}' is not a construction of {} graphs".format(cons, gtype))
        return J
    if gtype == 'simple':
        if cons == 'gnp':
            if len(a) not in (2, 3):
                J.arity("gnp N p [t]")
                return J
            J.integer('N', a[0], 1)
            J.prob('p', a[1])
            J.P['t'] = 1
            if len(a) == 3:
                J.integer('t', a[2], 1)
        elif cons == 'gnm':
            if len(a) != 2:
                J.arity("gnm N m")
                return J
            N = J.integer('N', a[0], 1)
            if N is not None and N >= 1:
                J.integer('m', a[1], 0, N * (N - 1) // 2)
            else:
                J.integer('m', a[1], 0)
        elif cons == 'gnd':
            if len(a) != 2:
                J.arity("gnd N d")
                return J
            N = J.integer('N', a[0], 1)
            if N is not None and N >= 1:
                d = J.integer('d', a[1], 0, N - 1)
                if d is not None and d == N:
                    J.marks.add('gnd-N=d')
                if d is not None and d == N - 1 and d > 0:
                    J.marks.add('gnd-N=d+1')
                if J.status != 'invalid' and d == 0:
                    J.gray("gnd with d=0: the error message documents d>0, the help text does not")
                if J.status != 'invalid' and (N * d) % 2 == 1:
                    J.marks.add('impossible')
                    J.invalid("no {}-regular graph on {} vertices".format(d, N))
            else:
                J.integer('d', a[1], 0)
        elif cons in ('grid', 'torus'):
            dims = [J.integer('d{}'.format(i + 1), t, 1) for i, t in enumerate(a)]
            J.P = {'dims': dims}
            if not a:
                J.gray("{} without dimensions".format(cons))
                J.marks.add('no-dimension')
        elif cons == 'complete':
            if len(a) not in (1, 2):
                J.arity("complete N [B]")
                return J
            J.integer('N', a[0], 1)
            J.P['B'] = None
            if len(a) == 2:
                J.integer('B', a[1], 1)
        elif cons == 'empty':
            if len(a) != 1:
                J.arity("empty N")
                return J
            J.integer('N', a[0], 1)
    elif gtype == 'bipartite':
        if cons == 'shift':
            if len(a) < 2:
                J.arity("shift L R v1 v2 ...")
                return J
            J.integer('L', a[0], 1)
            Rr = J.integer('R', a[1], 1)
            hi = Rr if (Rr is not None and Rr >= 1) else None
            pat = [J.integer('v{}'.format(i + 1), t, 0, hi) for i, t in enumerate(a[2:])]
            J.P = {'L': J.P.get('L'), 'R': J.P.get('R'), 'pattern': pat}
            good = [v for v in pat if v is not None]
            if len(set(good)) != len(good):
                J.marks.add('repeated-offset')
                J.invalid("repeated offset")
            elif hi is not None and len(set(v % hi for v in good)) != len(good):
                J.gray("offsets 0 and R coincide")
        elif cons in ('complete', 'empty'):
            if len(a) != 2:
                J.arity(cons + " L R")
                return J
            J.integer('L', a[0], 1)
            J.integer('R', a[1], 1)
        else:
            if len(a) != 3:
                J.arity(cons + " L R x")
                return J
            L = J.integer('L', a[0], 1)
            Rr = J.integer('R', a[1], 1)
            sides_ok = L is not None and Rr is not None and L >= 1 and Rr >= 1
            if cons == 'glrp':
                J.prob('p', a[2])
            elif cons == 'glrm':
                J.integer('m', a[2], 0, L * Rr if sides_ok else None)
            elif cons == 'glrd':
                J.integer('d', a[2], 0, Rr if sides_ok else None)
            elif cons == 'regular':
                d = J.integer('d', a[2], 0, Rr if sides_ok else None)
                if J.status != 'invalid' and (L * d) % Rr != 0:
                    J.marks.add('impossible')
                    J.invalid("R does not divide L*d")
    else:
        if len(a) != 1:
            J.arity(cons + " takes one argument")
            return J
        J.integer({'path': 'L', 'tree': 'h', 'pyramid': 'h'}[cons], a[0], 0)
    return J


# ---------------------------------------------------------------------------
# harness-side reading of a token list

class Spec(object):
    """cons, args, then options in the order written: [name, [numeric tokens]] and
    ['save', [fmt or None, filename or None]].  problems: reasons making the whole
    specification invalid ('!...') or gray ('?...') whatever the numbers are."""

    def __init__(self):
        self.cons = None
        self.args = []
        self.options = []
        self.problems = []


def parse_spec(gtype, tokens):
    S = Spec()
    toks = list(tokens)
    S.cons = toks[0]
    i = 1
    while i < len(toks) and is_numeric_token(toks[i]):
        S.args.append(toks[i])
        i += 1
    seen = set()
    while i < len(toks):
        name = toks[i]
        i += 1
        if name in TYPES:
            S.problems.append('!second graph specification')
        if name != 'save' and name not in MODIFIERS[gtype]:
            S.problems.append('!option {} not valid for {} graphs'.format(name, gtype))
            return S
        if name in seen:
            S.problems.append('?option {} given twice'.format(name))
        seen.add(name)
        if name == 'save':
            if i >= len(toks):
                S.problems.append('!save without file')
                S.options.append(['save', [None, None]])
                break
            if toks[i] in FORMATS[gtype]:
                if i + 1 >= len(toks):
                    S.problems.append('!save format without file')
                    S.options.append(['save', [toks[i], None]])
                    break
                S.options.append(['save', [toks[i], toks[i + 1]]])
                i += 2
            else:
                S.options.append(['save', [None, toks[i]]])
                i += 1
        else:
            nums = []
            while i < len(toks) and is_numeric_token(toks[i]):
                nums.append(toks[i])
                i += 1
            S.options.append([name, nums])
    return S


def save_format(gtype, fmt, filename):
    """format a `save [fmt] filename` request stores the graph in; None: cannot be honoured"""
    if fmt is not None:
        return fmt if fmt in FORMATS[gtype] else None
    ext = filename.rsplit('.', 1)[-1] if '.' in filename.rsplit('/', 1)[-1] else ''
    return ext if ext in FORMATS[gtype] else None


# ---------------------------------------------------------------------------
# the named graphs, from their definitions

def _nx():
    import networkx
    return networkx


def lattice_edges(dims, periodic):
    """Product of paths (grid) or cycles (torus): vertices are the integer points of the box,
    x ~ y iff they differ by one (modulo the side, for the torus) in exactly one coordinate."""
    pts = list(itertools.product(*[range(d) for d in dims]))
    E = set()
    for x in pts:
        for i, d in enumerate(dims):
            if periodic:
                y = x[:i] + ((x[i] + 1) % d,) + x[i + 1:]
            else:
                if x[i] + 1 >= d:
                    continue
                y = x[:i] + (x[i] + 1,) + x[i + 1:]
            if y != x:
                E.add(frozenset((x, y)))
    return pts, E


def _iso_simple(d, pts, E):
    nx = _nx()
    A = nx.Graph()
    A.add_nodes_from(range(1, d.n + 1))
    A.add_edges_from(d.edges)
    B = nx.Graph()
    B.add_nodes_from(pts)
    B.add_edges_from(tuple(e) for e in E)
    if sorted(dict(A.degree()).values()) != sorted(dict(B.degree()).values()):
        return False
    return nx.is_isomorphic(A, B)


def _iso_directed(d, n, E):
    nx = _nx()
    A = nx.DiGraph()
    A.add_nodes_from(range(1, d.n + 1))
    A.add_edges_from(d.edges)
    B = nx.DiGraph()
    B.add_nodes_from(range(1, n + 1))
    B.add_edges_from(E)
    return nx.is_isomorphic(A, B)


def pyramid_edges(h):
    """layer 0 (bottom) has h+1 vertices, ..., layer h one; vertex j of layer l+1 has the
    vertices j and j+1 of layer l as predecessors.  Numbered from the bottom layer."""
    first, k = {}, 1
    for layer in range(h + 1):
        first[layer] = k
        k += h + 1 - layer
    E = []
    for layer in range(1, h + 1):
        for j in range(h + 1 - layer):
            v = first[layer] + j
            E.append((first[layer - 1] + j, v))
            E.append((first[layer - 1] + j + 1, v))
    return k - 1, E


def tree_edges(h):
    """complete binary tree of height h, edges towards the root, numbered from the leaves"""
    first, k = {}, 1
    for layer in range(h + 1):
        first[layer] = k
        k += 2 ** (h - layer)
    E = []
    for layer in range(1, h + 1):
        for j in range(2 ** (h - layer)):
            v = first[layer] + j
            E.append((first[layer - 1] + 2 * j, v))
            E.append((first[layer - 1] + 2 * j + 1, v))
    return k - 1, E


def _degrees_simple(d):
    deg = {v: 0 for v in range(1, d.n + 1)}
    for u, v in d.edges:
        deg[u] += 1
        deg[v] += 1
    return deg


def _multipartite_blocks(d, t, N):
    """Is there a partition of the vertices in t independent blocks of N vertices?
    (first the consecutive blocks, then a search)"""
    def independent(block):
        return not any((min(u, v), max(u, v)) in d.edges for u, v in itertools.combinations(block, 2))
    if all(independent(range(b * N + 1, (b + 1) * N + 1)) for b in range(t)):
        return True

    def rec(rest):
        if not rest:
            return True
        head = rest[0]
        for others in itertools.combinations(rest[1:], N - 1):
            block = (head,) + others
            if independent(block) and rec([v for v in rest if v not in block]):
                return True
        return False
    return rec(list(range(1, d.n + 1)))


def check_base(gtype, cons, P, d):
    """The graph d against `cons` with parameter values P.  Returns labels; raises Mismatch."""
    labels = []

    def need(cond, msg):
        if not cond:
            raise Mismatch(msg + " -- got " + d.show())
    if gtype == 'simple':
        if cons == 'gnp':
            N, p, t = P['N'], P['p'], P['t']
            need(d.n == N * t, "gnp {} {} {}: {} vertices expected".format(N, p, t, N * t))
            if t > 1:
                labels.append('t-partite')
                need(_multipartite_blocks(d, t, N), "gnp with t={}: no partition in {} independent blocks of {}".format(t, t, N))
            full = (N * t) * (N * t - 1) // 2 - (t * (N * (N - 1) // 2) if t > 1 else 0)
            if p == 0:
                labels.append('p=0')
                need(len(d.edges) == 0, "gnp with p=0 must have no edge")
            if p == 1:
                labels.append('p=1')
                need(len(d.edges) == full, "gnp with p=1 must have all {} edges".format(full))
        elif cons == 'gnm':
            need(d.n == P['N'], "gnm: {} vertices expected".format(P['N']))
            need(len(d.edges) == P['m'], "gnm: exactly {} edges expected".format(P['m']))
        elif cons == 'gnd':
            need(d.n == P['N'], "gnd: {} vertices expected".format(P['N']))
            deg = _degrees_simple(d)
            need(all(x == P['d'] for x in deg.values()), "gnd: every degree must be {} (degrees {})".format(P['d'], deg))
        elif cons in ('grid', 'torus'):
            dims = P['dims']
            if not dims:
                labels.append('no-dimension')
                return labels
            pts, E = lattice_edges(dims, cons == 'torus')
            need(d.n == len(pts), "{} {}: {} vertices expected".format(cons, dims, len(pts)))
            need(len(d.edges) == len(E), "{} {}: {} edges expected".format(cons, dims, len(E)))
            need(_iso_simple(d, pts, E), "{} {}: not isomorphic to the product of {}".format(
                cons, dims, 'cycles' if cons == 'torus' else 'paths'))
            if 1 in dims:
                labels.append('dimension-1')
            if 2 in dims:
                labels.append('dimension-2')
        elif cons == 'complete':
            N, B = P['N'], P['B']
            if B is None:
                need(d.n == N, "complete: {} vertices expected".format(N))
                need(len(d.edges) == N * (N - 1) // 2, "complete {}: all pairs expected".format(N))
            else:
                labels.append('multipartite')
                need(d.n == N * B, "complete {} {}: {} vertices expected".format(N, B, N * B))
                # non-adjacency must be an equivalence relation with B classes of N vertices
                a = d.adj()
                classes = set(frozenset(v for v in range(1, d.n + 1) if v not in a[u]) for u in range(1, d.n + 1))
                need(len(classes) == B and all(len(c) == N for c in classes)
                     and sum(len(c) for c in classes) == d.n,
                     "complete {} {}: not the complete multipartite graph".format(N, B))
        elif cons == 'empty':
            need(d.n == P['N'] and not d.edges, "empty {}: {} isolated vertices expected".format(P['N'], P['N']))
    elif gtype == 'bipartite':
        L, Rr = P['L'], P['R']
        need((d.L, d.R) == (L, Rr), "{}: sides ({},{}) expected".format(cons, L, Rr))
        ldeg = {u: 0 for u in range(1, L + 1)}
        rdeg = {v: 0 for v in range(1, Rr + 1)}
        for u, v in d.edges:
            ldeg[u] += 1
            rdeg[v] += 1
        if cons == 'glrp':
            if P['p'] == 0:
                labels.append('p=0')
                need(not d.edges, "glrp with p=0 must have no edge")
            if P['p'] == 1:
                labels.append('p=1')
                need(len(d.edges) == L * Rr, "glrp with p=1 must be complete")
        elif cons == 'glrm':
            need(len(d.edges) == P['m'], "glrm: exactly {} edges expected".format(P['m']))
            labels.append('dense-path' if P['m'] > L * Rr // 3 else 'sparse-path')
            if P['m'] == L * Rr // 3:
                labels.append('at-switch')
            if P['m'] == L * Rr // 3 + 1:
                labels.append('above-switch')
        elif cons == 'glrd':
            need(all(x == P['d'] for x in ldeg.values()), "glrd: every left degree must be {} (left degrees {})".format(P['d'], ldeg))
        elif cons == 'regular':
            need(all(x == P['d'] for x in ldeg.values()),
                 "regular: every left degree must be {} (left degrees {})".format(P['d'], ldeg))
            need(all(x == L * P['d'] // Rr for x in rdeg.values()),
                 "regular: every right degree must be {} (right degrees {})".format(L * P['d'] // Rr, rdeg))
            if P['d'] == Rr:
                labels.append('d=R')
            if P['d'] == 0:
                labels.append('d=0')
        elif cons == 'shift':
            want = set((u, 1 + (u - 1 + o) % Rr) for u in range(1, L + 1) for o in P['pattern'])
            need(d.edges == want, "shift {} {} {}: edges {} expected".format(L, Rr, P['pattern'], sorted(want)))
            if Rr in P['pattern']:
                labels.append('offset=R')
        elif cons == 'complete':
            need(len(d.edges) == L * Rr, "complete bipartite: all {} edges expected".format(L * Rr))
        elif cons == 'empty':
            need(not d.edges, "empty bipartite: no edge expected")
    else:
        need(all(u < v for u, v in d.edges), "{}: every edge must go from a smaller to a larger vertex".format(cons))
        if cons == 'path':
            n, E = P['L'] + 1, [(i, i + 1) for i in range(1, P['L'] + 1)]
        elif cons == 'tree':
            n, E = tree_edges(P['h'])
            assert n == 2 ** (P['h'] + 1) - 1
        else:
            n, E = pyramid_edges(P['h'])
            assert n == (P['h'] + 1) * (P['h'] + 2) // 2
        need(d.n == n, "{}: {} vertices expected".format(cons, n))
        need(len(d.edges) == len(E), "{}: {} edges expected".format(cons, len(E)))
        need(_iso_directed(d, n, E), "{}: not the documented graph {}".format(cons, E))
        if d.edges == frozenset(E):
            labels.append('documented-numbering')
    return labels


# ---------------------------------------------------------------------------
# modifiers: validity on the graph they are applied to, and the step relation

def step_validity(name, nums, prev):
    """('valid'|'invalid'|'gray', values, marks) of `name nums...` applied to the graph prev"""
    J = Judge()
    if len(nums) != MOD_ARITY[name]:
        J.arity("{} takes {} number(s)".format(name, MOD_ARITY[name]))
        return J.status, None, J.marks
    if name == 'plantclique':
        vals = [J.integer('k', nums[0], 0, prev.n)]
    elif name == 'plantbiclique':
        vals = [J.integer('a', nums[0], 0, prev.L), J.integer('b', nums[1], 0, prev.R)]
    elif name == 'addedges':
        vals = [J.integer('m', nums[0], 0, prev.max_edges() - len(prev.edges))]
    else:
        vals = [J.integer('k', nums[0], 0, len(prev.edges))]
    return J.status, vals, J.marks


def _find_clique(adj, must, k, universe):
    """a k-subset of universe containing `must`, pairwise adjacent"""
    must = sorted(must)
    for u, v in itertools.combinations(must, 2):
        if v not in adj[u]:
            return None
    if len(must) > k:
        return None
    cand = [v for v in universe if v not in must and all(v in adj[m] for m in must)]

    def rec(cur, cand):
        if len(cur) == k:
            return cur
        if len(cur) + len(cand) < k:
            return None
        for i, v in enumerate(cand):
            r = rec(cur + [v], [w for w in cand[i + 1:] if w in adj[v]])
            if r is not None:
                return r
        return None
    return rec(list(must), cand)


def check_step(name, vals, prev, new):
    """new must be prev after `name vals`; raises Mismatch"""
    def need(cond, msg):
        if not cond:
            raise Mismatch("{} {}: {} -- before: {} -- after: {}".format(name, vals, msg, prev.show(), new.show()))
    if name == 'splitedges':
        k = vals[0]
        need(new.n == prev.n + k, "exactly {} more vertices expected".format(k))
        need(len(new.edges) == len(prev.edges) + k, "exactly {} more edges expected".format(k))
        adj = new.adj()
        split = set()
        for x in range(prev.n + 1, new.n + 1):
            nb = sorted(adj[x])
            need(len(nb) == 2, "new vertex {} must have degree 2".format(x))
            e = (nb[0], nb[1])
            need(nb[1] <= prev.n, "new vertex {} must sit between two old vertices".format(x))
            need(e in prev.edges, "new vertex {} does not subdivide a former edge".format(x))
            need(e not in new.edges, "the split edge {} is still present".format(e))
            need(e not in split, "edge {} split twice".format(e))
            split.add(e)
        old_part = frozenset(e for e in new.edges if e[1] <= prev.n)
        need(old_part == prev.edges - split, "the edges that are not split must stay")
        return
    need((new.n, new.L, new.R) == (prev.n, prev.L, prev.R), "the vertices must stay the same")
    need(prev.edges <= new.edges, "an edge was removed")
    fresh = new.edges - prev.edges
    if name == 'addedges':
        need(len(fresh) == vals[0], "exactly {} new edges expected, {} found".format(vals[0], len(fresh)))
    elif name == 'plantclique':
        k = vals[0]
        ends = set(v for e in fresh for v in e)
        K = _find_clique(new.adj(), ends, k, list(range(1, new.n + 1)))
        need(K is not None, "the new edges {} do not complete a clique on {} vertices".format(sorted(fresh), k))
    elif name == 'plantbiclique':
        a, b = vals
        if a == 0 or b == 0:
            need(not fresh, "an empty biclique adds no edge")
            return
        SA = set(u for u, _ in fresh)
        SB = set(v for _, v in fresh)
        nbr = {u: set() for u in range(1, new.L + 1)}
        for u, v in new.edges:
            nbr[u].add(v)
        found = False
        others_right = [v for v in range(1, new.R + 1) if v not in SB]
        if (len(SA) <= a and len(SB) <= b and a <= new.L and b <= new.R
                and math.comb(len(others_right), b - len(SB)) < math.comb(new.L - len(SA), a - len(SA))):
            # the same question asked from the right side, which has fewer candidate sets (many left vertices)
            nbr_right = {v: set() for v in range(1, new.R + 1)}
            for u, v in new.edges:
                nbr_right[v].add(u)
            for extra in itertools.combinations(others_right, b - len(SB)):
                common = set(range(1, new.L + 1))
                for v in list(SB) + list(extra):
                    common &= nbr_right[v]
                if SA <= common and len(common) >= a:
                    found = True
                    break
        elif len(SA) <= a and len(SB) <= b:
            others = [u for u in range(1, new.L + 1) if u not in SA]
            for extra in itertools.combinations(others, a - len(SA)):
                A = list(SA) + list(extra)
                common = set(range(1, new.R + 1))
                for u in A:
                    common &= nbr[u]
                if SB <= common and len(common) >= b:
                    found = True
                    break
        need(found, "the new edges {} do not complete a ({},{})-biclique".format(sorted(fresh), a, b))
    else:
        raise KeyError(name)


# ---------------------------------------------------------------------------
# independent readers of saved files

class ReaderGap(Exception):
    """The text uses a feature of the format that the small reader below does not know."""


_GML_TOKEN = re.compile(r'\[|\]|"[^"]*"|[^\s\[\]"]+')


def _gml_items(tokens, pos):
    items = []
    while pos < len(tokens) and tokens[pos] != ']':
        key = tokens[pos]
        if key == '[' or pos + 1 >= len(tokens):
            raise ReaderGap("gml: key expected")
        val = tokens[pos + 1]
        if val == '[':
            sub, pos = _gml_items(tokens, pos + 2)
            if pos >= len(tokens) or tokens[pos] != ']':
                raise ReaderGap("gml: unbalanced list")
            items.append((key, sub))
            pos += 1
        elif val == ']':
            raise ReaderGap("gml: value expected")
        else:
            items.append((key, val))
            pos += 2
    return items, pos


def read_gml(text, gtype):
    lines = [l for l in text.split('\n') if not l.lstrip().startswith('#')]
    tokens = _GML_TOKEN.findall('\n'.join(lines))
    items, pos = _gml_items(tokens, 0)
    if pos != len(tokens):
        raise ReaderGap("gml: text after the end")
    graphs = [v for k, v in items if k == 'graph' and isinstance(v, list)]
    if len(graphs) != 1:
        raise Mismatch("gml file with {} graph sections".format(len(graphs)))
    g = graphs[0]
    directed = any(k == 'directed' and v == '1' for k, v in g)
    if directed != (gtype in ('dag', 'digraph')):
        raise Mismatch("gml file of a {} graph is marked directed={}".format(gtype, int(directed)))
    nodes = {}
    for k, v in g:
        if k == 'node':
            f = dict((a, b) for a, b in v if not isinstance(b, list))
            nid = int(f['id'])
            if nid in nodes:
                raise Mismatch("gml file: node id {} twice".format(nid))
            nodes[nid] = f
    pairs = []
    for k, v in g:
        if k == 'edge':
            f = dict((a, b) for a, b in v if not isinstance(b, list))
            s, t = int(f['source']), int(f['target'])
            if s not in nodes or t not in nodes:
                raise Mismatch("gml file: edge between undeclared nodes {} {}".format(s, t))
            pairs.append((s, t))
    return _number_document(gtype, nodes, pairs, lambda f: f.get('bipartite'))


def _number_document(gtype, nodes, pairs, side_of):
    """vertices are numbered by increasing identifier (each side on its own for bipartite graphs)"""
    ids = sorted(nodes)
    if gtype == 'bipartite':
        side = {}
        for i in ids:
            s = side_of(nodes[i])
            if s is not None:
                s = str(s).strip('"')
            if s not in ('0', '1'):
                raise Mismatch("saved bipartite graph: node {} has no side".format(i))
            side[i] = int(s)
        left = {i: k + 1 for k, i in enumerate([i for i in ids if side[i] == 0])}
        right = {i: k + 1 for k, i in enumerate([i for i in ids if side[i] == 1])}
        E = []
        for s, t in pairs:
            if side[s] == side[t]:
                raise Mismatch("saved bipartite graph: edge inside a side")
            if side[s] == 1:
                s, t = t, s
            E.append((left[s], right[t]))
        d = Desc('bipartite', E, L=len(left), R=len(right))
    else:
        num = {i: k + 1 for k, i in enumerate(ids)}
        E = [(num[s], num[t]) for s, t in pairs]
        if any(u == v for u, v in E):
            raise Mismatch("saved graph has a loop")
        d = Desc(gtype, E, n=len(ids))
    if len(d.edges) != len(pairs):
        raise Mismatch("saved file lists an edge twice")
    return d


_DOT_HEAD = re.compile(r'\s*(strict\s+)?(graph|digraph)\b\s*("(?:[^"\\]|\\.)*"|[A-Za-z_0-9]+)?\s*\{', re.S)
_DOT_ID = r'("(?:[^"\\]|\\.)*"|[A-Za-z_0-9.]+)'
_DOT_EDGE = re.compile(r'\s*' + _DOT_ID + r'\s*(--|->)\s*' + _DOT_ID + r'\s*(\[[^\]]*\])?\s*\Z', re.S)
_DOT_NODE = re.compile(r'\s*' + _DOT_ID + r'\s*(\[[^\]]*\])?\s*\Z', re.S)


def read_dot(text, gtype):
    m = _DOT_HEAD.match(text)
    if not m:
        raise ReaderGap("dot: header")
    directed = m.group(2) == 'digraph'
    if directed != (gtype in ('dag', 'digraph')):
        raise Mismatch("dot file of a {} graph starts with '{}'".format(gtype, m.group(2)))
    body = text[m.end():]
    end = body.rfind('}')
    if end < 0 or body[end + 1:].strip():
        raise ReaderGap("dot: closing brace")
    body = body[:end]
    if '{' in body or '/*' in body or '//' in body:
        raise ReaderGap("dot: nested block or comment")
    nodes, pairs = {}, []

    def ident(s):
        s = s[1:-1] if s.startswith('"') else s
        try:
            return int(s)
        except ValueError:
            raise ReaderGap("dot: non numeric identifier")
    for stmt in body.split(';'):
        if not stmt.strip():
            continue
        e = _DOT_EDGE.match(stmt)
        if e:
            if (e.group(2) == '->') != directed:
                raise Mismatch("dot file mixes edge operators")
            a, b = ident(e.group(1)), ident(e.group(3))
            nodes.setdefault(a, {})
            nodes.setdefault(b, {})
            pairs.append((a, b))
            continue
        n = _DOT_NODE.match(stmt)
        if not n:
            raise ReaderGap("dot: statement {!r}".format(stmt.strip()[:40]))
        if n.group(1) in ('node', 'edge', 'graph'):
            raise ReaderGap("dot: default attribute statement")
        attrs = {}
        if n.group(2):
            for part in n.group(2)[1:-1].split(','):
                if '=' in part:
                    k, v = part.split('=', 1)
                    attrs[k.strip()] = v.strip()
        nodes.setdefault(ident(n.group(1)), {}).update(attrs)
    return _number_document(gtype, nodes, pairs, lambda f: f.get('bipartite'))


def _fallback_read(fmt, gtype, text):
    """third-party reader (networkx / pydot), for documents outside the subset read above"""
    import io
    import contextlib
    nx = _nx()
    if fmt == 'gml':
        H = nx.parse_gml(text.split('\n'), label='id')
    else:
        import pydot
        with contextlib.redirect_stdout(io.StringIO()):
            P = pydot.graph_from_dot_data(text)
        H = nx.nx_pydot.from_pydot(P[0])
        H = nx.relabel_nodes(H, {v: int(str(v).strip('"')) for v in H.nodes()})
    if H.is_directed() != (gtype in ('dag', 'digraph')):
        raise Mismatch("{} file of a {} graph has directed={}".format(fmt, gtype, H.is_directed()))
    nodes = {v: dict(H.nodes[v]) for v in H.nodes()}
    return _number_document(gtype, nodes, list(H.edges()), lambda f: f.get('bipartite'))


def read_saved(fmt, gtype, text):
    """(Desc, how) of a file written by `save`; raises Mismatch when the text is not a valid file
    of that format for that graph type."""
    if fmt in ('kthlist', 'dimacs', 'matrix'):
        ref = R.ref_read(fmt, gtype, text)
        if ref.status == 'invalid' or ref.graph is None:
            raise Mismatch("the saved {} file is not a valid {} graph: {}".format(fmt, gtype, ref.why))
        g = ref.graph
        if gtype == 'bipartite':
            return Desc('bipartite', [tuple(e) for e in g['edges']], L=g['L'], R=g['R']), 'own'
        return Desc(gtype, [tuple(e) for e in g['edges']], n=g['n']), 'own'
    try:
        return (read_gml if fmt == 'gml' else read_dot)(text, gtype), 'own'
    except ReaderGap:
        return _fallback_read(fmt, gtype, text), 'third-party'
