"""Independent reader for the OPB (pseudo-Boolean competition) text format.

Written from the format description (https://www.cril.univ-artois.fr/PB12/format.pdf),
not from cnfgen/utils/opb.py:

* the first line is the comment ``* #variable= N #constraint= M``;
* a line whose first character is ``*`` is a comment;
* any other line holds one constraint:  a (possibly empty) sequence of terms
  ``<integer> <literal>`` where the integer may carry a sign and the literal is
  ``xK`` or ``~xK`` with K >= 1, followed by the relation ``>=`` or ``=``, the integer
  degree and an optional terminating ``;``.

Leniencies (none of them can hide a wrong constraint): the terminating ``;`` is
optional (the doctests of the tree document the format without it), white space
between tokens is free, white-space-only lines are skipped and reported in
``blank_lines``.  Lines are separated by ``\\n`` only; a ``\\r`` is ordinary white space.

Nothing here raises on bad input: every problem is appended to ``OpbFile.errors`` as
``(line_number, text, reason)`` so that the caller decides what is a violation.
"""
import re

_SPEC = re.compile(r'^\*\s*#variable=\s*(\d+)\s+#constraint=\s*(\d+)\s*$')
_INT = re.compile(r'^[+-]?\d+$')
_LIT = re.compile(r'^(~?)x([1-9]\d*)$')


class OpbFile:
    def __init__(self):
        self.declared_variables = None
        self.declared_constraints = None
        self.spec_line = None        # 1-based line number of the '#variable=' line
        self.constraints = []        # (terms, relation, degree); terms = [(coeff, var, negated)]
        self.constraint_lines = []   # 1-based line number of each constraint
        self.comments = []           # comment lines (without the spec line)
        self.blank_lines = []
        self.errors = []             # (lineno, text, reason)
        self.semicolons = 0


def parse_constraint(line):
    """Return (terms, relation, degree, had_semicolon) or raise ValueError(reason)."""
    s = line.strip()
    semi = False
    if s.endswith(';'):
        semi = True
        s = s[:-1]
    if ';' in s:
        raise ValueError("';' inside a constraint")
    # make sure the relation is a token of its own even when glued to its neighbours
    toks = s.replace('>=', ' >= ').split()
    # a lone '=' (not part of '>=') may also be glued; split it out
    out = []
    for t in toks:
        if t == '>=' or '=' not in t:
            out.append(t)
        else:
            parts = t.split('=')
            for i, p in enumerate(parts):
                if p:
                    out.append(p)
                if i < len(parts) - 1:
                    out.append('=')
    toks = out
    rel_pos = [i for i, t in enumerate(toks) if t in ('>=', '=')]
    if len(rel_pos) != 1:
        raise ValueError("expected exactly one relation '>=' or '=', found {}".format(len(rel_pos)))
    r = rel_pos[0]
    lhs, rel, rhs = toks[:r], toks[r], toks[r + 1:]
    if len(rhs) != 1 or not _INT.match(rhs[0]):
        raise ValueError("the degree must be one integer, found {!r}".format(' '.join(rhs)))
    if len(lhs) % 2:
        raise ValueError("terms must be <integer> <literal> pairs: {!r}".format(' '.join(lhs)))
    terms = []
    for i in range(0, len(lhs), 2):
        c, l = lhs[i], lhs[i + 1]
        if not _INT.match(c):
            raise ValueError("bad coefficient {!r}".format(c))
        m = _LIT.match(l)
        if not m:
            raise ValueError("bad literal {!r}".format(l))
        terms.append((int(c), int(m.group(2)), m.group(1) == '~'))
    return terms, rel, int(rhs[0]), semi


def read_opb(text):
    """Parse an OPB document given as a string.  Never raises."""
    res = OpbFile()
    lines = text.split('\n')
    if lines and lines[-1] == '':
        lines.pop()                      # the final line terminator
    elif text != '':
        res.errors.append((len(lines), lines[-1], "last line is not terminated by a newline"))
    for no, line in enumerate(lines, start=1):
        if line.startswith('*'):
            m = _SPEC.match(line.rstrip('\r'))
            if m and res.spec_line is None and no == 1:
                res.spec_line = no
                res.declared_variables = int(m.group(1))
                res.declared_constraints = int(m.group(2))
            else:
                res.comments.append(line)
            continue
        if line.strip() == '':
            res.blank_lines.append(no)
            continue
        try:
            terms, rel, deg, semi = parse_constraint(line)
        except ValueError as e:
            res.errors.append((no, line, str(e)))
            continue
        res.constraints.append((terms, rel, deg))
        res.constraint_lines.append(no)
        res.semicolons += 1 if semi else 0
    if res.spec_line is None:
        first = lines[0] if lines else ''
        res.errors.append((1, first, "the first line is not '* #variable= N #constraint= M'"))
    return res
