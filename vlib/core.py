"""Shared runner for the property checks.

A property module (checks/cNN.py) exposes

    PROPERTY   = "C04"
    SUBCHECKS  = [SubCheck(...), ...]
    ASSUMPTIONS = [...]

A SubCheck owns a *case* domain (Hypothesis strategy and/or a finite
enumerator) and ``run_case(case) -> Outcome``.  A case is a plain JSON-able
value, so a replay file is just the case written to disk and replay bypasses the
generator library completely.

Verdicts
--------
* ``Violation``  raised by run_case          -> VIOLATION line, exit 1
* exception with a frame inside the tree     -> VIOLATION (unexpected failure
  of the code under test on an input the check believes valid)
* any other exception                        -> HARNESS-ERROR, exit 2
"""
import hashlib
import json
import os
import sys
import time
import traceback
import zlib
from concurrent.futures import ProcessPoolExecutor, as_completed
import multiprocessing

sys.setrecursionlimit(max(10000, sys.getrecursionlimit()))      # the small DPLL of vlib/sat.py recurses per decision

VERIF_DIR = os.path.dirname(os.path.dirname(os.path.abspath(__file__)))
REPO = os.path.realpath(os.environ.get("VERIF_REPO", "/repo"))
NPROC = int(os.environ.get("VERIF_JOBS", "16"))
SLOW_S = float(os.environ.get("VERIF_SLOW", "0"))


def fresh(value):
    """an equal but not identical object: strings are rebuilt at run time (not interned), integers beyond the
    small-int cache are recomputed; code that compares with `is` instead of `==` then shows"""
    if isinstance(value, str) and len(value) >= 2:
        return ''.join(list(value))
    if isinstance(value, int) and not isinstance(value, bool) and abs(value) > 256:
        return int(str(value))
    return value


class Violation(Exception):
    """The property does not hold on this case."""

    def __init__(self, message, signature=None):
        Exception.__init__(self, message)
        self.signature = signature


class Outcome:
    """What run_case reports for a case that did not violate the property."""
    __slots__ = ("labels", "nontrivial", "rejected", "known")

    def __init__(self, labels=(), nontrivial=True, rejected=False, known=None):
        self.labels = tuple(labels)
        self.nontrivial = nontrivial
        self.rejected = rejected
        self.known = known          # signature of an open known finding hit


class SubCheck:
    def __init__(self, name, run_case, strategy=None, enumerate_cases=None,
                 quick=200, thorough=5000, rule="", required_labels=(),
                 enum_tiers=("quick", "thorough"), max_shards=None,
                 enum_quick_limit=None, opt_pass=True):
        self.name = name
        self.opt_pass = opt_pass              # also run one shard under `python -O`
        self.run_case = run_case
        self.strategy = strategy              # callable returning a strategy
        self.enumerate_cases = enumerate_cases  # callable(tier) -> iterator
        self.quick = quick
        self.thorough = thorough
        self.rule = rule
        self.required_labels = tuple(required_labels)
        self.enum_tiers = enum_tiers
        self.max_shards = max_shards
        self.enum_quick_limit = enum_quick_limit


# ---------------------------------------------------------------------------
# helpers

def canonical(case):
    return json.dumps(case, sort_keys=True, separators=(",", ":"), default=str)


def case_hash(case):
    return hashlib.sha1(canonical(case).encode("utf-8", "replace")).digest()[:8]


def derive_seed(*parts):
    return zlib.crc32(":".join(str(p) for p in parts).encode()) & 0x7FFFFFFF


def exception_in_tree(exc):
    """True when the traceback of exc passes through the code under test."""
    tb = exc.__traceback__
    prefix = os.path.join(REPO, "cnfgen") + os.sep
    while tb is not None:
        fn = os.path.realpath(tb.tb_frame.f_code.co_filename)
        if fn.startswith(prefix):
            return True
        tb = tb.tb_next
    return False


def short_tb(exc, limit=6):
    frames = traceback.extract_tb(exc.__traceback__)[-limit:]
    return " <- ".join("{}:{}:{}".format(os.path.basename(f.filename), f.lineno, f.name)
                       for f in reversed(frames))


# ---------------------------------------------------------------------------
# known findings

_KNOWN = None


def known_findings():
    global _KNOWN
    if _KNOWN is None:
        path = os.path.join(VERIF_DIR, "known_findings.json")
        try:
            with open(path) as f:
                _KNOWN = json.load(f)
        except FileNotFoundError:
            _KNOWN = {"open": [], "fixed": []}
    return _KNOWN


def is_known(prop, subcheck, signature):
    """An open finding matches only by an explicit, specific signature."""
    if signature is None:
        return None
    for e in known_findings().get("open", []):
        if e["property"] == prop and e["subcheck"] == subcheck and e["signature"] == signature:
            return e
    return None


# ---------------------------------------------------------------------------
# statistics for one (subcheck, shard)

class Stats:
    def __init__(self):
        self.evaluations = 0
        self.nontrivial = set()
        self.labels = {}
        self.rejected = 0
        self.excluded_known = {}
        self.samples = []          # (index, case) reservoir: first, powers of two
        self.last_sample = None
        self.exhaustive = False
        self.wall = 0.0
        self.budget_exhausted = False

    def record(self, case, out):
        self.evaluations += 1
        if out is None:
            out = Outcome()
        for l in out.labels:
            self.labels[l] = self.labels.get(l, 0) + 1
        if out.rejected:
            self.rejected += 1
        if out.known:
            self.excluded_known[out.known] = self.excluded_known.get(out.known, 0) + 1
        if out.nontrivial:
            h = case_hash(case)
            if h not in self.nontrivial:
                self.nontrivial.add(h)
                n = len(self.nontrivial)
                if n & (n - 1) == 0 and len(self.samples) < 24:
                    self.samples.append(case)
                self.last_sample = case

    def to_dict(self):
        s = list(self.samples)
        picks = []
        if s:
            picks.append(s[0])
            if len(s) > 2:
                picks.append(s[len(s) // 2])
        if self.last_sample is not None and self.last_sample not in picks:
            picks.append(self.last_sample)
        return {
            "evaluations": self.evaluations,
            "nontrivial_hashes": [h.hex() for h in self.nontrivial],
            "labels": self.labels,
            "rejected": self.rejected,
            "excluded_known": self.excluded_known,
            "samples": picks,
            "exhaustive": self.exhaustive,
            "wall": self.wall,
            "budget_exhausted": self.budget_exhausted,
        }


# ---------------------------------------------------------------------------
# executing one case with classification

def execute(sub, case, prop):
    """Run one case; returns Outcome or raises Violation / other (harness)."""
    t0 = time.time()
    try:
        out = sub.run_case(case)
        if SLOW_S and time.time() - t0 > SLOW_S:
            sys.stderr.write("SLOW {:.1f}s [{}] {}\n".format(time.time() - t0, sub.name, canonical(case)[:600]))
    except Violation as v:
        k = is_known(prop, sub.name, v.signature)
        if k is not None:
            return Outcome(labels=("known-finding",), nontrivial=True, known=v.signature)
        raise
    except (KeyboardInterrupt, SystemExit):
        raise
    except Exception as e:         # noqa
        if exception_in_tree(e):
            raise Violation("unexpected {} from the code under test: {} [{}]".format(
                type(e).__name__, e, short_tb(e)), signature=None) from e
        raise
    return out


def _shard_job(modname, subname, tier, shard, nshards, seed, budget_s):
    """Runs in a worker process: returns a result dict."""
    import importlib
    mod = importlib.import_module(modname)
    prop = mod.PROPERTY
    sub = [s for s in mod.SUBCHECKS if s.name == subname][0]
    stats = Stats()
    t0 = time.time()
    result = {"subcheck": subname, "shard": shard, "violation": None, "harness_error": None}
    deadline = t0 + budget_s

    def fail_record(case, exc):
        result["violation"] = {"case": case, "message": str(exc)}

    # ---- finite enumeration part
    try:
        if sub.enumerate_cases is not None and tier in sub.enum_tiers:
            complete = True
            for i, case in enumerate(sub.enumerate_cases(tier)):
                if i % nshards != shard:
                    continue
                if time.time() > deadline:
                    complete = False
                    stats.budget_exhausted = True
                    break
                try:
                    out = execute(sub, case, prop)
                except Violation as v:
                    fail_record(case, v)
                    complete = False
                    break
                stats.record(case, out)
            stats.exhaustive = complete and result["violation"] is None
        # ---- generated part
        n = sub.quick if tier == "quick" else sub.thorough
        if sub.strategy is not None and result["violation"] is None and n > 0:
            per_shard = max(1, n // nshards)
            _run_hypothesis(sub, prop, per_shard, seed, stats, result, deadline)
            if sub.enumerate_cases is None or tier not in sub.enum_tiers:
                stats.exhaustive = False
    except Violation as v:       # from hypothesis final replay
        if result["violation"] is None:
            result["violation"] = {"case": None, "message": str(v)}
    except (KeyboardInterrupt, SystemExit):
        raise
    except BaseException as e:   # noqa
        result["harness_error"] = "{}: {}\n{}".format(type(e).__name__, e, traceback.format_exc())
    stats.wall = time.time() - t0
    result["stats"] = stats.to_dict()
    return result


def _opt_shard_job(modname, subname, tier, shard, nshards, seed, budget_s):
    """One more shard of the sub-check, executed by `python -O` (asserts stripped, __debug__ False) and with the
    guard of the repository's verification hooks off (CNFGEN_VERIF=0): the property is not allowed to depend on the
    interpreter's optimisation switch, nor on the instrumentation.  Runs in a worker; returns a result dict."""
    import subprocess
    code = ("import sys, json; from vlib.core import _shard_job; a = json.load(sys.stdin); r = _shard_job(*a); "
            "sys.stdout.write('\\n@@RESULT@@' + json.dumps(r, default=str))")
    args = [modname, subname, tier, shard, nshards, seed, budget_s]
    env = dict(os.environ, VERIF_OPT_PASS='child', CNFGEN_VERIF='0')      # and with the repository's hooks switched off
    env.pop('PYTHONOPTIMIZE', None)
    try:
        p = subprocess.run([sys.executable, '-O', '-c', code], input=json.dumps(args), text=True, env=env,
                           stdout=subprocess.PIPE, stderr=subprocess.PIPE, timeout=budget_s + 600, cwd=VERIF_DIR)
    except subprocess.TimeoutExpired:
        st = Stats()
        st.budget_exhausted = True
        return {"subcheck": subname, "shard": shard, "violation": None, "harness_error": None, "stats": st.to_dict(), "mode": "python -O"}
    if '@@RESULT@@' not in p.stdout:
        st = Stats()
        return {"subcheck": subname, "shard": shard, "violation": None, "stats": st.to_dict(), "mode": "python -O",
                "harness_error": "python -O shard produced no result (exit {}): {}".format(p.returncode, p.stderr[-1500:])}
    r = json.loads(p.stdout.split('@@RESULT@@', 1)[1])
    r["mode"] = "python -O"
    if r.get("violation"):
        r["violation"]["message"] = "[under python -O] " + r["violation"]["message"]
    return r


def _run_hypothesis(sub, prop, n, seed, stats, result, deadline):
    import hypothesis
    from hypothesis import given, settings, HealthCheck, Phase, Verbosity

    state = {"fail": None, "first_fail_t": None, "harness": None}
    shrink_budget = 45.0

    @hypothesis.seed(seed)
    @settings(max_examples=n, database=None, deadline=None, derandomize=False,
              report_multiple_bugs=False, suppress_health_check=list(HealthCheck),
              phases=[Phase.generate, Phase.shrink], verbosity=Verbosity.quiet)
    @given(case=sub.strategy())
    def test(case):
        now = time.time()
        if state["first_fail_t"] is not None:
            if now - state["first_fail_t"] > shrink_budget:
                raise Violation("shrink budget over")
        elif now > deadline:
            stats.budget_exhausted = True
            return
        try:
            out = execute(sub, case, prop)
        except Violation as v:
            if state["first_fail_t"] is None:
                state["first_fail_t"] = now
            state["fail"] = (case, str(v))
            raise
        if state["first_fail_t"] is None:
            stats.record(case, out)

    try:
        test()
    except (KeyboardInterrupt, SystemExit):
        raise
    except BaseException as e:   # noqa
        if state["fail"] is not None:
            case, msg = state["fail"]
            result["violation"] = {"case": case, "message": msg}
        else:
            raise


# ---------------------------------------------------------------------------
# driver

def load_replays(prop):
    d = os.path.join(VERIF_DIR, "replays", prop)
    out = []
    if os.path.isdir(d):
        for fn in sorted(os.listdir(d)):
            if fn.endswith(".json"):
                with open(os.path.join(d, fn)) as f:
                    out.append((os.path.join(d, fn), json.load(f)))
    return out


def write_replay(prop, subname, case, message, python_flags=None):
    d = os.path.join(VERIF_DIR, "out", "replays")
    os.makedirs(d, exist_ok=True)
    h = hashlib.sha1(canonical(case).encode("utf-8", "replace")).hexdigest()[:10]
    path = os.path.join(d, "{}-{}-{}.json".format(prop, subname, h))
    with open(path, "w") as f:
        rec = {"property": prop, "subcheck": subname, "case": case, "message": message}
        if python_flags:
            rec["python_flags"] = python_flags
        json.dump(rec, f, indent=1, sort_keys=True, default=str)
    return path


def run_replay_file(mod, path):
    with open(path) as f:
        rec = json.load(f)
    sub = [s for s in mod.SUBCHECKS if s.name == rec["subcheck"]][0]
    if "-O" in rec.get("python_flags", []) and not sys.flags.optimize:
        # the case was found under `python -O`: replay it there
        import subprocess
        code = ("import sys, json, importlib; from vlib import core; mod = importlib.import_module(sys.argv[1]); "
                "m = core.run_replay_file(mod, sys.argv[2]); sys.stdout.write('\\n@@RESULT@@' + json.dumps(m))")
        p = subprocess.run([sys.executable, '-O', '-c', code, mod.__name__, path], text=True, cwd=VERIF_DIR,
                           env=dict(os.environ, CNFGEN_VERIF='0', VERIF_OPT_PASS='child'), stdout=subprocess.PIPE, stderr=subprocess.PIPE, timeout=1800)
        if '@@RESULT@@' not in p.stdout:
            raise RuntimeError("replay under python -O failed: " + p.stderr[-1500:])
        return json.loads(p.stdout.split('@@RESULT@@', 1)[1])
    try:
        execute(sub, rec["case"], mod.PROPERTY)
    except Violation as v:
        return str(v)
    return None


def main_for(modname, argv=None):
    """Entry point: never lets a harness exception look like a violation (exit 2, not 1)."""
    try:
        return _main_for(modname, argv)
    except SystemExit:
        raise
    except BaseException:      # noqa
        traceback.print_exc()
        print("HARNESS-ERROR in {}".format(modname))
        return 2


def _main_for(modname, argv=None):
    import argparse
    import importlib
    ap = argparse.ArgumentParser()
    ap.add_argument("--tier", default=os.environ.get("VERIF_TIER", "quick"),
                    choices=["quick", "thorough"])
    ap.add_argument("--replay", default=None)
    ap.add_argument("--only", default=None, help="run a single sub-check")
    ap.add_argument("--no-evidence", action="store_true")
    args = ap.parse_args(argv)
    mod = importlib.import_module(modname)
    prop = mod.PROPERTY
    seed = int(os.environ.get("VERIF_SEED", "1"))
    t0 = time.time()
    try:                       # warm the import cache before forking workers
        import cnfgen          # noqa
        import hypothesis      # noqa
    except Exception:          # noqa
        traceback.print_exc()
        print("HARNESS-ERROR property={} cannot import cnfgen from {}".format(prop, REPO))
        return 2

    if args.replay:
        try:
            msg = run_replay_file(mod, args.replay)
        except Exception:   # noqa
            traceback.print_exc()
            print("HARNESS-ERROR property={} while replaying {}".format(prop, args.replay))
            return 2
        if msg is not None:
            print("  " + msg)
            print("VIOLATION property={} replay={}".format(prop, args.replay))
            return 1
        print("replay passes: {}".format(args.replay))
        return 0

    violations = []
    harness_errors = []

    # 1. committed replays (regression tier)
    replayed = 0
    for path, rec in load_replays(prop):
        try:
            msg = run_replay_file(mod, path)
        except Exception as e:   # noqa
            harness_errors.append("replay {}: {}".format(path, traceback.format_exc()))
            continue
        replayed += 1
        if msg is not None:
            violations.append((rec["subcheck"], path, msg))

    # 2. sub-checks, sharded
    subs = [s for s in mod.SUBCHECKS if args.only in (None, s.name)]
    default_budget = 100.0 if args.tier == "quick" else 1500.0
    budget = float(os.environ.get("VERIF_BUDGET_S", default_budget))
    jobs = []
    for s in subs:
        if args.tier == "quick":
            nshards = min(NPROC, max(1, 16 // max(1, len(subs))))
        else:
            nshards = NPROC
        if s.max_shards:
            nshards = min(nshards, s.max_shards)
        nshards = max(1, nshards)
        for sh in range(nshards):
            jobs.append((modname, s.name, args.tier, sh, nshards,
                         derive_seed(seed, prop, s.name, sh), budget))
    opt_jobs = []
    if os.environ.get("VERIF_OPT_PASS", "1") not in ("0", "child") and not sys.flags.optimize:
        # one more shard per sub-check under `python -O` (same share of the work as an ordinary shard)
        for s in subs:
            if not s.opt_pass:
                continue
            ns = [j[4] for j in jobs if j[1] == s.name][0]
            opt_jobs.append((modname, s.name, args.tier, 0, ns, derive_seed(seed, prop, s.name, "opt"), budget))
    results = []
    ctx = multiprocessing.get_context("fork")
    lost = []
    with ProcessPoolExecutor(max_workers=NPROC, mp_context=ctx) as ex:
        futs = dict([(ex.submit(_shard_job, *j), (_shard_job, j)) for j in jobs] +
                    [(ex.submit(_opt_shard_job, *j), (_opt_shard_job, j)) for j in opt_jobs])
        for f in as_completed(futs):
            try:
                results.append(f.result())
            except Exception:   # noqa
                lost.append(futs[f])
    if lost:
        # a worker that dies (killed for its memory, say) takes every pending shard of the pool with it: the lost shards
        # are run again, each in a pool of its own, so that one sub-check cannot hide what the others have to say
        from concurrent.futures import ThreadPoolExecutor

        def alone(fn_job):
            fn, j = fn_job
            try:
                with ProcessPoolExecutor(max_workers=1, mp_context=ctx) as one:
                    return one.submit(fn, *j).result()
            except Exception as e:   # noqa
                return "worker died again ({} shard {}{}): {}".format(j[1], j[3], " under python -O" if fn is _opt_shard_job else "", e)
        with ThreadPoolExecutor(max_workers=NPROC) as tp:
            for r in tp.map(alone, lost):
                if isinstance(r, str):
                    harness_errors.append(r)
                else:
                    results.append(r)

    per_sub = {}
    for s in subs:
        per_sub[s.name] = {"evaluations": 0, "hashes": set(), "labels": {}, "rejected": 0,
                           "excluded_known": {}, "samples": [], "exhaustive": True,
                           "wall": 0.0, "budget_exhausted": False, "shards": 0, "opt_evaluations": 0}
    for r in results:
        agg = per_sub[r["subcheck"]]
        if r.get("harness_error"):
            harness_errors.append("{} shard {}: {}".format(r["subcheck"], r["shard"], r["harness_error"]))
        st = r["stats"]
        if r.get("mode") == "python -O":
            # counted apart: it repeats the work of an ordinary shard under another interpreter mode
            agg["opt_evaluations"] += st["evaluations"]
            agg["wall"] = max(agg["wall"], st["wall"])
            if r["violation"] is not None:
                v = r["violation"]
                path = write_replay(prop, r["subcheck"], v["case"], v["message"], python_flags=["-O"])
                violations.append((r["subcheck"], path, v["message"]))
            continue
        agg["shards"] += 1
        agg["evaluations"] += st["evaluations"]
        agg["hashes"].update(st["nontrivial_hashes"])
        for k, v in st["labels"].items():
            agg["labels"][k] = agg["labels"].get(k, 0) + v
        agg["rejected"] += st["rejected"]
        for k, v in st["excluded_known"].items():
            agg["excluded_known"][k] = agg["excluded_known"].get(k, 0) + v
        if len(agg["samples"]) < 3:
            agg["samples"].extend(st["samples"][: 3 - len(agg["samples"])])
        agg["exhaustive"] = agg["exhaustive"] and st["exhaustive"]
        agg["wall"] = max(agg["wall"], st["wall"])
        agg["budget_exhausted"] = agg["budget_exhausted"] or st["budget_exhausted"]
        if r["violation"] is not None:
            v = r["violation"]
            path = write_replay(prop, r["subcheck"], v["case"], v["message"])
            violations.append((r["subcheck"], path, v["message"]))

    # known findings: print once per signature
    known_seen = {}
    for name, agg in per_sub.items():
        for sig, cnt in agg["excluded_known"].items():
            known_seen[(name, sig)] = cnt
    for e in known_findings().get("open", []):
        if e["property"] != prop:
            continue
        cnt = known_seen.get((e["subcheck"], e["signature"]), 0)
        if cnt:
            print("KNOWN-FINDING: property={} {} [{} cases excluded]".format(prop, e["what"], cnt))
        elif args.only in (None, e["subcheck"]):
            print("note: known finding '{}' not reproduced in this run".format(e["signature"]))

    # vacuity: required labels
    vacuous = []
    for s in subs:
        agg = per_sub[s.name]
        for l in s.required_labels:
            if agg["labels"].get(l, 0) == 0 and not agg["budget_exhausted"]:
                vacuous.append("{}:{}".format(s.name, l))

    total_eval = sum(a["evaluations"] for a in per_sub.values()) + replayed
    all_hashes = set()
    for name, a in per_sub.items():
        all_hashes.update(name + h for h in a["hashes"])
    samples = []
    for name, a in per_sub.items():
        for c in a["samples"][:2]:
            samples.append({"subcheck": name, "case": c})
    wall = time.time() - t0
    seen_viol = {}
    for subname, path, msg in violations:
        seen_viol.setdefault(subname, (path, msg))

    if not args.no_evidence and args.only is None:
        ev = {
            "property_id": prop,
            "tier": args.tier,
            "seed": seed,
            "level": "exploration",
            "coverage": {
                "evaluations": total_eval,
                "distinct_nontrivial": len(all_hashes),
                "rule": " || ".join("[{}] {}".format(s.name, s.rule) for s in subs),
                "samples": samples[:40],
                "exhaustive": False,
                "exhaustive_slices": sorted(n for n, a in per_sub.items() if a["exhaustive"]),
                "replays_run": replayed,
                "interpreter_modes": ["python (16 shards)"] + (["python -O with CNFGEN_VERIF=0 (one more shard per sub-check; counted apart in evaluations_under_python_O)"] if opt_jobs else []),
                "evaluations_under_python_O": sum(a["opt_evaluations"] for a in per_sub.values()),
                "per_subcheck": {
                    name: {"evaluations": a["evaluations"],
                           "distinct_nontrivial": len(a["hashes"]),
                           "exhaustive": a["exhaustive"], "rejected": a["rejected"],
                           "excluded_known": a["excluded_known"], "labels": a["labels"],
                           "wall_s": round(a["wall"], 2), "shards": a["shards"],
                           "evaluations_under_python_O": a["opt_evaluations"],
                           "budget_exhausted": a["budget_exhausted"]}
                    for name, a in per_sub.items()},
                "vacuous_labels": vacuous,
                "budget_exhausted": any(a["budget_exhausted"] for a in per_sub.values()),
            },
            "assumptions": list(getattr(mod, "ASSUMPTIONS", [])),
            "wall_s": round(wall, 2),
            "violations": len(seen_viol),
        }
        os.makedirs(os.path.join(VERIF_DIR, "evidence"), exist_ok=True)
        tmp = os.path.join(VERIF_DIR, "evidence", prop + ".json.tmp")
        with open(tmp, "w") as f:
            json.dump(ev, f, indent=1, sort_keys=True, default=str)
        os.replace(tmp, os.path.join(VERIF_DIR, "evidence", prop + ".json"))

    print("{} tier={} seed={} evaluations={} distinct_nontrivial={} wall={:.1f}s (+{} evaluations under python -O)".format(
        prop, args.tier, seed, total_eval, len(all_hashes), wall, sum(a["opt_evaluations"] for a in per_sub.values())))
    for name, a in per_sub.items():
        print("  {:28s} eval={:7d} nontrivial={:7d} rejected={:6d} exhaustive={} wall={:.1f}s{}".format(
            name, a["evaluations"], len(a["hashes"]), a["rejected"], a["exhaustive"], a["wall"],
            " BUDGET-EXHAUSTED" if a["budget_exhausted"] else ""))

    if seen_viol:
        # a violation stands on its own replay file, whatever happened to other shards
        for subname, (path, msg) in seen_viol.items():
            print("  [{}] {}".format(subname, msg[:2000]))
            print("VIOLATION property={} replay={}".format(prop, path))
        for h in harness_errors:
            print("note: harness error in another part of this run: {}".format(h))
        return 1
    if harness_errors:
        for h in harness_errors:
            print("HARNESS-ERROR property={} {}".format(prop, h))
        return 2
    if vacuous:
        # a class of cases the property cares about never occurred in this run: recorded in the evidence
        # (coverage.vacuous_labels); fatal only in strict mode, which is how the generators are developed
        if os.environ.get("VERIF_STRICT_LABELS") == "1":
            print("HARNESS-ERROR property={} required labels never produced: {}".format(prop, vacuous))
            return 2
        print("WARNING property={} labels never produced in this run: {}".format(prop, vacuous))
    return 0
